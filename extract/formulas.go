package main

import (
	"fmt"
	"go/ast"
	"go/constant"
	"go/token"
	"go/types"
	"os"
	"path/filepath"
	"strings"

	"golang.org/x/tools/go/packages"
)

// A sink names a local variable (or "return#i") of a function whose defining expression is translated
// into a Lean term over Int (math.Int → Int, LegacyDec → raw Int via Layer.Dec.*), after substituting
// the straight-line single assignments that precede it.
type sink struct {
	lean string // name of the generated Lean def
	pkg  string // package path suffix
	fn   string // function name (Recv.Name)
	v    string // variable name
}

var sinks = []sink{
	{"mintProvision", "x/mint/types", "Minter.CalculateBlockProvision", "mintAmount"},
	{"tipBurn", "x/oracle/keeper", "Keeper.transfer", "twoPercent"},
	{"anteLower", "x/reporter/ante", "TrackStakeChangesDecorator.AnteHandle", "allowedLowerBound"},
	{"anteUpper", "x/reporter/ante", "TrackStakeChangesDecorator.AnteHandle", "allowedUpperBound"},
	{"rewardAmount", "x/oracle/keeper", "CalculateRewardAmount", "amount"},
	{"powerThreshold", "x/bridge/keeper", "Keeper.SetBridgeValidatorParams", "powerThreshold"},
	{"ratio", "x/dispute/keeper", "Ratio", "ratioDec"},
}

type tr struct {
	p      *packages.Package
	c      *ctx
	defs   map[string]ast.Expr // local single assignments seen so far
	params []string
	seen   map[string]bool
}

// frozen is a pre-translated expression (translated under the bindings in force where it was assigned)
type frozen struct {
	ast.Expr
	lean string
}

func (t *tr) freeze(e ast.Expr) ast.Expr {
	defer func() {
		// an untranslatable binding only matters if the sink uses it: keep it lazy
		recover()
	}()
	var out ast.Expr = e
	func() {
		defer func() {
			if r := recover(); r != nil {
				out = &lazyFail{Expr: e, msg: fmt.Sprint(r)}
			}
		}()
		out = &frozen{Expr: e, lean: t.ex(e)}
	}()
	return out
}

type lazyFail struct {
	ast.Expr
	msg string
}

func (t *tr) fail(n ast.Node, msg string) {
	panic(fmt.Sprintf("%s: unsupported in formula: %s (%s)", t.c.fset.Position(n.Pos()), msg, t.c.expr(n)))
}

func (t *tr) param(name string) string {
	name = strings.NewReplacer(".", "_", "(", "", ")", "", "*", "", "&", "").Replace(name)
	if !t.seen[name] {
		t.seen[name] = true
		t.params = append(t.params, name)
	}
	return name
}

func typeName(ty types.Type) string {
	if ty == nil {
		return ""
	}
	if p, ok := ty.(*types.Pointer); ok {
		ty = p.Elem()
	}
	if n, ok := ty.(*types.Named); ok {
		return n.Obj().Name()
	}
	return ty.String()
}

func (t *tr) constOf(e ast.Expr) (string, bool) {
	if tv, ok := t.p.TypesInfo.Types[e]; ok && tv.Value != nil {
		if tv.Value.Kind() == constant.Int {
			return "(" + tv.Value.ExactString() + ")", true
		}
	}
	return "", false
}

func (t *tr) ex(e ast.Expr) string {
	if s, ok := t.constOf(e); ok {
		return s
	}
	switch x := e.(type) {
	case *frozen:
		return x.lean
	case *lazyFail:
		panic(x.msg)
	case *ast.ParenExpr:
		return t.ex(x.X)
	case *ast.Ident:
		if d, ok := t.defs[x.Name]; ok {
			return t.ex(d)
		}
		return t.param(x.Name)
	case *ast.SelectorExpr:
		// struct field path such as tip.Amount
		return t.param(t.c.expr(x))
	case *ast.BinaryExpr:
		l, r := t.ex(x.X), t.ex(x.Y)
		switch x.Op {
		case token.ADD:
			return "(" + l + " + " + r + ")"
		case token.SUB:
			return "(" + l + " - " + r + ")"
		case token.MUL:
			return "(" + l + " * " + r + ")"
		case token.QUO:
			return "(Int.tdiv " + l + " " + r + ")"
		case token.REM:
			return "(Int.tmod " + l + " " + r + ")"
		}
		t.fail(e, "operator")
	case *ast.CallExpr:
		// conversions int64(x), uint64(x): identity on the mathematical value (wrap is the model's business)
		if id, ok := x.Fun.(*ast.Ident); ok && len(x.Args) == 1 {
			switch id.Name {
			case "int64", "uint64", "int", "uint32", "int32":
				return t.ex(x.Args[0])
			}
		}
		se, ok := x.Fun.(*ast.SelectorExpr)
		if !ok {
			t.fail(e, "call")
		}
		name := se.Sel.Name
		// package-level constructors of cosmossdk.io/math
		if id, ok := se.X.(*ast.Ident); ok {
			if _, isPkg := t.p.TypesInfo.Uses[id].(*types.PkgName); isPkg {
				switch name {
				case "NewInt", "NewIntFromUint64", "NewIntFromBigInt":
					return t.ex(x.Args[0])
				case "ZeroInt":
					return "(0)"
				case "OneInt":
					return "(1)"
				case "LegacyNewDec", "LegacyNewDecFromInt", "LegacyNewDecFromBigInt":
					return "(Layer.Dec.ofInt " + t.ex(x.Args[0]) + ")"
				case "LegacyZeroDec":
					return "(0)"
				case "LegacyOneDec":
					return "(Layer.Dec.ofInt 1)"
				}
				t.fail(e, "package function")
			}
		}
		recvT := typeName(t.p.TypesInfo.TypeOf(se.X))
		recv := t.ex(se.X)
		arg := func(i int) string { return t.ex(x.Args[i]) }
		switch recvT {
		case "Int":
			switch name {
			case "Add", "AddRaw":
				return "(" + recv + " + " + arg(0) + ")"
			case "Sub", "SubRaw":
				return "(" + recv + " - " + arg(0) + ")"
			case "Mul", "MulRaw":
				return "(" + recv + " * " + arg(0) + ")"
			case "Quo", "QuoRaw":
				return "(Int.tdiv " + recv + " " + arg(0) + ")"
			case "Neg":
				return "(- " + recv + ")"
			case "ToLegacyDec":
				return "(Layer.Dec.ofInt " + recv + ")"
			}
		case "LegacyDec":
			switch name {
			case "Add":
				return "(" + recv + " + " + arg(0) + ")"
			case "Sub":
				return "(" + recv + " - " + arg(0) + ")"
			case "Mul":
				return "(Layer.Dec.mul " + recv + " " + arg(0) + ")"
			case "Quo":
				return "(Layer.Dec.quo " + recv + " " + arg(0) + ")"
			case "MulTruncate":
				return "(Layer.Dec.mulTruncate " + recv + " " + arg(0) + ")"
			case "QuoTruncate":
				return "(Layer.Dec.quoTruncate " + recv + " " + arg(0) + ")"
			case "MulInt":
				return "(Layer.Dec.mulInt " + recv + " " + arg(0) + ")"
			case "MulInt64":
				return "(Layer.Dec.mulInt " + recv + " " + arg(0) + ")"
			case "QuoInt":
				return "(Layer.Dec.quoInt " + recv + " " + arg(0) + ")"
			case "QuoInt64":
				return "(Layer.Dec.quoInt " + recv + " " + arg(0) + ")"
			case "TruncateInt":
				return "(Layer.Dec.truncateInt " + recv + ")"
			case "RoundInt":
				return "(Layer.Dec.roundInt " + recv + ")"
			case "TruncateInt64":
				return "(Layer.Dec.truncateInt " + recv + ")"
			case "Neg":
				return "(- " + recv + ")"
			}
		case "Duration":
			if name == "Milliseconds" {
				return "(Int.tdiv " + recv + " (1000000))"
			}
		case "Time":
			if name == "Sub" { // nanoseconds between two instants
				return "(" + recv + " - " + arg(0) + ")"
			}
		}
		t.fail(e, "method "+recvT+"."+name)
	}
	t.fail(e, "expression")
	return ""
}

func formulas() {
	c := load("./x/...", "./app/...")
	var sb strings.Builder
	sb.WriteString("/- GENERATED by /verif/extract (step formulas) from the repository's working tree. Do not edit. -/\n")
	sb.WriteString("import LayerModel.Base.Dec\nnamespace Layer.Gen\n\n")
	failed := false
	for _, s := range sinks {
		func() {
			defer func() {
				if r := recover(); r != nil {
					if os.Getenv("EXTRACT_DEBUG") != "" {
						panic(r)
					}
					fmt.Fprintln(os.Stderr, "extract:", s.lean, ":", r)
					sb.WriteString("-- " + s.lean + ": NOT TRANSLATED: " + strings.ReplaceAll(fmt.Sprint(r), "\n", " ") + "\n\n")
					failed = true
				}
			}()
			var fd *ast.FuncDecl
			var pk *packages.Package
			for _, p := range c.pkgs {
				if !strings.HasSuffix(p.PkgPath, s.pkg) {
					continue
				}
				for _, f := range p.Syntax {
					if skipFile(c.rel(f.Pos())) {
						continue
					}
					for _, d := range f.Decls {
						if x, ok := d.(*ast.FuncDecl); ok && x.Body != nil && funcName(x) == s.fn {
							fd, pk = x, p
						}
					}
				}
			}
			if fd == nil {
				panic("function " + s.fn + " not found in " + s.pkg)
			}
			t := &tr{p: pk, c: c, defs: map[string]ast.Expr{}, seen: map[string]bool{}}
			var target ast.Expr
			// sequential environment over the statements in source order: `x := e` and `x = e` bind x to e with the
			// bindings known so far substituted (so a re-assignment such as `total = total.MulRaw(4)` is followed);
			// anything assigned inside a loop, or by an op-assignment (+=, …), is havoc: it stays a free variable.
			havoc := map[string]bool{}
			var walk func(n ast.Node, inLoop bool)
			bind := func(name string, rhs ast.Expr, inLoop bool, tok token.Token) {
				if inLoop || (tok != token.DEFINE && tok != token.ASSIGN) {
					havoc[name] = true
					delete(t.defs, name)
					return
				}
				// substitute current bindings now (sequential semantics)
				t.defs[name] = t.freeze(rhs)
			}
			walk = func(n ast.Node, inLoop bool) {
				if n == nil || target != nil {
					return
				}
				switch x := n.(type) {
				case *ast.AssignStmt:
					if len(x.Lhs) == len(x.Rhs) {
						for i, l := range x.Lhs {
							if id, ok := l.(*ast.Ident); ok {
								if id.Name == s.v {
									target = t.freeze(x.Rhs[i])
									return
								}
								bind(id.Name, x.Rhs[i], inLoop, x.Tok)
							}
						}
					} else {
						for _, l := range x.Lhs {
							if id, ok := l.(*ast.Ident); ok {
								havoc[id.Name] = true
								delete(t.defs, id.Name)
							}
						}
					}
				case *ast.IncDecStmt:
					if id, ok := x.X.(*ast.Ident); ok {
						havoc[id.Name] = true
						delete(t.defs, id.Name)
					}
				case *ast.ForStmt:
					walk(x.Body, true)
				case *ast.RangeStmt:
					walk(x.Body, true)
				case *ast.BlockStmt:
					for _, st := range x.List {
						walk(st, inLoop)
					}
				case *ast.IfStmt:
					walk(x.Init, inLoop)
					walk(x.Body, inLoop)
					walk(x.Else, inLoop)
				case *ast.SwitchStmt:
					walk(x.Body, inLoop)
				case *ast.TypeSwitchStmt:
					walk(x.Body, inLoop)
				case *ast.CaseClause:
					for _, st := range x.Body {
						walk(st, inLoop)
					}
				case *ast.DeclStmt:
				}
			}
			walk(fd.Body, false)
			if target == nil {
				panic("variable " + s.v + " not assigned in " + s.fn)
			}
			body := t.ex(target)
			_ = havoc
			var ps []string
			for _, p := range t.params {
				ps = append(ps, "("+p+" : Int)")
			}
			var orig ast.Node = target
			if fz, ok := target.(*frozen); ok {
				orig = fz.Expr
			}
			if lf, ok := target.(*lazyFail); ok {
				orig = lf.Expr
			}
			sb.WriteString(fmt.Sprintf("/-- %s.%s : `%s := %s` -/\n", s.pkg, s.fn, s.v, c.expr(orig)))
			sb.WriteString(fmt.Sprintf("def %s %s : Int :=\n  %s\n\n", s.lean, strings.Join(ps, " "), body))
		}()
	}
	sb.WriteString("end Layer.Gen\n")
	must(os.WriteFile(filepath.Join(*out, "Formulas.lean"), []byte(sb.String()), 0o644))
	if failed {
		os.Exit(3)
	}
}
