#!/usr/bin/env python3
"""Solidity scanner: sol_scan.py <repo> <outdir>
Reads evm/contracts/bridge/{BlobstreamO,Constants}.sol and evm/contracts/token-bridge/TokenBridge.sol and writes
Gen/SolAbi.lean: for every abi.encode / abi.decode the resolved argument TYPE list (in order), the bytes32 constants,
the struct field lists, and the comparison operators of the update rule."""
import re, sys, os

repo, out = sys.argv[1], sys.argv[2]
FILES = ["evm/contracts/bridge/Constants.sol", "evm/contracts/bridge/BlobstreamO.sol", "evm/contracts/token-bridge/TokenBridge.sol"]

def strip_comments(s):
    s = re.sub(r"/\*.*?\*/", " ", s, flags=re.S)
    s = re.sub(r"//[^\n]*", " ", s)
    return s

TYPES = r"(?:uint256|uint64|uint8|bytes32|bytes|string|address|bool|[A-Z]\w*)(?:\[\])?"
rows = []
consts, structs, statevars = {}, {}, {}

srcs = {}
for f in FILES:
    path = os.path.join(repo, f)
    if not os.path.exists(path):
        print("missing", f, file=sys.stderr); sys.exit(1)
    srcs[f] = strip_comments(open(path).read())

for f, s in srcs.items():
    for m in re.finditer(r"(bytes32)\s+constant\s+(\w+)\s*=\s*(0x[0-9a-fA-F]+)\s*;", s):
        consts[m.group(2)] = (m.group(1), m.group(3).lower())
    for m in re.finditer(r"struct\s+(\w+)\s*\{([^}]*)\}", s):
        fields = [(t, n) for t, n in re.findall(r"(" + TYPES + r")\s+(\w+)\s*;", m.group(2))]
        structs[m.group(1)] = fields
    for m in re.finditer(r"^\s*(" + TYPES + r")\s+(?:public\s+|private\s+|internal\s+)?(\w+)\s*;", s, flags=re.M):
        statevars[m.group(2)] = m.group(1)

def split_args(a):
    args, depth, cur, instr = [], 0, "", False
    for ch in a:
        if ch == '"':
            instr = not instr
        if not instr:
            if ch in "([": depth += 1
            if ch in ")]": depth -= 1
            if ch == "," and depth == 0:
                args.append(cur.strip()); cur = ""; continue
        cur += ch
    if cur.strip(): args.append(cur.strip())
    return args

def matching(s, i):
    depth = 0
    for j in range(i, len(s)):
        if s[j] == "(": depth += 1
        elif s[j] == ")":
            depth -= 1
            if depth == 0: return j
    return -1

def type_of(expr, env):
    e = expr.strip()
    if e.startswith("abi.encode(") or e.startswith("abi.encodePacked("): return "bytes"
    if e.startswith('"'): return "string"
    if e in ("true", "false"): return "bool"
    if re.fullmatch(r"\d+", e): return "uint256"
    parts = e.split(".")
    t = env.get(parts[0]) or statevars.get(parts[0]) or (consts.get(parts[0]) or (None,))[0]
    for p in parts[1:]:
        if t is None: break
        fl = dict((n, ty) for ty, n in structs.get(t.replace("[]", ""), []))
        t = fl.get(p)
    return t or ("?" + e)

for f, s in srcs.items():
    # function by function
    for fm in re.finditer(r"function\s+(\w+)\s*\(([^)]*)\)[^{;]*\{", s):
        name = fm.group(1)
        env = {}
        for prm in split_args(fm.group(2)):
            toks = prm.split()
            if len(toks) >= 2:
                env[toks[-1]] = toks[0]
        # body: up to matching brace
        i = fm.end() - 1
        depth, j = 0, i
        while j < len(s):
            if s[j] == "{": depth += 1
            elif s[j] == "}":
                depth -= 1
                if depth == 0: break
            j += 1
        body = s[i:j]
        for lm in re.finditer(r"(" + TYPES + r")\s+(?:memory\s+|calldata\s+)?(\w+)\s*=", body):
            env[lm.group(2)] = lm.group(1)
        n = 0
        for em in re.finditer(r"abi\.(encode|encodePacked|decode)\s*\(", body):
            k = matching(body, em.end() - 1)
            inner = body[em.end():k]
            args = split_args(inner)
            if em.group(1) == "decode":
                tys = split_args(args[1].strip()[1:-1]) if len(args) > 1 else []
                tys = [t.split()[0] for t in tys]
                rows.append([os.path.basename(f), name, "%02d" % n, "decode", ",".join(tys)])
            else:
                tys = [type_of(a, env) for a in args]
                lits = [a for a in args if a.startswith('"') or a in ("true", "false")]
                rows.append([os.path.basename(f), name, "%02d" % n, em.group(1), ",".join(tys)])
                if lits:
                    rows.append([os.path.basename(f), name, "%02d" % n, "literals", ",".join(lits)])
            n += 1
        # comparison operators of the update rule / signature check
        if name in ("updateValidatorSet", "_checkValidatorSignatures", "_verifySig", "withdrawFromLayer"):
            conds = re.findall(r"if\s*\(([^{;]*?)\)\s*\{", body)
            conds = [re.sub(r"\s+", " ", c.strip()) for c in conds]
            rows.append([os.path.basename(f), name, "zz", "conditions", " ;; ".join(conds)])
            # control/effect skeleton in source order: if / for / continue / break / revert X / assignments to state or accumulators
            flow = []
            for tm in re.finditer(r"\b(if|continue|break|return)\b|revert\s+(\w+)|\b(\w+)\s*(\+=|-=|=)(?![=>])\s*([^;]*);|for\s*\(([^)]*)\)|(?<![\w.])(_checkValidatorSignatures|_verifySig)\s*\(", body):
                if tm.group(6) is not None: flow.append("for " + re.sub(r"\s+", " ", tm.group(6).strip()))
                elif tm.group(7):
                    k2 = matching(body, tm.end() - 1)
                    flow.append("call " + tm.group(7) + "(" + re.sub(r"\s+", " ", body[tm.end():k2].strip()) + ")")
                elif tm.group(1): flow.append(tm.group(1))
                elif tm.group(2): flow.append("revert " + tm.group(2))
                else:
                    pre = body[:tm.start()].rstrip()
                    if re.search(r"(" + TYPES + r")(\s+(memory|calldata))?$", pre):  # a local declaration: keep name only
                        flow.append("let " + tm.group(3) + " = " + re.sub(r"\s+", " ", tm.group(5).strip()))
                    else:
                        flow.append(tm.group(3) + " " + tm.group(4) + " " + re.sub(r"\s+", " ", tm.group(5).strip()))
            rows.append([os.path.basename(f), name, "zz", "flow", " ;; ".join(flow)])
            reqs = [re.sub(r"\s+", " ", r.strip()) for r in re.findall(r"require\s*\((.*?),\s*\"", body, flags=re.S)]
            if reqs:
                rows.append([os.path.basename(f), name, "zz", "requires", " ;; ".join(reqs)])

for k, (t, v) in sorted(consts.items()):
    rows.append(["Constants.sol", k, "00", "constant", v])
for k, fl in sorted(structs.items()):
    rows.append(["struct", k, "00", "fields", ",".join(t + " " + n for t, n in fl)])

def lean_str(x):
    return '"' + x.replace("\\", "\\\\").replace('"', '\\"') + '"'

rows.sort()
with open(os.path.join(out, "SolAbi.lean"), "w") as fh:
    fh.write("/- GENERATED by /verif/extract/sol_scan.py from evm/contracts. Do not edit. -/\nnamespace Layer.Gen\n\n")
    fh.write("/-- Solidity side: argument type lists of abi.encode/decode, literals, constants, struct fields, conditions\nfields: file, function, order, kind, items -/\n")
    fh.write("def solAbi : List (List String) := [\n")
    fh.write(",\n".join("  [" + ", ".join(lean_str(c) for c in r) + "]" for r in rows))
    fh.write("\n]\n\nend Layer.Gen\n")
