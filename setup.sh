#!/bin/bash
# Offline build of the framework from files on disk: harness against /repo, translators, Lean model + driver.
set -e
cd "$(dirname "$0")"
export GOFLAGS=-mod=mod GOPROXY=off GOSUMDB=off GOTOOLCHAIN=local
mkdir -p work harness/bin extract/bin evidence
./tools/gen_gomod.sh
(cd harness && go test -c -tags verif -o bin/harness.test .)
if [ -f extract/go.mod ]; then (cd extract && go build -o bin/extract .); fi
(cd lean && lake build driver LayerModel)
echo "setup ok"
