package harness

import (
	"bufio"
	"fmt"
	"os"
	"strconv"
	"strings"
	"testing"
)

// Family: a generator of canonical input lines and a runner that evaluates the REAL code on one input.
type Family struct {
	Name string
	// Gen returns the input fields of case i.
	Gen func(r *Rng, i int, tier string) []string
	// Run calls the implementation; the returned string is the canonical observation.
	Run func(t *testing.T, in []string) string
	// Setup is run once before the first case (optional)
	Setup func(t *testing.T)
}

var families = map[string]*Family{}

func register(f *Family) { families[f.Name] = f }

func envInt(name string, def int) int {
	if v := os.Getenv(name); v != "" {
		if n, err := strconv.Atoi(v); err == nil {
			return n
		}
	}
	return def
}

// safeRun recovers panics of the implementation so that one crashing case is an observation.
func safeRun(t *testing.T, f *Family, in []string) (out string) {
	defer func() {
		if r := recover(); r != nil {
			if os.Getenv("HARNESS_NORECOVER") != "" {
				panic(r)
			}
			msg := fmt.Sprint(r)
			msg = strings.ReplaceAll(msg, "\n", " ")
			msg = strings.ReplaceAll(msg, "|", "/")
			if len(msg) > 120 {
				msg = msg[:120]
			}
			out = "panic:" + msg
		}
	}()
	return f.Run(t, in)
}

// TestHarness is the single entry point:
//   HARNESS_FAMILY=<name> HARNESS_OUT=<file> [HARNESS_N=<cases>] [HARNESS_INPUT=<file of input lines>]
//   VERIF_SEED=<int> VERIF_TIER=quick|thorough
func TestHarness(t *testing.T) {
	name := os.Getenv("HARNESS_FAMILY")
	if name == "" {
		t.Skip("no HARNESS_FAMILY")
	}
	f, ok := families[name]
	if !ok {
		t.Fatalf("unknown family %q", name)
	}
	outPath := os.Getenv("HARNESS_OUT")
	out, err := NewOut(outPath)
	if err != nil {
		t.Fatal(err)
	}
	defer out.Close()
	seed := uint64(envInt("VERIF_SEED", 1))
	tier := os.Getenv("VERIF_TIER")
	if tier == "" {
		tier = "quick"
	}
	if f.Setup != nil {
		f.Setup(t)
	}
	emit := func(in []string) {
		res := safeRun(t, f, in)
		fields := append([]string{name}, in...)
		fields = append(fields, "=>", res)
		out.Line(fields...)
	}
	// corpus / replay inputs first
	if p := os.Getenv("HARNESS_INPUT"); p != "" {
		for _, path := range strings.Split(p, ":") {
			fh, err := os.Open(path)
			if err != nil {
				continue
			}
			sc := bufio.NewScanner(fh)
			sc.Buffer(make([]byte, 1<<20), 1<<26)
			for sc.Scan() {
				line := strings.TrimSpace(sc.Text())
				if line == "" || strings.HasPrefix(line, "#") {
					continue
				}
				parts := strings.Split(line, "|")
				if parts[0] != name {
					continue
				}
				in := parts[1:]
				for i, p := range in {
					if p == "=>" {
						in = in[:i]
						break
					}
				}
				emit(in)
			}
			fh.Close()
		}
	}
	n := envInt("HARNESS_N", 0)
	r := NewRng(seed)
	for i := 0; i < n; i++ {
		emit(f.Gen(r, i, tier))
	}
}
