package harness

import (
	"encoding/hex"
	"fmt"
	"sort"
	"strconv"
	"strings"
	"testing"

	"cosmossdk.io/collections"
	"cosmossdk.io/math"

	sdk "github.com/cosmos/cosmos-sdk/types"
	stakingkeeper "github.com/cosmos/cosmos-sdk/x/staking/keeper"
	stakingtypes "github.com/cosmos/cosmos-sdk/x/staking/types"
)

// family "slash" (C11, C05): reports, staking changes between report and dispute, disputes of every category with every fee
// pattern, one transaction per block.  Per block the records of family "repstake" plus
//   U delegator:validator:balance        unbonding delegations (sum of the entries' balances)
//   P bonded=<bal> notbonded=<bal> dispute=<bal> valtokens=<bonded sum>/<not bonded sum> ubd=<sum>    pools vs ledgers
//   E id:status:category:slash:feeTotal:reporter:power:height:open:<escrow total>:<deleg.val.amount+…>   every dispute
func init() {
	register(&Family{Name: "slash", Gen: genSlashHist, Run: runSlashHist})
	register(&Family{Name: "ledgerslash", Gen: genSlashHist, Run: runSlashHist}) // C05: the same histories, ledger monitors
	register(&Family{Name: "nohaltslash", Gen: genSlashHist, Run: runSlashHist}) // C02: the same histories never stop the chain
}

func dumpSlash(c *Chain) []string {
	ctx := c.Ctx()
	var us []string
	ubdSum := math.ZeroInt()
	names := make([]string, 0, len(c.byName))
	for n := range c.byName {
		names = append(names, n)
	}
	sort.Strings(names)
	for _, n := range names {
		ubds, err := c.App.StakingKeeper.GetAllUnbondingDelegations(ctx, c.byName[n].Addr)
		if err != nil {
			continue
		}
		for _, u := range ubds {
			b := math.ZeroInt()
			for _, e := range u.Entries {
				b = b.Add(e.Balance)
			}
			va, _ := sdk.ValAddressFromBech32(u.ValidatorAddress)
			us = append(us, fmt.Sprintf("%s:%s:%s", n, c.valName(va), b))
			ubdSum = ubdSum.Add(b)
		}
	}
	bondedTok, notBondedTok := math.ZeroInt(), math.ZeroInt()
	vals, _ := c.App.StakingKeeper.GetAllValidators(ctx)
	for _, v := range vals {
		if v.IsBonded() {
			bondedTok = bondedTok.Add(v.Tokens)
		} else {
			notBondedTok = notBondedTok.Add(v.Tokens)
		}
	}
	// the staking module's own invariants (cosmos-sdk x/staking/keeper/invariants.go) on the committed state
	inv := "ok"
	for name, f := range map[string]sdk.Invariant{
		"nonnegative-power":   stakingkeeper.NonNegativePowerInvariant(c.App.StakingKeeper),
		"positive-delegation": stakingkeeper.PositiveDelegationInvariant(c.App.StakingKeeper),
		"delegator-shares":    stakingkeeper.DelegatorSharesInvariant(c.App.StakingKeeper),
	} {
		if _, broken := f(ctx); broken {
			inv = "broken-" + name
		}
	}
	out := []string{"U " + strings.Join(us, ","),
		fmt.Sprintf("P bonded=%s notbonded=%s dispute=%s valtokens=%s/%s ubd=%s inv=%s ndel=%d", c.ModBal(stakingtypes.BondedPoolName), c.ModBal(stakingtypes.NotBondedPoolName),
			c.ModBal("dispute"), bondedTok, notBondedTok, ubdSum, inv, ndel(c))}
	var es []string
	if it, err := c.App.DisputeKeeper.Disputes.Iterate(ctx, nil); err == nil {
		for ; it.Valid(); it.Next() {
			kv, _ := it.KeyValue()
			d := kv.Value
			rep := "?"
			if ad, err := sdk.AccAddressFromBech32(d.InitialEvidence.Reporter); err == nil {
				rep = c.nameOf(ad)
			}
			etot, eor := "-", ""
			if esc, err := c.App.ReporterKeeper.DisputedDelegationAmounts.Get(ctx, d.HashId); err == nil {
				etot = esc.Total.String()
				var os []string
				for _, o := range esc.TokenOrigins {
					os = append(os, fmt.Sprintf("%s.%s.%s", c.nameOf(o.DelegatorAddress), c.valName(o.ValidatorAddress), o.Amount))
				}
				eor = strings.Join(os, "+")
			}
			es = append(es, fmt.Sprintf("%d:%d:%d:%s:%s:%s:%d:%d:%v:%s:%s:%s:%d:%d", d.DisputeId, d.DisputeStatus, d.DisputeCategory, d.SlashAmount, d.FeeTotal, rep,
				d.InitialEvidence.Power, d.InitialEvidence.BlockNumber, d.Open, etot, eor, short(d.InitialEvidence.QueryId), d.DisputeRound, d.DisputeStartTime.UnixMilli()))
		}
		it.Close()
	}
	out = append(out, "E "+strings.Join(es, ","))
	// fee paid from stake: the per-backer record of what was taken, per dispute (hash)
	var ks []string
	seenHash := map[string]bool{}
	if it, err := c.App.DisputeKeeper.Disputes.Iterate(ctx, nil); err == nil {
		for ; it.Valid(); it.Next() {
			kv, _ := it.KeyValue()
			if seenHash[string(kv.Value.HashId)] {
				continue
			}
			seenHash[string(kv.Value.HashId)] = true
			if rec, err := c.App.ReporterKeeper.FeePaidFromStake.Get(ctx, kv.Value.HashId); err == nil {
				var os []string
				for _, o := range rec.TokenOrigins {
					os = append(os, fmt.Sprintf("%s.%s.%s", c.nameOf(o.DelegatorAddress), c.valName(o.ValidatorAddress), o.Amount))
				}
				ks = append(ks, fmt.Sprintf("%d:%s:%s", kv.Key, rec.Total, strings.Join(os, "+")))
			}
		}
		it.Close()
	}
	out = append(out, "K "+strings.Join(ks, ","))
	// aggregates: query, height of the micro report that determined them, its reporter, the flag
	var as []string
	if it, err := c.App.OracleKeeper.Aggregates.Iterate(ctx, nil); err == nil {
		for ; it.Valid(); it.Next() {
			kv, _ := it.KeyValue()
			a := kv.Value
			who := "-" // aggregates written by the bridge module (withdrawals) name no reporter
			if rep, err := sdk.AccAddressFromBech32(a.AggregateReporter); err == nil && len(rep) > 0 {
				who = c.nameOf(rep)
			}
			as = append(as, fmt.Sprintf("%s:%d:%s:%v:%d", short(a.QueryId), a.MicroHeight, who, a.Flagged, kv.Key.K2()))
		}
		it.Close()
	}
	out = append(out, "A "+strings.Join(as, ","))
	return out
}

func ndel(c *Chain) int {
	ds, err := c.App.StakingKeeper.GetAllDelegations(c.Ctx())
	if err != nil {
		return 0
	}
	return len(ds)
}

func runSlashHist(t *testing.T, in []string) string {
	nv, _ := strconv.Atoi(in[0])
	cfg := ChainCfg{NVals: nv, NAccts: 6}
	if len(in) > 2 { // optional: genesis tokens per validator
		for _, t := range strings.Split(in[2], ",") {
			if v, err := strconv.ParseInt(t, 10, 64); err == nil {
				cfg.ValTokens = append(cfg.ValTokens, v)
			}
		}
	}
	c, err := NewChain(cfg)
	if err != nil {
		return "err:newchain:" + shortLog(err.Error())
	}
	defer c.Close()
	h := NewHist(c)
	seen := 0
	h.Observe = func(hh *Hist, br *BlockResult, pend []pendingTx) {
		if br.Err != "" || br.Process != "ACCEPT" {
			hh.Out = append(hh.Out, "HALT "+shortLog(br.Err+br.Process))
			return
		}
		ctx := c.Ctx()
		for i, p := range pend {
			res := "missing"
			if br.InjectedN+i < len(br.Txs) {
				if br.Txs[br.InjectedN+i].Code == 0 {
					res = "ok"
				} else {
					res = "rej"
				}
			}
			f := strings.Fields(p.op)
			extra := ""
			switch p.kind {
			case "disp":
				// which known report, and whether it was altered
				mut := "-"
				if len(f) > 6 {
					mut = f[6]
				}
				extra = fmt.Sprintf(":ref=%s:cat=%s:fee=%s:bond=%s:mut=%s", f[2], f[3], f[4], f[5], mut)
			case "addfee":
				extra = fmt.Sprintf(":id=%s:fee=%s:bond=%s", f[2], f[3], f[4])
			}
			if res == "rej" && (p.kind == "disp" || p.kind == "addfee") && br.InjectedN+i < len(br.Txs) {
				// why a dispute transaction was rejected (class of the error text)
				l := br.Txs[br.InjectedN+i].Log
				if k := strings.LastIndex(l, "message index: 0: "); k >= 0 {
					l = l[k+len("message index: 0: "):]
				}
				l = strings.Map(func(r rune) rune {
					if r == ' ' || r == ':' || r == ',' || r == ';' || r == '|' || r == '=' || r == '\n' || r == '\t' || r == '\r' {
						return '_'
					}
					return r
				}, l)
				if len(l) > 70 {
					l = l[:70]
				}
				extra += ":why=" + l
			}
			hh.Out = append(hh.Out, fmt.Sprintf("X %s:%s:%s%s", p.kind, p.signer, res, extra))
		}
		hh.Out = append(hh.Out, dumpRepStake(c)...)
		hh.Out = append(hh.Out, dumpSlash(c)...)
		for ; seen < len(hh.Reports); seen++ {
			r := hh.Reports[seen].rep
			ra, err := sdk.AccAddressFromBech32(r.Reporter)
			if err != nil {
				continue
			}
			total, origins := "?", ""
			if snap, err := c.App.ReporterKeeper.Report.Get(ctx, collections.Join(r.QueryId, collections.Join(ra.Bytes(), r.BlockNumber))); err == nil {
				total = snap.Total.String()
				var os []string
				for _, o := range snap.TokenOrigins {
					os = append(os, fmt.Sprintf("%s.%s.%s", c.nameOf(o.DelegatorAddress), c.valName(o.ValidatorAddress), o.Amount))
				}
				origins = strings.Join(os, "+")
			}
			hh.Out = append(hh.Out, fmt.Sprintf("M %s:%d:%d:%s:%s:%s:%d:R%d", c.nameOf(ra), r.Power, hh.Reports[seen].meta, short(r.QueryId), total, origins, r.BlockNumber, seen))
		}
	}
	for _, op := range strings.Split(in[1], ";") {
		h.Exec(op)
		if c.Halted != "" {
			break
		}
	}
	return strings.Join(h.Out, " ;; ")
}

// downtime appends the blocks that get validator v slashed for downtime, jailed and unjailed again (signing window 100 blocks, at
// least half must be signed, jail ten minutes; v must hold less than a third of the power so that blocks are still decided)
func downtime(add func(string, ...any), v string) {
	for j := 0; j < 105; j++ {
		add("blk 1000 abs=%s", v)
	}
	add("blk 1000")
	add("blk 601000")
	add("sunjail %s", v)
	add("blk 1000")
	add("blk 1000")
}

func genSlashHist(r *Rng, i int, tier string) []string {
	nv := 3 + r.Intn(2) // the last validator never reports: the chain always keeps a validator
	var ops []string
	add := func(s string, a ...any) { ops = append(ops, fmt.Sprintf(s, a...)) }
	tx := func(s string, a ...any) { add(s, a...); add("blk %d", r.Pick(1000, 1000, 1500, 5000)) }
	odd := func() int64 { return r.Pick(1000000, 1499999, 2500001, 999999, 3333333, r.Range(1e6, 9e6)) } // mostly not whole tokens
	add("blk 1000")
	add("blk 1000")
	tx("mkrep v0 0 1000000")
	tx("mkrep v1 0 1000000")
	tx("del a0 v%d %d", r.Intn(nv), odd()+1000000)
	tx("mkrep a0 0 1000000")
	// backers with several delegations each
	for _, s := range []string{"a1", "a2", "a3"} {
		for j, n := 0, 1+r.Intn(2); j < n; j++ {
			tx("del %s v%d %d", s, r.Intn(nv), odd())
		}
		tx("sel %s %s", s, r.PickS("a0", "a0", "v0", "v1"))
	}
	// slashed-validator variant (1 in 6): v1 misses more than half of the signing window, is slashed 1 % and jailed by the slashing
	// module, and is unjailed ten minutes later: from then on its exchange rate (tokens per share) is 0.99 for the old and the new
	// delegations alike
	if nv == 4 && r.Chance(1, 2) {
		downtime(add, "v1")
	}
	reps := []string{"a0", "a0", "v0", "v1"}
	nrep := 0
	ndisp := 0
	dsigned := false
	nops := 25 + r.Intn(25)
	if tier == "thorough" {
		nops = 60 + r.Intn(80)
	}
	for k := 0; k < nops; k++ {
		a := r.PickS("a1", "a2", "a3", "a4", "a5", "a0")
		switch r.Intn(18) {
		case 0, 1, 2: // a tipped round with reports
			q := r.Intn(3)
			tx("tip a4 q%d %d", q, r.Range(1000, 1e6))
			for j, n := 0, 1+r.Intn(2); j < n; j++ {
				tx("rep %s q%d %064x", reps[r.Intn(4)], q, r.Range(1, 1e9))
				nrep++
			}
		case 15: // two queries tipped and reported in one block (their aggregates share the micro-report height)
			q1 := r.Intn(3)
			q2 := (q1 + 1 + r.Intn(2)) % 3
			add("tip a4 q%d %d", q1, r.Range(1000, 1e6))
			tx("tip a4 q%d %d", q2, r.Range(1000, 1e6))
			add("rep %s q%d %064x", reps[r.Intn(4)], q1, r.Range(1, 1e9))
			tx("rep %s q%d %064x", reps[r.Intn(4)], q2, r.Range(1, 1e9))
			nrep += 2
			add("blk 1000")
			add("blk 1000")
		case 16: // double-sign evidence against the reporter-validator v1 (once): slashed 5 %, jailed for ever; its delegators keep their
			// shares at the lower exchange rate, reports it backed stay disputable
			if nv == 4 && !dsigned {
				dsigned = true
				add("blk 1000 dsign=v1")
				add("blk 1000")
			}
		case 3: // staking changes between report and dispute
			tx("redel %s v%d v%d %d", r.PickS("a0", "a1", "a2", "a3"), r.Intn(nv), r.Intn(nv), r.Pick(500000, 999999, r.Range(1e5, 3e6)))
		case 4, 5:
			tx("undel %s v%d %d", r.PickS("a0", "a1", "a2", "a3"), r.Intn(nv), r.Pick(500000, 999999, 1000000, 9000000, r.Range(1e5, 3e6)))
		case 6:
			tx("del %s v%d %d", a, r.Intn(nv), odd())
		case 7, 8, 9, 10: // disputes: every category, fee full / partial / from bond; real, altered, invented reports
			if nrep > 0 {
				fee := r.Pick(1e12, 1e12, 1000, 5000, 20000)
				mut := []string{"", "", "", "", " val", " pow", " fake"}[r.Intn(7)]
				tx("disp %s R%d %d %d %d%s", r.PickS("a4", "a5", "a1", "v0", "v1"), r.Intn(nrep+1), 1+r.Intn(3), fee, r.Pick(0, 0, 0, 1), mut)
				ndisp++
			}
		case 11:
			if ndisp > 0 {
				tx("addfee %s %d %d %d", r.PickS("a4", "a5", "v1"), 1+r.Intn(ndisp), r.Pick(1e12, 1000, 5000), r.Pick(0, 0, 1))
			}
			if nrep > 0 && r.Chance(1, 3) { // partial payments around the one-day deadline, completion after it
				tx("disp a4 R%d %d %d 0", r.Intn(nrep+1), 1+r.Intn(3), r.Pick(1000, 5000))
				ndisp++
				add("blk %d", r.Pick(12*3600000, 23*3600000))
				tx("addfee a5 %d %d 0", ndisp, r.Pick(1000, 3000))
				tx("addfee a5 %d %d 0", ndisp-1, r.Pick(1000, 3000))
				add("blk %d", r.Pick(13*3600000, 2*3600000, 26*3600000))
				tx("addfee a4 %d 1000000000000 0", ndisp)
				tx("addfee a4 %d 1000000000000 0", ndisp-1)
			}
		case 12:
			tx("unjail %s", reps[r.Intn(4)])
		case 13:
			add("blk %d", r.Pick(86400000, 86400000+1000, 86399000, 600000, 3*86400000))
		case 14:
			tx("sw %s %s", r.PickS("a1", "a2", "a3"), reps[r.Intn(4)])
		default:
			add("blk %d", r.Pick(1000, 5000))
		}
	}
	add("blk 1000")
	return []string{fmt.Sprint(nv), strings.Join(ops, ";")}
}

var _ = hex.EncodeToString
