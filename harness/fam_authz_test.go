package harness

import (
	"encoding/json"
	"crypto/sha256"
	"encoding/hex"
	"fmt"
	"sort"
	"strconv"
	"strings"
	"testing"

	"cosmossdk.io/collections"
	"cosmossdk.io/math"

	disputetypes "github.com/tellor-io/layer/x/dispute/types"

	sdk "github.com/cosmos/cosmos-sdk/types"
	govv1 "github.com/cosmos/cosmos-sdk/x/gov/types/v1"
)

// family "authz" (C19): every message type, signed by accounts that differ from every other account named in it,
// privileged messages signed by ordinary accounts (with their own address or the governance address in the authority
// field), the same messages through governance.  Per block:
//   X kind:signer:ok|rej[:k=v…]          one per user transaction
//   G <governed state digests>            params of every module, cycle list, data specs, minter initialised, snapshot limit, team
//   P <n>                                 governance proposals that passed (executed) in this block
//   H name=liquid/delegated/tips/selection/bonded-delegated …   holdings of every known account
func init() {
	register(&Family{Name: "authz", Gen: genAuthzHist, Run: runAuthzHist})
}

func dig(b []byte) string {
	h := sha256.Sum256(b)
	return hex.EncodeToString(h[:4])
}

func (c *Chain) nameOf(addr []byte) string {
	for n, a := range c.byName {
		if string(a.Addr) == string(addr) {
			return n
		}
	}
	return "?" + hex.EncodeToString(addr)[:6]
}

func dumpGoverned(c *Chain) string {
	ctx := c.Ctx()
	cdc := c.App.AppCodec()
	var f []string
	if p, err := c.App.OracleKeeper.Params.Get(ctx); err == nil {
		f = append(f, "oparams="+dig(cdc.MustMarshal(&p)))
	}
	if p, err := c.App.ReporterKeeper.Params.Get(ctx); err == nil {
		f = append(f, "rparams="+dig(cdc.MustMarshal(&p)))
		f = append(f, fmt.Sprintf("cap=%d", p.MaxSelectors))
	}
	var mins []string
	if it, err := c.App.ReporterKeeper.Reporters.Iterate(ctx, nil); err == nil {
		for ; it.Valid(); it.Next() {
			kv, _ := it.KeyValue()
			mins = append(mins, c.nameOf(kv.Key)+"."+kv.Value.MinTokensRequired.String())
		}
		it.Close()
	}
	sort.Strings(mins)
	f = append(f, "mins="+strings.Join(mins, "/"))
	if p, err := c.App.BridgeKeeper.Params.Get(ctx); err == nil {
		f = append(f, "bparams="+dig(cdc.MustMarshal(&p)))
	}
	if p, err := c.App.RegistryKeeper.Params.Get(ctx); err == nil {
		f = append(f, "gparams="+dig(cdc.MustMarshal(&p)))
	}
	if p, err := c.App.DisputeKeeper.Params.Get(ctx); err == nil {
		f = append(f, "team="+c.nameOf(p.TeamAddress))
		p.TeamAddress = nil
		f = append(f, "dparams="+dig(cdc.MustMarshal(&p)))
	}
	if l, err := c.App.OracleKeeper.GetCyclelist(ctx); err == nil {
		var all []byte
		for _, q := range l {
			all = append(all, q...)
			all = append(all, 0xff)
		}
		f = append(f, fmt.Sprintf("cyc=%d.%s", len(l), dig(all)))
	}
	var specs []string
	if it, err := c.App.RegistryKeeper.SpecRegistry.Iterate(ctx, nil); err == nil {
		for ; it.Valid(); it.Next() {
			kv, _ := it.KeyValue()
			specs = append(specs, strings.NewReplacer(" ", "~", "\t", "^").Replace(kv.Key)+"."+dig(cdc.MustMarshal(&kv.Value)))
		}
		it.Close()
	}
	sort.Strings(specs)
	f = append(f, "specs="+strings.Join(specs, "/"))
	if m, err := c.App.MintKeeper.Minter.Get(ctx); err == nil {
		f = append(f, fmt.Sprintf("mint=%v", m.Initialized))
	}
	if l, err := c.App.BridgeKeeper.SnapshotLimit.Get(ctx); err == nil {
		f = append(f, fmt.Sprintf("snap=%d", l.Limit))
	}
	return strings.Join(f, " ")
}

func dumpHoldings(c *Chain) string {
	ctx := c.Ctx()
	var names []string
	for n := range c.byName {
		names = append(names, n)
	}
	sort.Strings(names)
	var out []string
	for _, n := range names {
		a := c.byName[n]
		liquid := c.Bal(a.Addr)
		del := math.ZeroInt()
		bonded := math.ZeroInt() // the part delegated to bonded validators (what the reporter module counts)
		if ds, err := c.App.StakingKeeper.GetDelegatorDelegations(ctx, a.Addr, 1000); err == nil {
			for _, d := range ds {
				va, err := sdk.ValAddressFromBech32(d.ValidatorAddress)
				if err != nil {
					continue
				}
				if v, err := c.App.StakingKeeper.GetValidator(ctx, va); err == nil {
					del = del.Add(v.TokensFromShares(d.Shares).TruncateInt())
					if v.IsBonded() {
						bonded = bonded.Add(v.TokensFromShares(d.Shares).TruncateInt())
					}
				}
			}
		}
		tips := "0"
		if t, err := c.App.ReporterKeeper.SelectorTips.Get(ctx, a.Addr); err == nil {
			tips = t.TruncateInt().String()
		}
		sel := "-"
		if s, err := c.App.ReporterKeeper.Selectors.Get(ctx, a.Addr); err == nil {
			sel = c.nameOf(s.Reporter)
		}
		out = append(out, fmt.Sprintf("%s=%s/%s/%s/%s/%s", n, liquid, del, tips, sel, bonded))
	}
	return strings.Join(out, " ")
}

func runAuthzHist(t *testing.T, in []string) string {
	nv, _ := strconv.Atoi(in[0])
	c, err := NewChain(ChainCfg{NVals: nv, NAccts: 4, GovVotingSecs: 20, Mutate: func(c *Chain, gs map[string]json.RawMessage) {
		// the team address is one of the harness accounts (a3), so that the legitimate path can be exercised too
		dg := disputetypes.DefaultGenesis()
		dg.Params.TeamAddress = c.Acct("a3").Addr
		gs[disputetypes.ModuleName] = c.App.AppCodec().MustMarshalJSON(dg)
	}})
	if err != nil {
		return "err:newchain:" + shortLog(err.Error())
	}
	defer c.Close()
	h := NewHist(c)
	passed := map[uint64]bool{}
	statusBefore := map[uint64]int32{} // dispute id -> status after the previous block (absent = no such dispute)
	h.Observe = func(hh *Hist, br *BlockResult, pend []pendingTx) {
		if br.Err != "" || br.Process != "ACCEPT" {
			hh.Out = append(hh.Out, "HALT "+shortLog(br.Err+br.Process))
			return
		}
		ctx := c.Ctx()
		for i, p := range pend {
			res := "missing"
			if br.InjectedN+i < len(br.Txs) {
				if br.Txs[br.InjectedN+i].Code == 0 {
					res = "ok"
				} else {
					res = "rej"
				}
			}
			extra := ""
			kind := p.kind
			f := strings.Fields(p.op)
			switch p.kind {
			case "direct":
				kind = "direct." + p.info["kind"]
				if p.info["auth"] == GovAuthority() {
					extra = ":auth=gov"
				} else {
					extra = ":auth=self"
				}
			case "govsubmit":
				kind = "govsubmit." + p.info["kind"]
			case "disp", "addfee":
				// the dispute concerned (latest for disp, by id for addfee), its reporter and whether it is funded now
				var id uint64
				if p.kind == "addfee" {
					id, _ = strconv.ParseUint(f[2], 10, 64)
				} else if res == "ok" {
					if it, err := c.App.DisputeKeeper.Disputes.Iterate(ctx, new(collections.Range[uint64]).Descending()); err == nil { // latest
						if it.Valid() {
							k, _ := it.Key()
							id = k
						}
						it.Close()
					}
				}
				if d, err := c.App.DisputeKeeper.Disputes.Get(ctx, id); err == nil {
					rep := "?"
					var backers []string
					if ad, err := sdk.AccAddressFromBech32(d.InitialEvidence.Reporter); err == nil {
						rep = c.nameOf(ad)
						// the backers of the disputed report: the stake snapshot taken when it was submitted
						if snap, err := c.App.ReporterKeeper.Report.Get(ctx, collections.Join(d.InitialEvidence.QueryId, collections.Join(ad.Bytes(), d.InitialEvidence.BlockNumber))); err == nil {
							for _, o := range snap.TokenOrigins {
								backers = append(backers, c.nameOf(o.DelegatorAddress))
							}
						}
					}
					// funded by this transaction: the dispute is in its voting phase now and was not before this block
					funded := res == "ok" && d.DisputeStatus == disputetypes.Voting && statusBefore[id] != int32(disputetypes.Voting)
					extra = fmt.Sprintf(":rep=%s:funded=%v:backers=%s", rep, funded, strings.Join(backers, "+"))
				}
				bond := f[len(f)-1] == "1" || (p.kind == "disp" && len(f) > 5 && f[5] == "1")
				extra += fmt.Sprintf(":bond=%v", bond)
			case "rmsel":
				extra = ":target=" + f[2]
			case "team":
				extra = ":new=" + f[2]
			case "regspec":
				extra = ":type=" + strings.ToLower(f[2]) // with the "~" / "^" placeholders
			}
			hh.Out = append(hh.Out, fmt.Sprintf("X %s:%s:%s%s", kind, p.signer, res, extra))
		}
		// governance proposals that passed in this block
		n := 0
		for id := uint64(1); id < hh.govNext+2; id++ {
			if p, err := c.App.GovKeeper.Proposals.Get(ctx, id); err == nil && p.Status == govv1.StatusPassed && !passed[id] {
				passed[id] = true
				n++
			}
		}
		if it, err := c.App.DisputeKeeper.Disputes.Iterate(ctx, nil); err == nil {
			for ; it.Valid(); it.Next() {
				kv, _ := it.KeyValue()
				statusBefore[kv.Key] = int32(kv.Value.DisputeStatus)
			}
			it.Close()
		}
		hh.Out = append(hh.Out, fmt.Sprintf("P %d", n))
		hh.Out = append(hh.Out, "G "+dumpGoverned(c))
		hh.Out = append(hh.Out, "H "+dumpHoldings(c))
	}
	for _, op := range strings.Split(in[1], ";") {
		h.Exec(op)
		if c.Halted != "" {
			break
		}
	}
	return strings.Join(h.Out, " ;; ")
}

func genAuthzHist(r *Rng, i int, tier string) []string {
	nv := 2 + r.Intn(2)
	var ops []string
	add := func(s string, a ...any) { ops = append(ops, fmt.Sprintf(s, a...)) }
	// every transaction gets a block of its own, so that its effects can be attributed
	tx := func(s string, a ...any) { add(s, a...); add("blk %d", r.Pick(1000, 1000, 1500, 5000)) }
	add("blk 1000")
	add("blk 1000")
	tx("mkrep v0 0 1000000")
	tx("mkrep v1 0 1000000")
	accts := []string{"a0", "a1", "a2", "a3", "v0", "v1"}
	pick := func() string { return accts[r.Intn(len(accts))] }
	other := func(x string) string {
		for {
			y := pick()
			if y != x {
				return y
			}
		}
	}
	// some stake and selections to have something to lose
	tx("del a0 v0 %d", r.Range(2e6, 5e7))
	tx("del a1 v1 %d", r.Range(2e6, 5e7))
	tx("sel a0 v0")
	tx("sel a1 v%d", r.Intn(2))
	nops := 25 + r.Intn(30)
	if tier == "thorough" {
		nops = 60 + r.Intn(80)
	}
	ndisp := 0
	team := "a3"
	govKinds := []string{"mintinit", "cyclelist q0,q1", "cyclelist q2", "oparams 2000000", "rparams 5", "rparams 1", "rparams 0", "snaplimit 7", "spec spotprice 3"}
	for k := 0; k < nops; k++ {
		a := pick()
		switch r.Intn(22) {
		case 0, 1: // privileged message signed by an ordinary account, authority field = own address or the gov address
			g := govKinds[r.Intn(len(govKinds))]
			if r.Chance(1, 2) {
				tx("direct %s %s", a, g)
			} else {
				tx("direct %s asgov %s", a, g)
			}
		case 2: // the same through governance
			add("gov %s", govKinds[r.Intn(len(govKinds))])
			add("blk 1000")
			add("govvote")
			add("blk 1000")
			add("blk 21000")
			add("blk 1000")
		case 3:
			if r.Chance(1, 3) {
				nt := other(team)
				tx("team %s %s", team, nt) // the current team hands over
				team = nt
			} else if a != team {
				tx("team %s %s", a, other(a)) // anybody else: rejected
			}
		case 4:
			tx("regspec %s %s uint256 weighted-median %d", a, r.PickS("SpotPrice", "spotprice", "NewType", "Another", "~spotprice", "spotprice~", "^SpotPrice", "TRBBridge~", "~newtype"), r.Pick(1, 5))
		case 5:
			tx("tip %s q%d %d", a, r.Intn(3), r.Range(1000, 1e6))
		case 6, 7:
			tx("rep v%d q%d %064x", r.Intn(2), r.Intn(3), r.Range(1, 1e9))
		case 8:
			tx("del %s v%d %d", a, r.Intn(nv), r.Range(1e6, 2e7))
		case 9:
			tx("undel %s v%d %d", a, r.Intn(nv), r.Range(1e5, 5e6))
		case 10:
			tx("sel %s v%d", a, r.Intn(2))
		case 11:
			tx("sw %s v%d", a, r.Intn(2))
		case 12:
			tx("rmsel %s %s", a, other(a))
		case 13:
			tx("wtip %s v%d", a, r.Intn(nv))
		case 14:
			tx("disp %s R%d %d %d %d", a, r.Intn(6), 1+r.Intn(3), r.Pick(1e4, 1e7, 1e10), r.Intn(2))
			ndisp++
		case 15:
			if ndisp > 0 {
				tx("addfee %s %d %d %d", a, 1+r.Intn(ndisp), r.Pick(1e4, 1e7, 1e10), r.Intn(2))
			}
		case 16:
			if ndisp > 0 {
				tx("vote %s %d %s", a, 1+r.Intn(ndisp), r.PickS("s", "a", "i"))
			}
		case 17:
			if ndisp > 0 {
				tx("wfr %s %s %d", a, pick(), 1+r.Intn(ndisp))
			}
		case 18:
			if ndisp > 0 {
				tx("claim %s %d", a, 1+r.Intn(ndisp))
			}
		case 19:
			tx("wd %s %d %040x", a, r.Range(1, 1e6), r.U64())
		case 20:
			tx("send %s %s %d", a, other(a), r.Range(1, 1e6))
		default:
			add("blk %d", r.Pick(1000, 86400000, 3*86400000))
		}
	}
	add("blk 1000")
	add("blk 1000")
	return []string{fmt.Sprint(nv), strings.Join(ops, ";")}
}
