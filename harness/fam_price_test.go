package harness

import (
	"fmt"
	"sort"
	"strconv"
	"strings"
	"testing"
	"time"

	clienttypes "github.com/tellor-io/layer/daemons/pricefeed/client/types"
	servertypes "github.com/tellor-io/layer/daemons/server/types"
	pricefeed "github.com/tellor-io/layer/daemons/server/types/pricefeed"
	"github.com/tellor-io/layer/lib"
)

// families "medianu" / "mediani": lib.Median[uint64] / lib.Median[int64]
//   input : comma list of values      output: value | err
// family "pcache": an operation sequence on the real MarketToExchangePrices
//   input : maxAge_ns | ops separated by ';'
//           U <m>=<e>.<p>.<t>+<e>.<p>.<t>,<m>=…      one UpdatePrices call (t = ns since the Unix epoch; the zero time.Time is -62135596800000000000)
//           R <t> <id>.<min>,<id>.<min>               one GetValidMedianPrices call
//   output: per R op "id=price,id=price" (sorted by id), ops joined by ';'
func init() {
	register(&Family{Name: "medianu", Gen: genMedianU, Run: runMedianU})
	register(&Family{Name: "mediani", Gen: genMedianI, Run: runMedianI})
	register(&Family{Name: "pcache", Gen: genPcache, Run: runPcache})
}

var u64Edges = []uint64{0, 1, 2, 3, 1<<63 - 1, 1 << 63, 1<<63 + 1, 1<<64 - 2, 1<<64 - 1, 1 << 32, 1<<32 - 1}

func genU64(r *Rng) uint64 {
	switch r.Intn(4) {
	case 0:
		return u64Edges[r.Intn(len(u64Edges))]
	case 1:
		return r.U64() % 100
	case 2:
		return ^uint64(0) - r.U64()%100
	default:
		return r.U64()
	}
}

func genMedianU(r *Rng, i int, tier string) []string {
	n := r.Intn(10)
	var xs []string
	for j := 0; j < n; j++ {
		xs = append(xs, strconv.FormatUint(genU64(r), 10))
	}
	return []string{strings.Join(xs, ",")}
}

func runMedianU(t *testing.T, in []string) string {
	var xs []uint64
	if in[0] != "" {
		for _, s := range strings.Split(in[0], ",") {
			v, _ := strconv.ParseUint(s, 10, 64)
			xs = append(xs, v)
		}
	}
	m, err := lib.Median(xs)
	if err != nil {
		return "err"
	}
	return strconv.FormatUint(m, 10)
}

func genMedianI(r *Rng, i int, tier string) []string {
	n := r.Intn(10)
	var xs []string
	for j := 0; j < n; j++ {
		var v int64
		switch r.Intn(5) {
		case 0:
			v = []int64{0, 1, -1, 2, -2, 1<<63 - 1, -1 << 63, 1<<63 - 2, -1<<63 + 1}[r.Intn(9)]
		case 1:
			v = r.Range(-50, 50)
		case 2:
			v = (1<<63 - 1) - r.Range(0, 100)
		case 3:
			v = (-1 << 63) + r.Range(0, 100)
		default:
			v = int64(r.U64())
		}
		xs = append(xs, strconv.FormatInt(v, 10))
	}
	return []string{strings.Join(xs, ",")}
}

func runMedianI(t *testing.T, in []string) string {
	var xs []int64
	if in[0] != "" {
		for _, s := range strings.Split(in[0], ",") {
			v, _ := strconv.ParseInt(s, 10, 64)
			xs = append(xs, v)
		}
	}
	m, err := lib.Median(xs)
	if err != nil {
		return "err"
	}
	return strconv.FormatInt(m, 10)
}

// times are ns since the Unix epoch; the zero time.Time is written as -62135596800000000000 (it does not fit int64)
const zeroTimeStr = "-62135596800000000000"

func nsToTime(s string) time.Time {
	if s == zeroTimeStr {
		return time.Time{}
	}
	ns, _ := strconv.ParseInt(s, 10, 64)
	return time.Unix(0, ns).UTC()
}

func genPcache(r *Rng, i int, tier string) []string {
	base := int64(1700000000) * 1e9
	maxAge := r.Pick(1, 1000, 1e9, 20e9, 60e9)
	nops := 1 + r.Intn(10)
	exch := []string{"binance", "kraken", "okx", "cb", "gate", "mexc"}
	now := base
	var times []int64
	var ops []string
	for j := 0; j < nops; j++ {
		now += r.Range(0, maxAge/2+1)
		if r.Chance(3, 5) {
			nm := 1 + r.Intn(3)
			var ms []string
			for m := 0; m < nm; m++ {
				ne := 1 + r.Intn(5)
				var es []string
				for e := 0; e < ne; e++ {
					var tt int64
					switch r.Intn(6) {
					case 0: // stale / out of order
						tt = now - r.Range(0, 3*maxAge)
					case 1: // equal to an earlier time
						if len(times) > 0 {
							tt = times[r.Intn(len(times))]
						} else {
							tt = now
						}
					case 2:
						tt = 0 // zero time
					default:
						tt = now + r.Range(-2, 2)
					}
					ts := strconv.FormatInt(tt, 10)
					if tt == 0 {
						ts = zeroTimeStr
					} else {
						times = append(times, tt)
					}
					es = append(es, fmt.Sprintf("%s.%d.%s", exch[r.Intn(len(exch))], genU64(r), ts))
				}
				ms = append(ms, fmt.Sprintf("%d=%s", r.Intn(3), strings.Join(es, "+")))
			}
			ops = append(ops, "U "+strings.Join(ms, ","))
		} else {
			var ps []string
			np := 1 + r.Intn(3)
			for p := 0; p < np; p++ {
				ps = append(ps, fmt.Sprintf("%d.%d", r.Intn(4), r.Intn(5)))
			}
			rt := now
			if len(times) > 0 && r.Chance(1, 2) { // cutoff boundary: readTime - maxAge = some lastUpdate ± 1
				rt = times[r.Intn(len(times))] + maxAge + r.Range(-1, 1)
			}
			ops = append(ops, fmt.Sprintf("R %d %s", rt, strings.Join(ps, ",")))
		}
	}
	return []string{strconv.FormatInt(maxAge, 10), strings.Join(ops, ";")}
}

type pcacheOp struct {
	kind    byte
	updates []*servertypes.MarketPriceUpdate
	params  []clienttypes.MarketParam
	read    time.Time
}

func parsePcacheOps(s string) []pcacheOp {
	var ops []pcacheOp
	for _, o := range strings.Split(s, ";") {
		if o == "" {
			continue
		}
		if o[0] == 'U' {
			var ups []*servertypes.MarketPriceUpdate
			for _, m := range strings.Split(o[2:], ",") {
				kv := strings.SplitN(m, "=", 2)
				id, _ := strconv.ParseUint(kv[0], 10, 32)
				var eps []*servertypes.ExchangePrice
				for _, e := range strings.Split(kv[1], "+") {
					p := strings.Split(e, ".")
					price, _ := strconv.ParseUint(p[1], 10, 64)
					tt := nsToTime(p[2])
					eps = append(eps, &servertypes.ExchangePrice{ExchangeId: p[0], Price: price, LastUpdateTime: &tt})
				}
				ups = append(ups, &servertypes.MarketPriceUpdate{MarketId: uint32(id), ExchangePrices: eps})
			}
			ops = append(ops, pcacheOp{kind: 'U', updates: ups})
		} else {
			f := strings.Split(o, " ")
			var ps []clienttypes.MarketParam
			for _, p := range strings.Split(f[2], ",") {
				q := strings.Split(p, ".")
				id, _ := strconv.ParseUint(q[0], 10, 32)
				mn, _ := strconv.ParseUint(q[1], 10, 32)
				ps = append(ps, clienttypes.MarketParam{Id: uint32(id), MinExchanges: uint32(mn)})
			}
			ops = append(ops, pcacheOp{kind: 'R', params: ps, read: nsToTime(f[1])})
		}
	}
	return ops
}

func fmtPrices(m map[uint32]uint64) string {
	var ids []int
	for k := range m {
		ids = append(ids, int(k))
	}
	sort.Ints(ids)
	var out []string
	for _, id := range ids {
		out = append(out, fmt.Sprintf("%d=%d", id, m[uint32(id)]))
	}
	return strings.Join(out, ",")
}

func runPcache(t *testing.T, in []string) string {
	maxAge, _ := strconv.ParseInt(in[0], 10, 64)
	c := pricefeed.NewMarketToExchangePrices(time.Duration(maxAge))
	var outs []string
	for _, op := range parsePcacheOps(in[1]) {
		if op.kind == 'U' {
			c.UpdatePrices(op.updates)
		} else {
			outs = append(outs, fmtPrices(c.GetValidMedianPrices(op.params, op.read)))
		}
	}
	return strings.Join(outs, ";")
}
