package harness

import (
	"fmt"
	"sort"
	"strconv"
	"strings"
	"testing"

	sdk "github.com/cosmos/cosmos-sdk/types"
)

// family "tbrsplit" (C09): minting on; several bridge deposits first reported in one block by different reporters, so that
// their rounds (2000 blocks) aggregate in one block and share the time-based reward pool.  Per block:
//   T tbr=<pool balance> credits=<name:raw 18-decimal credit,…>
//   A <aggregates as in family oracle>       M reporter:power:metaId:queryId  for every accepted report
func init() {
	register(&Family{Name: "tbrsplit", Gen: genTbrHist, Run: runTbrHist})
}

func runTbrHist(t *testing.T, in []string) string {
	nv, _ := strconv.Atoi(in[0])
	c, err := NewChain(ChainCfg{NVals: nv, NAccts: 4, GovVotingSecs: 20})
	if err != nil {
		return "err:newchain:" + shortLog(err.Error())
	}
	defer c.Close()
	h := NewHist(c)
	seen := 0
	h.Observe = func(hh *Hist, br *BlockResult, pend []pendingTx) {
		if br.Err != "" || br.Process != "ACCEPT" {
			hh.Out = append(hh.Out, "HALT "+shortLog(br.Err+br.Process))
			return
		}
		ctx := c.Ctx()
		var names []string
		for n := range c.byName {
			names = append(names, n)
		}
		sort.Strings(names)
		var cs []string
		for _, n := range names {
			if tp, err := c.App.ReporterKeeper.SelectorTips.Get(ctx, c.byName[n].Addr); err == nil {
				cs = append(cs, fmt.Sprintf("%s:%s", n, tp.BigInt()))
			}
		}
		hh.Out = append(hh.Out, fmt.Sprintf("T h=%d tbr=%s credits=%s", br.Height, c.ModBal("time_based_rewards"), strings.Join(cs, ",")))
		for _, l := range dumpOracle(c) {
			if strings.HasPrefix(l, "A ") || l == "A" {
				hh.Out = append(hh.Out, l)
			}
		}
		for ; seen < len(hh.Reports); seen++ {
			r := hh.Reports[seen]
			hh.Out = append(hh.Out, fmt.Sprintf("M %s:%d:%d:%s", c.nameOf(mustAcc(r.rep.Reporter)), r.rep.Power, r.meta, short(r.rep.QueryId)))
		}
	}
	for _, op := range strings.Split(in[1], ";") {
		h.Exec(op)
		if c.Halted != "" {
			break
		}
	}
	return strings.Join(h.Out, " ;; ")
}

func genTbrHist(r *Rng, i int, tier string) []string {
	nv := 2 + r.Intn(2)
	var ops []string
	add := func(s string, a ...any) { ops = append(ops, fmt.Sprintf(s, a...)) }
	add("blk 1000")
	add("blk 1000")
	add("mkrep v0 0 1000000")
	add("mkrep v1 0 1000000")
	add("blk 1000")
	add("del a0 v0 %d", r.Range(2e6, 9e8))
	add("blk 1000")
	add("mkrep a0 0 1000000")
	add("blk 1000")
	add("gov mintinit")
	add("blk 1000")
	add("govvote")
	add("blk 1000")
	add("blk 21000")
	add("blk 1000")
	reps := []string{"v0", "v1", "a0"}
	k := 2 + r.Intn(2)
	val := func() string {
		return DepositValue("tellor1qqqqqqqqqqqqqqqqqqqqqqqqqqqqqqqq0vd0nd", bigOf(r.Range(1, 5000)*1e12), bigOf(0))
	}
	// the deposits are first reported in one block: their rounds end in one block
	for j := 1; j <= k; j++ {
		n := 1 + r.Intn(2)
		start := r.Intn(3)
		for m := 0; m < n; m++ {
			add("rep %s dep%d %s", reps[(start+m)%3], j, val())
		}
	}
	add("blk 1000")
	if r.Chance(1, 2) { // a later report into one of the rounds
		add("rep %s dep%d %s", reps[r.Intn(3)], 1+r.Intn(k), val())
		add("blk 1000")
		add("skip 1996 %d", r.Pick(1000, 2000))
	} else {
		add("skip 1997 %d", r.Pick(1000, 2000))
	}
	for j := 0; j < 5; j++ {
		add("blk 1000")
	}
	return []string{fmt.Sprint(nv), strings.Join(ops, ";")}
}

func mustAcc(bech string) []byte {
	a, err := sdk.AccAddressFromBech32(bech)
	if err != nil {
		return nil
	}
	return a
}
