package harness

// Chain-mode harness: the REAL application (app.New over a MemDB) driven through the ABCI block cycle
//   PrepareProposal -> ProcessProposal -> [ExtendVote / VerifyVoteExtension per validator] -> FinalizeBlock -> Commit
// with its own multi-validator genesis.  Vote extensions are produced by the real ExtendVoteHandler (one
// handler per validator over a file keyring holding that validator's operator key) and signed with the
// validator's consensus key exactly as CometBFT would; transactions are signed and pass the real ante chain.

import (
	"bytes"
	"context"
	"encoding/json"
	"fmt"
	"math/rand"
	"os"
	"path/filepath"
	"sort"
	"strings"
	"time"

	abci "github.com/cometbft/cometbft/abci/types"
	cmted25519 "github.com/cometbft/cometbft/crypto/ed25519"
	"github.com/cometbft/cometbft/libs/protoio"
	cmtproto "github.com/cometbft/cometbft/proto/tendermint/types"
	dbm "github.com/cosmos/cosmos-db"
	"github.com/spf13/viper"
	"github.com/tellor-io/layer/app"

	"cosmossdk.io/log"
	"cosmossdk.io/math"

	"github.com/cosmos/cosmos-sdk/baseapp"
	"github.com/cosmos/cosmos-sdk/client"
	codectypes "github.com/cosmos/cosmos-sdk/codec/types"
	"github.com/cosmos/cosmos-sdk/crypto/keyring"
	sdked25519 "github.com/cosmos/cosmos-sdk/crypto/keys/ed25519"
	"github.com/cosmos/cosmos-sdk/crypto/keys/secp256k1"
	simtestutil "github.com/cosmos/cosmos-sdk/testutil/sims"
	sdk "github.com/cosmos/cosmos-sdk/types"
	authtypes "github.com/cosmos/cosmos-sdk/x/auth/types"
	banktypes "github.com/cosmos/cosmos-sdk/x/bank/types"
	govv1 "github.com/cosmos/cosmos-sdk/x/gov/types/v1"
	govtypes "github.com/cosmos/cosmos-sdk/x/gov/types"
	stakingtypes "github.com/cosmos/cosmos-sdk/x/staking/types"
)

const chainID = "verif-1"
const denom = "loya"

type Acct struct {
	Name   string
	Priv   *secp256k1.PrivKey
	Addr   sdk.AccAddress
	AccNum uint64
	Seq    uint64
}

type Val struct {
	Acct     *Acct // operator account (its key is also the bridge/EVM signing key)
	Cons     cmted25519.PrivKey
	ConsAddr []byte
	ValAddr  sdk.ValAddress
	Handler  *app.VoteExtHandler
	KrDir    string
	Power    int64 // cometbft voting power as last reported
}

type ChainCfg struct {
	NVals         int
	NAccts        int
	ValTokens     []int64 // tokens (loya) of each genesis validator's self-delegation
	AcctBalance   int64
	MaxValidators uint32
	GovVotingSecs int64
	GenesisTime   time.Time
	Mutate        func(c *Chain, gs map[string]json.RawMessage) // last-minute genesis edits
}

type Chain struct {
	App     *app.App
	Cfg     ChainCfg
	Height  int64
	Time    time.Time
	Vals    []*Val
	Accts   []*Acct
	byName  map[string]*Acct
	tmpDir  string
	// cometbft-side validator set: consensus address (hex) -> power, as it will sign block `Height`
	curSet  map[string]int64
	nextSet map[string]int64 // set for Height+1 (updates returned at FinalizeBlock(h) apply at h+2)
	// extended votes collected for the last finalized height
	lastExt    []abci.ExtendedVoteInfo
	lastRound  int32
	Halted     string
	rng        *rand.Rand
}

type TxResult struct {
	Code uint32
	Log  string
}

type BlockResult struct {
	Height    int64
	Txs       []TxResult
	Err       string // FinalizeBlock error or recovered panic ("" = ok)
	Prepare   string
	Process   string
	Events    []abci.Event
	AppHash   []byte
	InjectedN int
	TxBurns   []string // per tx: total amount of bank `burn` events emitted by that transaction
}

func newAcct(name string, seed byte, idx int) *Acct {
	b := make([]byte, 32)
	for i := range b {
		b[i] = byte(int(seed)*31 + idx*7 + i*13 + 1)
	}
	pk := &secp256k1.PrivKey{Key: b}
	return &Acct{Name: name, Priv: pk, Addr: sdk.AccAddress(pk.PubKey().Address())}
}

func NewChain(cfg ChainCfg) (*Chain, error) {
	if cfg.GenesisTime.IsZero() {
		cfg.GenesisTime = time.Unix(1700000000, 0).UTC()
	}
	if cfg.MaxValidators == 0 {
		cfg.MaxValidators = 100
	}
	if cfg.GovVotingSecs == 0 {
		cfg.GovVotingSecs = 20
	}
	if cfg.AcctBalance == 0 {
		cfg.AcctBalance = 1_000_000_000_000
	}
	sdk.DefaultBondDenom = denom
	tmp, err := os.MkdirTemp("", "verifchain")
	if err != nil {
		return nil, err
	}
	c := &Chain{Cfg: cfg, tmpDir: tmp, byName: map[string]*Acct{}, rng: rand.New(rand.NewSource(1))}
	var lg log.Logger = log.NewNopLogger()
	if os.Getenv("CHAIN_DEBUG") != "" {
		lg = log.NewLogger(os.Stderr)
	}
	a := app.New(lg, dbm.NewMemDB(), nil, true, simtestutil.EmptyAppOptions{}, baseapp.SetChainID(chainID))
	c.App = a
	cdc := a.AppCodec()
	gs := a.BasicModuleManager.DefaultGenesis(cdc)

	var genAccs []authtypes.GenesisAccount
	var balances []banktypes.Balance
	supply := math.ZeroInt()
	addAcct := func(ac *Acct, bal int64) {
		genAccs = append(genAccs, authtypes.NewBaseAccount(ac.Addr, ac.Priv.PubKey(), uint64(len(genAccs)), 0))
		ac.AccNum = uint64(len(genAccs) - 1)
		balances = append(balances, banktypes.Balance{Address: ac.Addr.String(), Coins: sdk.NewCoins(sdk.NewInt64Coin(denom, bal))})
		supply = supply.AddRaw(bal)
		c.byName[ac.Name] = ac
	}
	var validators []stakingtypes.Validator
	var delegations []stakingtypes.Delegation
	bonded := math.ZeroInt()
	for i := 0; i < cfg.NVals; i++ {
		ac := newAcct(fmt.Sprintf("v%d", i), 3, i)
		addAcct(ac, cfg.AcctBalance)
		seed := make([]byte, 32)
		for j := range seed {
			seed[j] = byte(i*17 + j*3 + 5)
		}
		cons := cmted25519.GenPrivKeyFromSecret(seed)
		sdkPk := &sdked25519.PubKey{Key: cons.PubKey().Bytes()}
		pkAny, err := codectypes.NewAnyWithValue(sdkPk)
		if err != nil {
			return nil, err
		}
		tokens := int64(1_000_000_000)
		if i < len(cfg.ValTokens) {
			tokens = cfg.ValTokens[i]
		}
		v := &Val{Acct: ac, Cons: cons, ConsAddr: cons.PubKey().Address(), ValAddr: sdk.ValAddress(ac.Addr), Power: tokens / 1_000_000}
		c.Vals = append(c.Vals, v)
		validators = append(validators, stakingtypes.Validator{
			OperatorAddress: v.ValAddr.String(), ConsensusPubkey: pkAny, Status: stakingtypes.Unbonded, // bonded by InitGenesis' validator-set update (fires the slashing/distribution hooks, as for gentx validators)
			Tokens: math.NewInt(tokens), DelegatorShares: math.LegacyNewDec(tokens),
			Description: stakingtypes.Description{Moniker: ac.Name}, UnbondingTime: time.Unix(0, 0).UTC(),
			Commission:        stakingtypes.NewCommission(math.LegacyZeroDec(), math.LegacyOneDec(), math.LegacyOneDec()),
			MinSelfDelegation: math.OneInt(),
		})
		delegations = append(delegations, stakingtypes.NewDelegation(ac.Addr.String(), v.ValAddr.String(), math.LegacyNewDec(tokens)))
		bonded = bonded.AddRaw(tokens)
		// keyring + real vote-extension handler for this validator
		v.KrDir = filepath.Join(tmp, ac.Name)
		kr := keyring.NewInMemory(cdc)
		if err := kr.ImportPrivKeyHex(ac.Name, fmt.Sprintf("%x", ac.Priv.Key), "secp256k1"); err != nil {
			return nil, err
		}
		v.Handler = app.NewVoteExtHandler(log.NewNopLogger(), cdc, a.OracleKeeper, a.BridgeKeeper)
		v.Handler.SetKeyring(kr) // verif hook (app/extend_vote_verif.go): in-memory keyring per validator
	}
	for i := 0; i < cfg.NAccts; i++ {
		ac := newAcct(fmt.Sprintf("a%d", i), 9, i)
		addAcct(ac, cfg.AcctBalance)
		c.Accts = append(c.Accts, ac)
	}
	gs[authtypes.ModuleName] = cdc.MustMarshalJSON(authtypes.NewGenesisState(authtypes.DefaultParams(), genAccs))
	sp := stakingtypes.DefaultParams()
	sp.BondDenom = denom
	sp.MaxValidators = cfg.MaxValidators
	gs[stakingtypes.ModuleName] = cdc.MustMarshalJSON(stakingtypes.NewGenesisState(sp, validators, delegations))
	balances = append(balances, banktypes.Balance{Address: authtypes.NewModuleAddress(stakingtypes.NotBondedPoolName).String(), Coins: sdk.NewCoins(sdk.NewCoin(denom, bonded))})
	supply = supply.Add(bonded)
	gs[banktypes.ModuleName] = cdc.MustMarshalJSON(banktypes.NewGenesisState(banktypes.DefaultGenesisState().Params, balances, sdk.NewCoins(sdk.NewCoin(denom, supply)), []banktypes.Metadata{}, []banktypes.SendEnabled{}))
	// gov: short voting period, tiny deposit, in the chain's denom
	gg := govv1.DefaultGenesisState()
	vp := time.Duration(cfg.GovVotingSecs) * time.Second
	gg.Params.VotingPeriod = &vp
	gg.Params.MaxDepositPeriod = &vp
	gg.Params.ExpeditedVotingPeriod = func() *time.Duration { d := vp / 2; return &d }()
	gg.Params.MinDeposit = sdk.NewCoins(sdk.NewInt64Coin(denom, 1000))
	gg.Params.ExpeditedMinDeposit = sdk.NewCoins(sdk.NewInt64Coin(denom, 5000))
	gs[govtypes.ModuleName] = cdc.MustMarshalJSON(gg)
	if cfg.Mutate != nil {
		cfg.Mutate(c, gs)
	}
	stateBytes, err := json.Marshal(gs)
	if err != nil {
		return nil, err
	}
	cp := simtestutil.DefaultConsensusParams
	cp.Abci = &cmtproto.ABCIParams{VoteExtensionsEnableHeight: 1}
	res, err := a.InitChain(&abci.RequestInitChain{ChainId: chainID, Time: cfg.GenesisTime, ConsensusParams: cp, AppStateBytes: stateBytes, InitialHeight: 1})
	if err != nil {
		return nil, fmt.Errorf("InitChain: %w", err)
	}
	c.curSet = map[string]int64{}
	for _, vu := range res.Validators {
		c.curSet[fmt.Sprintf("%x", pubKeyAddr(vu))] = vu.Power
	}
	c.nextSet = copySet(c.curSet)
	c.Height = 0
	c.Time = cfg.GenesisTime
	return c, nil
}

func (c *Chain) Close() { os.RemoveAll(c.tmpDir) }

func pubKeyAddr(vu abci.ValidatorUpdate) []byte {
	return cmted25519.PubKey(vu.PubKey.GetEd25519()).Address()
}

func copySet(m map[string]int64) map[string]int64 {
	o := map[string]int64{}
	for k, v := range m {
		o[k] = v
	}
	return o
}

func (c *Chain) Acct(name string) *Acct { return c.byName[name] }

func (c *Chain) valByCons(addrHex string) *Val {
	for _, v := range c.Vals {
		if fmt.Sprintf("%x", v.ConsAddr) == addrHex {
			return v
		}
	}
	return nil
}

// AddValidatorKey registers a consensus key + operator account for a validator created by a later MsgCreateValidator
func (c *Chain) NewValKeys(ac *Acct, idx int) (*Val, error) {
	seed := make([]byte, 32)
	for j := range seed {
		seed[j] = byte(idx*29 + j*5 + 101)
	}
	cons := cmted25519.GenPrivKeyFromSecret(seed)
	v := &Val{Acct: ac, Cons: cons, ConsAddr: cons.PubKey().Address(), ValAddr: sdk.ValAddress(ac.Addr)}
	v.KrDir = filepath.Join(c.tmpDir, ac.Name)
	kr := keyring.NewInMemory(c.App.AppCodec())
	if err := kr.ImportPrivKeyHex(ac.Name, fmt.Sprintf("%x", ac.Priv.Key), "secp256k1"); err != nil {
		return nil, err
	}
	v.Handler = app.NewVoteExtHandler(log.NewNopLogger(), c.App.AppCodec(), c.App.OracleKeeper, c.App.BridgeKeeper)
	v.Handler.SetKeyring(kr)
	c.Vals = append(c.Vals, v)
	return v, nil
}

// SignTx builds and signs a transaction from one account (sequence taken from the chain's committed state).
func (c *Chain) SignTx(ac *Acct, gas uint64, msgs ...sdk.Msg) ([]byte, error) {
	ctx := c.App.NewUncachedContext(false, cmtproto.Header{Height: c.Height, ChainID: chainID, Time: c.Time})
	acc := c.App.AccountKeeper.GetAccount(ctx, ac.Addr)
	var accNum, seq uint64
	if acc != nil {
		accNum, seq = acc.GetAccountNumber(), acc.GetSequence()
	}
	seq += ac.Seq // pending txs of this account inside the block being built
	txCfg := c.App.TxConfig()
	tx, err := simtestutil.GenSignedMockTx(c.rng, txCfg, msgs, sdk.NewCoins(sdk.NewInt64Coin(denom, 5000)), gas, chainID, []uint64{accNum}, []uint64{seq}, ac.Priv)
	if err != nil {
		return nil, err
	}
	ac.Seq++
	return txCfg.TxEncoder()(tx)
}

func (c *Chain) resetPending() {
	for _, a := range c.byName {
		a.Seq = 0
	}
}

// ExtOverride lets a profile replace a validator's vote extension bytes (C17 malformed stream)
type ExtOverride func(v *Val, honest []byte) []byte

// buildCommit makes the extended commit for the block at `height` from the votes cast at height-1.
func (c *Chain) localLastCommit() abci.ExtendedCommitInfo {
	return abci.ExtendedCommitInfo{Round: c.lastRound, Votes: c.lastExt}
}

func signExtension(v *Val, ext []byte, height int64, round int32) ([]byte, error) {
	cve := cmtproto.CanonicalVoteExtension{Extension: ext, Height: height, Round: int64(round), ChainId: chainID}
	var buf bytes.Buffer
	if _, err := protoio.NewDelimitedWriter(&buf).WriteMsg(&cve); err != nil {
		return nil, err
	}
	return v.Cons.Sign(buf.Bytes())
}

// honestExtension runs the REAL ExtendVoteHandler for validator v at the given height (state = last commit).
func (c *Chain) honestExtension(v *Val, height int64, t time.Time) ([]byte, error) {
	viper.Set("keyring-backend", "test")
	viper.Set("keyring-dir", v.KrDir)
	viper.Set("key-name", v.Acct.Name)
	ctx := c.App.NewUncachedContext(false, cmtproto.Header{Height: height, ChainID: chainID, Time: t})
	res, err := v.Handler.ExtendVoteHandler(ctx, &abci.RequestExtendVote{Height: height, Time: t})
	if err != nil {
		return nil, err
	}
	return res.VoteExtension, nil
}

type BlockOpts struct {
	Dt        time.Duration
	Txs       [][]byte
	Override  ExtOverride     // replace vote-extension bytes
	Absent    map[string]bool // validator names that do not vote (BlockIDFlagAbsent)
	TamperInj func(inj []byte) []byte // mutate Txs[0] between Prepare and Process (C17)
	SkipProcessCheck bool
	DoubleSign map[string]bool // validator names reported to the application as having signed two blocks at the previous height (evidence)
}

// NextBlock produces one block.  A FinalizeBlock error / panic is recorded in BlockResult.Err and c.Halted.
func (c *Chain) NextBlock(o BlockOpts) (br BlockResult) {
	defer c.resetPending()
	h := c.Height + 1
	if o.Dt <= 0 {
		o.Dt = time.Second
	}
	t := c.Time.Add(o.Dt)
	br.Height = h
	a := c.App
	// proposer: the first validator of the current set (deterministic)
	var setAddrs []string
	for k := range c.curSet {
		setAddrs = append(setAddrs, k)
	}
	// CometBFT orders a validator set by voting power (descending), then by address (ascending)
	sort.Slice(setAddrs, func(i, j int) bool {
		pi, pj := c.curSet[setAddrs[i]], c.curSet[setAddrs[j]]
		if pi != pj {
			return pi > pj
		}
		return setAddrs[i] < setAddrs[j]
	})
	var proposer []byte
	if len(setAddrs) > 0 {
		if v := c.valByCons(setAddrs[0]); v != nil {
			proposer = v.ConsAddr
		}
	}
	commit := c.localLastCommit()
	txs := o.Txs
	func() {
		defer func() {
			if r := recover(); r != nil {
				br.Prepare = fmt.Sprint("panic:", r)
			}
		}()
		pres, err := a.PrepareProposal(&abci.RequestPrepareProposal{Height: h, Time: t, LocalLastCommit: commit, Txs: o.Txs, MaxTxBytes: 10_000_000, ProposerAddress: proposer})
		if err != nil {
			br.Prepare = "err:" + err.Error()
			return
		}
		txs = pres.Txs
		br.Prepare = "ok"
	}()
	if o.TamperInj != nil && len(txs) > 0 {
		txs = append([][]byte{o.TamperInj(txs[0])}, txs[1:]...)
	}
	br.InjectedN = len(txs) - len(o.Txs)
	// the commit info every validator sees for this block
	var plainVotes []abci.VoteInfo
	for _, ev := range commit.Votes {
		plainVotes = append(plainVotes, abci.VoteInfo{Validator: ev.Validator, BlockIdFlag: ev.BlockIdFlag})
	}
	lastCommit := abci.CommitInfo{Round: commit.Round, Votes: plainVotes}
	func() {
		defer func() {
			if r := recover(); r != nil {
				br.Process = fmt.Sprint("panic:", r)
			}
		}()
		pr, err := a.ProcessProposal(&abci.RequestProcessProposal{Height: h, Time: t, Txs: txs, ProposedLastCommit: lastCommit, ProposerAddress: proposer})
		if err != nil {
			br.Process = "err:" + err.Error()
			return
		}
		br.Process = pr.Status.String()
	}()
	if br.Process != "ACCEPT" && !o.SkipProcessCheck {
		// honest validators reject: no block at this height; time does not advance either
		return br
	}
	// vote extensions for this height (state = commit of h-1), real handler + real verifier.
	// CometBFT only decides a block with precommits (whose extensions the other validators verified) from more than
	// 2/3 of the voting power: a hostile/absent validator is only possible while the rest still exceeds 2/3 —
	// otherwise the height could not have been decided and the validator falls back to its honest extension.
	var totalPower int64
	for _, addr := range setAddrs {
		totalPower += c.curSet[addr]
	}
	build := func(allowHostile map[string]bool) ([]abci.ExtendedVoteInfo, int64) {
		var ext []abci.ExtendedVoteInfo
		var good int64
		for _, addr := range setAddrs {
			v := c.valByCons(addr)
			power := c.curSet[addr]
			if v == nil {
				continue
			}
			vi := abci.ExtendedVoteInfo{Validator: abci.Validator{Address: v.ConsAddr, Power: power}, BlockIdFlag: cmtproto.BlockIDFlagCommit}
			hostile := allowHostile[v.Acct.Name]
			if hostile && o.Absent != nil && o.Absent[v.Acct.Name] {
				vi.BlockIdFlag = cmtproto.BlockIDFlagAbsent
				ext = append(ext, vi)
				continue
			}
			bz, err := c.honestExtension(v, h, t)
			if err != nil {
				bz = []byte("{}")
			}
			if hostile && o.Override != nil {
				bz = o.Override(v, bz)
			}
			ok := true
			func() {
				defer func() {
					if r := recover(); r != nil {
						ok = false
						br.Err = fmt.Sprint("panic in VerifyVoteExtension:", r)
					}
				}()
				vr, err := a.VerifyVoteExtension(&abci.RequestVerifyVoteExtension{Height: h, ValidatorAddress: v.ConsAddr, VoteExtension: bz})
				if err != nil || vr.Status != abci.ResponseVerifyVoteExtension_ACCEPT {
					ok = false
				}
			}()
			if !ok {
				vi.BlockIdFlag = cmtproto.BlockIDFlagAbsent
				ext = append(ext, vi)
				continue
			}
			sig, err := signExtension(v, bz, h, 0)
			if err == nil {
				vi.VoteExtension = bz
				vi.ExtensionSignature = sig
				good += power
			}
			ext = append(ext, vi)
		}
		return ext, good
	}
	hostileSet := map[string]bool{}
	for _, addr := range setAddrs {
		if v := c.valByCons(addr); v != nil {
			hostileSet[v.Acct.Name] = true
		}
	}
	ext, good := build(hostileSet)
	if 3*good <= 2*totalPower {
		// not a decidable height with these hostile validators: they behave honestly instead
		ext, _ = build(map[string]bool{})
	}
	func() {
		defer func() {
			if r := recover(); r != nil {
				br.Err = fmt.Sprint("panic:", r)
			}
		}()
		var mis []abci.Misbehavior
		if len(o.DoubleSign) > 0 {
			var tot int64
			for _, addr := range setAddrs {
				tot += c.curSet[addr]
			}
			for _, addr := range setAddrs {
				if v := c.valByCons(addr); v != nil && o.DoubleSign[v.Acct.Name] {
					mis = append(mis, abci.Misbehavior{Type: abci.MisbehaviorType_DUPLICATE_VOTE, Validator: abci.Validator{Address: v.ConsAddr, Power: c.curSet[addr]},
						Height: h - 1, Time: c.Time, TotalVotingPower: tot})
				}
			}
		}
		fr, err := a.FinalizeBlock(&abci.RequestFinalizeBlock{Height: h, Time: t, Txs: txs, DecidedLastCommit: lastCommit, ProposerAddress: proposer, Misbehavior: mis})
		if err != nil {
			br.Err = "err:" + err.Error()
			return
		}
		for _, r := range fr.TxResults {
			br.Txs = append(br.Txs, TxResult{Code: r.Code, Log: r.Log})
			burn := math.ZeroInt()
			for _, e := range r.Events {
				if e.Type == "burn" {
					for _, at := range e.Attributes {
						if at.Key == "amount" {
							if cs, err := sdk.ParseCoinsNormalized(at.Value); err == nil {
								burn = burn.Add(cs.AmountOf(denom))
							}
						}
					}
				}
			}
			br.TxBurns = append(br.TxBurns, burn.String())
		}
		br.Events = fr.Events
		br.AppHash = fr.AppHash
		// validator updates returned at h apply from h+2
		c.curSet = c.nextSet
		c.nextSet = copySet(c.nextSet)
		for _, vu := range fr.ValidatorUpdates {
			k := fmt.Sprintf("%x", pubKeyAddr(vu))
			if vu.Power == 0 {
				delete(c.nextSet, k)
			} else {
				c.nextSet[k] = vu.Power
			}
		}
		if _, err := a.Commit(); err != nil {
			br.Err = "err:commit:" + err.Error()
			return
		}
	}()
	if br.Err != "" {
		c.Halted = br.Err
		return br
	}
	c.Height = h
	c.Time = t
	c.lastExt = ext
	c.lastRound = 0
	return br
}

// Ctx returns a read context over the last committed state.
func (c *Chain) Ctx() sdk.Context {
	return c.App.NewUncachedContext(false, cmtproto.Header{Height: c.Height, ChainID: chainID, Time: c.Time})
}

func (c *Chain) Supply() math.Int { return c.App.BankKeeper.GetSupply(c.Ctx(), denom).Amount }

func (c *Chain) Bal(addr sdk.AccAddress) math.Int {
	return c.App.BankKeeper.GetBalance(c.Ctx(), addr, denom).Amount
}

func (c *Chain) ModBal(name string) math.Int { return c.Bal(authtypes.NewModuleAddress(name)) }

// GovExec wraps messages whose signer is the gov authority into a proposal, deposits and votes yes with every
// validator; the caller has to advance time past the voting period.
func (c *Chain) GovSubmit(proposer *Acct, msgs ...sdk.Msg) ([]byte, error) {
	m, err := govv1.NewMsgSubmitProposal(msgs, sdk.NewCoins(sdk.NewInt64Coin(denom, 1000)), proposer.Addr.String(), "", "t", "s", false)
	if err != nil {
		return nil, err
	}
	return c.SignTx(proposer, 2_000_000, m)
}

func (c *Chain) GovVoteAll(id uint64) [][]byte {
	var txs [][]byte
	for _, v := range c.Vals {
		m := govv1.NewMsgVote(v.Acct.Addr, id, govv1.OptionYes, "")
		bz, err := c.SignTx(v.Acct, 500_000, m)
		if err == nil {
			txs = append(txs, bz)
		}
	}
	return txs
}

func GovAuthority() string { return authtypes.NewModuleAddress(govtypes.ModuleName).String() }

func shortLog(s string) string {
	s = strings.ReplaceAll(s, "\n", " ")
	s = strings.ReplaceAll(s, "|", "/")
	if len(s) > 160 {
		s = s[:160]
	}
	return s
}

var _ = client.Context{}
var _ = context.Background
