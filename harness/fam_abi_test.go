package harness

import (
	"time"
	"crypto/sha256"
	"encoding/hex"
	"fmt"
	"strconv"
	"strings"
	"testing"

	"github.com/ethereum/go-ethereum/common"
	ethcrypto "github.com/ethereum/go-ethereum/crypto"
	keepertest "github.com/tellor-io/layer/testutil/keeper"
	bridgekeeper "github.com/tellor-io/layer/x/bridge/keeper"
	bridgetypes "github.com/tellor-io/layer/x/bridge/types"

	"cosmossdk.io/math"

	"github.com/cosmos/cosmos-sdk/crypto/keys/secp256k1"
	sdk "github.com/cosmos/cosmos-sdk/types"
)

// C15 families — the real encoders of x/bridge/keeper:
//  valset     : addrHex:power,…                                      => encodedHex:hashHex
//  checkpoint : threshold | timestamp | valsetHashHex                 => checkpointHex
//  attest     : queryIdHex | valueString | ts | power | prev | next | checkpointHex | attestTs => digestHex | err
//  qid        : d|w | id                                              => queryIdHex
//  wvalue     : amount | senderBytesHex | recipientHex                => valueHex  (plus the bech32 sender string, so the model need not do bech32)
//  sigconv    : privHex | digestHex   (sign like the SDK keyring, recover like the contract) => v27ok:v28ok:recoveredMatches
var abiK bridgekeeper.Keeper
var abiCtx sdk.Context

func setupAbi(t *testing.T) {
	k, _, _, _, _, _, ctx := keepertest.BridgeKeeper(t)
	abiK, abiCtx = k, ctx
}

func init() {
	register(&Family{Name: "valset", Gen: genValset, Run: runValset, Setup: setupAbi})
	register(&Family{Name: "checkpoint", Gen: genCheckpoint, Run: runCheckpoint, Setup: setupAbi})
	register(&Family{Name: "attest", Gen: genAttest, Run: runAttest, Setup: setupAbi})
	register(&Family{Name: "qid", Gen: genQid, Run: runQid, Setup: setupAbi})
	register(&Family{Name: "wvalue", Gen: genWvalue, Run: runWvalue, Setup: setupAbi})
	register(&Family{Name: "sigconv", Gen: genSigconv, Run: runSigconv})
	register(&Family{Name: "vparams", Gen: genVparams, Run: runVparams, Setup: setupAbi})
	register(&Family{Name: "evmaddr", Gen: genEvmAddr, Run: runEvmAddr, Setup: setupAbi})
}

// evmaddr: the real EVMAddressFromSignatures on the two initial bridge signatures as ExtendVote produces them (the keyring signs
// sha256 of the message hash).  Input: key A, key B (equal for an honest validator).  Output got:want:kind:ridA:ridB — the address
// the keeper derives, the address of key A, "same"/"diff", and the recovery ids that reproduce each key from its signature.
func genEvmAddr(r *Rng, i int, tier string) []string {
	a := rndBytes(r, 32)
	a[0] |= 1
	a[0] &= 0x7f
	if r.Chance(1, 5) { // small keys
		a = make([]byte, 32)
		a[31] = byte(1 + r.Intn(200))
	}
	b := a
	if r.Chance(1, 6) { // the two signatures come from different keys: no address may be registered
		b = rndBytes(r, 32)
		b[0] |= 1
		b[0] &= 0x7f
	}
	return []string{hex.EncodeToString(a), hex.EncodeToString(b)}
}

func runEvmAddr(t *testing.T, in []string) string {
	ka, _ := hex.DecodeString(in[0])
	kb, _ := hex.DecodeString(in[1])
	sign := func(key []byte, msg string) ([]byte, int) {
		h := sha256.Sum256([]byte(msg))
		sk := &secp256k1.PrivKey{Key: key}
		sig, err := sk.Sign(h[:]) // the SDK key hashes once more
		if err != nil {
			return nil, -1
		}
		ec, err := ethcrypto.ToECDSA(key)
		if err != nil {
			return sig, -1
		}
		want := ethcrypto.PubkeyToAddress(ec.PublicKey)
		hh := sha256.Sum256(h[:])
		rid := -1
		for v := byte(0); v < 2; v++ {
			if pub, err := ethcrypto.SigToPub(hh[:], append(append([]byte{}, sig...), v)); err == nil && ethcrypto.PubkeyToAddress(*pub) == want {
				rid = int(v)
			}
		}
		return sig, rid
	}
	sigA, ridA := sign(ka, "TellorLayer: Initial bridge signature A")
	sigB, ridB := sign(kb, "TellorLayer: Initial bridge signature B")
	ec, err := ethcrypto.ToECDSA(ka)
	if err != nil || sigA == nil || sigB == nil {
		return "err:key"
	}
	want := ethcrypto.PubkeyToAddress(ec.PublicKey)
	kind := "same"
	if in[0] != in[1] {
		kind = "diff"
	}
	got := "err"
	if addr, err := abiK.EVMAddressFromSignatures(abiCtx, sigA, sigB); err == nil {
		got = hex.EncodeToString(addr.Bytes())
	}
	return fmt.Sprintf("%s:%s:%s:%d:%d", got, hex.EncodeToString(want.Bytes()), kind, ridA, ridB)
}

// vparams: the real SetBridgeValidatorParams on a generated bridge validator set at a generated block time; observed are the stored
// checkpoint parameters (threshold, timestamp, validator-set hash, checkpoint)
func genVparams(r *Rng, i int, tier string) []string {
	n := 1 + r.Intn(7)
	if r.Chance(1, 10) {
		n = 1 + r.Intn(100)
	}
	var vs []string
	for j := 0; j < n; j++ {
		pw := uint64(1 + r.Intn(20))
		switch r.Intn(6) {
		case 0:
			pw = uint64(r.Range(1, 1e9))
		case 1:
			pw = (r.U64() >> uint(3+r.Intn(55))) + 1 // up to 2^61 / n: the total stays below 2^62
			if n > 1 {
				pw = pw/uint64(n) + 1
			}
		}
		vs = append(vs, fmt.Sprintf("%s:%d", hex.EncodeToString(rndBytes(r, 20)), pw))
	}
	ts := uint64(1700000000000) + uint64(i)*1000 + uint64(r.Intn(1000))
	if r.Chance(1, 8) {
		ts = rndU64(r) >> 1
	}
	return []string{strings.Join(vs, ","), fmt.Sprint(ts)}
}

func runVparams(t *testing.T, in []string) string {
	ts, _ := strconv.ParseUint(in[1], 10, 64)
	ctx := abiCtx.WithBlockTime(time.UnixMilli(int64(ts)))
	if err := abiK.SetBridgeValidatorParams(ctx, parseValset(in[0])); err != nil {
		return "err:" + shortLog(err.Error())
	}
	p, err := abiK.ValidatorCheckpointParamsMap.Get(ctx, ts)
	if err != nil {
		return "err:noparams"
	}
	return fmt.Sprintf("%d:%d:%s:%s", p.PowerThreshold, p.Timestamp, hex.EncodeToString(p.ValsetHash), hex.EncodeToString(p.Checkpoint))
}

func rndBytes(r *Rng, n int) []byte {
	b := make([]byte, n)
	for i := range b {
		b[i] = byte(r.U64())
	}
	if n > 0 && r.Chance(1, 4) { // leading zeros
		for i := 0; i < 1+r.Intn(n); i++ {
			b[i] = 0
		}
	}
	return b
}

func rndU64(r *Rng) uint64 {
	switch r.Intn(5) {
	case 0:
		return uint64(r.Intn(10))
	case 1:
		return 1<<63 - uint64(r.Intn(3))
	case 2:
		return ^uint64(0) - uint64(r.Intn(3))
	default:
		return r.U64() >> uint(r.Intn(64))
	}
}

func genValset(r *Rng, i int, tier string) []string {
	n := r.Intn(8)
	if r.Chance(1, 10) {
		n = r.Intn(101)
	}
	var vs []string
	for j := 0; j < n; j++ {
		alen := 20
		if r.Chance(1, 6) {
			alen = []int{0, 1, 19, 21, 32, 40}[r.Intn(6)]
		}
		vs = append(vs, fmt.Sprintf("%s:%d", hex.EncodeToString(rndBytes(r, alen)), rndU64(r)))
	}
	if n > 1 && r.Chance(1, 8) { // duplicate member
		vs[n-1] = vs[0]
	}
	return []string{strings.Join(vs, ",")}
}

func parseValset(s string) *bridgetypes.BridgeValidatorSet {
	set := &bridgetypes.BridgeValidatorSet{}
	if s == "" {
		return set
	}
	for _, v := range strings.Split(s, ",") {
		p := strings.Split(v, ":")
		a, _ := hex.DecodeString(p[0])
		pw, _ := strconv.ParseUint(p[1], 10, 64)
		set.BridgeValidatorSet = append(set.BridgeValidatorSet, &bridgetypes.BridgeValidator{EthereumAddress: a, Power: pw})
	}
	return set
}

func runValset(t *testing.T, in []string) string {
	enc, hash, err := abiK.EncodeAndHashValidatorSet(abiCtx, parseValset(in[0]))
	if err != nil {
		return "err"
	}
	return hex.EncodeToString(enc) + ":" + hex.EncodeToString(hash)
}

func genCheckpoint(r *Rng, i int, tier string) []string {
	hl := 32
	if r.Chance(1, 6) {
		hl = []int{0, 1, 31, 33, 64}[r.Intn(5)]
	}
	return []string{fmt.Sprint(rndU64(r)), fmt.Sprint(rndU64(r)), hex.EncodeToString(rndBytes(r, hl))}
}

func runCheckpoint(t *testing.T, in []string) string {
	th, _ := strconv.ParseUint(in[0], 10, 64)
	ts, _ := strconv.ParseUint(in[1], 10, 64)
	h, _ := hex.DecodeString(in[2])
	cp, err := abiK.CalculateValidatorSetCheckpoint(abiCtx, th, ts, h)
	if err != nil {
		return "err"
	}
	return hex.EncodeToString(cp)
}

func genAttest(r *Rng, i int, tier string) []string {
	ql := 32
	if r.Chance(1, 6) {
		ql = []int{0, 5, 31, 33, 40}[r.Intn(5)]
	}
	vl := []int{0, 1, 31, 32, 33, 64, 65, 128, 1000}[r.Intn(9)]
	if r.Chance(1, 3) {
		vl = r.Intn(71)
	}
	val := hex.EncodeToString(rndBytes(r, vl))
	if r.Chance(1, 12) {
		switch r.Intn(4) {
		case 0:
			val = "0x" + val
		case 1:
			val = val + "0"
		case 2:
			val = strings.ToUpper(val)
		default:
			val = val + "zz"
		}
	}
	cl := 32
	if r.Chance(1, 8) {
		cl = []int{0, 31, 33}[r.Intn(3)]
	}
	return []string{hex.EncodeToString(rndBytes(r, ql)), val, fmt.Sprint(rndU64(r)), fmt.Sprint(rndU64(r)), fmt.Sprint(rndU64(r)), fmt.Sprint(rndU64(r)),
		hex.EncodeToString(rndBytes(r, cl)), fmt.Sprint(rndU64(r))}
}

func runAttest(t *testing.T, in []string) string {
	q, _ := hex.DecodeString(in[0])
	u := func(s string) uint64 { v, _ := strconv.ParseUint(s, 10, 64); return v }
	cp, _ := hex.DecodeString(in[6])
	d, err := abiK.EncodeOracleAttestationData(q, in[1], u(in[2]), u(in[3]), u(in[4]), u(in[5]), cp, u(in[7]))
	if err != nil {
		return "err"
	}
	return hex.EncodeToString(d)
}

func genQid(r *Rng, i int, tier string) []string {
	k := "d"
	if r.Bool() {
		k = "w"
	}
	return []string{k, fmt.Sprint(rndU64(r))}
}

func runQid(t *testing.T, in []string) string {
	id, _ := strconv.ParseUint(in[1], 10, 64)
	var q []byte
	var err error
	if in[0] == "d" {
		q, err = abiK.GetDepositQueryId(id)
	} else {
		q, err = abiK.GetWithdrawalQueryId(id)
	}
	if err != nil {
		return "err"
	}
	return hex.EncodeToString(q)
}

func genWvalue(r *Rng, i int, tier string) []string {
	rl := []int{0, 19, 20, 21, 40}[r.Intn(5)]
	if r.Chance(1, 2) {
		rl = 20
	}
	sl := 20
	if r.Chance(1, 4) {
		sl = []int{1, 32, 64, 100}[r.Intn(4)]
	}
	return []string{fmt.Sprint(rndU64(r)), hex.EncodeToString(rndBytes(r, sl)), hex.EncodeToString(rndBytes(r, rl))}
}

func runWvalue(t *testing.T, in []string) string {
	amt, _ := strconv.ParseUint(in[0], 10, 64)
	s, _ := hex.DecodeString(in[1])
	rc, _ := hex.DecodeString(in[2])
	sender := sdk.AccAddress(s)
	v, err := abiK.GetWithdrawalReportValue(sdk.NewCoin("loya", math.NewIntFromUint64(amt)), sender, rc)
	if err != nil {
		return "err"
	}
	return hex.EncodeToString(v) + ":" + sender.String()
}

func genSigconv(r *Rng, i int, tier string) []string {
	priv := rndBytes(r, 32)
	priv[0] |= 1
	priv[0] &= 0x7f
	return []string{hex.EncodeToString(priv), hex.EncodeToString(rndBytes(r, 32))}
}

// sign the way the SDK keyring signs for a secp256k1 key (sha256 of the message, 64-byte r‖s), recover the way the
// contract does: ecrecover(sha256(abi.encodePacked(digest)), v, r, s) for v ∈ {27, 28}
func runSigconv(t *testing.T, in []string) string {
	pb, _ := hex.DecodeString(in[0])
	digest, _ := hex.DecodeString(in[1])
	sk := &secp256k1.PrivKey{Key: pb}
	sig, err := sk.Sign(digest)
	if err != nil || len(sig) != 64 {
		return "err"
	}
	ecdsaPriv, err := ethcrypto.ToECDSA(pb)
	if err != nil {
		return "err"
	}
	want := ethcrypto.PubkeyToAddress(ecdsaPriv.PublicKey)
	h := sha256.Sum256(digest)
	matches := 0
	var oks []string
	for v := byte(0); v < 2; v++ {
		pub, err := ethcrypto.SigToPub(h[:], append(append([]byte{}, sig...), v))
		ok := err == nil && ethcrypto.PubkeyToAddress(*pub) == want
		if ok {
			matches++
		}
		oks = append(oks, fmt.Sprint(ok))
	}
	_ = common.Address{}
	return fmt.Sprintf("%s:%s:%d", oks[0], oks[1], matches)
}
