package harness

import (
	"encoding/hex"
	"fmt"
	"sort"
	"strconv"
	"strings"
	"testing"

	"cosmossdk.io/collections"

	sdk "github.com/cosmos/cosmos-sdk/types"
)

// family "repstake" (C10): staking and selection histories, one transaction per block.  Per block:
//   X kind:signer:ok|rej[:k=v…]
//   N t=<ms> h=<height> cap=<maxSelectors> mintrb=<…> maxval=<…> unb=<ms>
//   V name:bonded:tokens:delegatorShares(raw)      D delegator:validator:shares(raw)
//   S selector:reporter:lockedUntilMs:delegationsCount      R reporter:jailed:jailedUntilMs:minTokens
//   M reporter:power:metaId:queryId:total:delegator.validator.amount+…   one per report accepted in this block
func init() {
	register(&Family{Name: "repstake", Gen: genRepStakeHist, Run: runRepStakeHist})
	// C09, C04: the same histories; the stake snapshot a report records (what DivvyingTips splits a reward by) sums to its total
	register(&Family{Name: "snapshotsum", Gen: genRepStakeHist, Run: runRepStakeHist})
}

func (c *Chain) valName(valAddr []byte) string {
	for _, v := range c.Vals {
		if string(v.ValAddr) == string(valAddr) {
			return v.Acct.Name
		}
	}
	return "?" + hex.EncodeToString(valAddr)[:6]
}

func dumpRepStake(c *Chain) []string {
	ctx := c.Ctx()
	var out []string
	rp, _ := c.App.ReporterKeeper.Params.Get(ctx)
	sp, _ := c.App.StakingKeeper.GetParams(ctx)
	out = append(out, fmt.Sprintf("N t=%d h=%d cap=%d mintrb=%s maxval=%d unb=%d", c.Time.UnixMilli(), c.Height, rp.MaxSelectors, rp.MinTrb, sp.MaxValidators, sp.UnbondingTime.Milliseconds()))
	var vs, ds, ss, rs []string
	vals, _ := c.App.StakingKeeper.GetAllValidators(ctx)
	for _, v := range vals {
		va, _ := sdk.ValAddressFromBech32(v.OperatorAddress)
		vs = append(vs, fmt.Sprintf("%s:%v:%s:%s", c.valName(va), v.IsBonded(), v.Tokens, v.DelegatorShares.BigInt()))
	}
	dels, _ := c.App.StakingKeeper.GetAllDelegations(ctx)
	for _, d := range dels {
		da, _ := sdk.AccAddressFromBech32(d.DelegatorAddress)
		va, _ := sdk.ValAddressFromBech32(d.ValidatorAddress)
		ds = append(ds, fmt.Sprintf("%s:%s:%s", c.nameOf(da), c.valName(va), d.Shares.BigInt()))
	}
	if it, err := c.App.ReporterKeeper.Selectors.Iterate(ctx, nil); err == nil {
		for ; it.Valid(); it.Next() {
			kv, _ := it.KeyValue()
			lu := kv.Value.LockedUntilTime.UnixMilli()
			if kv.Value.LockedUntilTime.IsZero() || lu < 0 {
				lu = 0
			}
			ss = append(ss, fmt.Sprintf("%s:%s:%d:%d", c.nameOf(kv.Key), c.nameOf(kv.Value.Reporter), lu, kv.Value.DelegationsCount))
		}
		it.Close()
	}
	if it, err := c.App.ReporterKeeper.Reporters.Iterate(ctx, nil); err == nil {
		for ; it.Valid(); it.Next() {
			kv, _ := it.KeyValue()
			ju := kv.Value.JailedUntil.UnixMilli()
			if kv.Value.JailedUntil.IsZero() || ju < 0 {
				ju = 0
			}
			rs = append(rs, fmt.Sprintf("%s:%v:%d:%s", c.nameOf(kv.Key), kv.Value.Jailed, ju, kv.Value.MinTokensRequired))
		}
		it.Close()
	}
	sort.Strings(vs)
	sort.Strings(ds)
	sort.Strings(ss)
	sort.Strings(rs)
	out = append(out, "V "+strings.Join(vs, ","), "D "+strings.Join(ds, ","), "S "+strings.Join(ss, ","), "R "+strings.Join(rs, ","))
	return out
}

func runRepStakeHist(t *testing.T, in []string) string {
	nv, _ := strconv.Atoi(in[0])
	maxv, _ := strconv.Atoi(in[2])
	c, err := NewChain(ChainCfg{NVals: nv, NAccts: 6, MaxValidators: uint32(maxv)})
	if err != nil {
		return "err:newchain:" + shortLog(err.Error())
	}
	defer c.Close()
	h := NewHist(c)
	seen := 0
	h.Observe = func(hh *Hist, br *BlockResult, pend []pendingTx) {
		if br.Err != "" || br.Process != "ACCEPT" {
			hh.Out = append(hh.Out, "HALT "+shortLog(br.Err+br.Process))
			return
		}
		ctx := c.Ctx()
		for i, p := range pend {
			res := "missing"
			if br.InjectedN+i < len(br.Txs) {
				if br.Txs[br.InjectedN+i].Code == 0 {
					res = "ok"
				} else {
					res = "rej"
				}
			}
			f := strings.Fields(p.op)
			extra := ""
			switch p.kind {
			case "sel", "sw":
				extra = ":rep=" + f[2]
			case "rmsel":
				extra = ":target=" + f[2]
			case "mkrep":
				extra = ":min=" + f[len(f)-1]
			}
			hh.Out = append(hh.Out, fmt.Sprintf("X %s:%s:%s%s", p.kind, p.signer, res, extra))
		}
		hh.Out = append(hh.Out, dumpRepStake(c)...)
		// the reports accepted in this block, with the stake snapshot stored for them
		for ; seen < len(hh.Reports); seen++ {
			r := hh.Reports[seen].rep
			ra, err := sdk.AccAddressFromBech32(r.Reporter)
			if err != nil {
				continue
			}
			total, origins := "?", ""
			if snap, err := c.App.ReporterKeeper.Report.Get(ctx, collections.Join(r.QueryId, collections.Join(ra.Bytes(), r.BlockNumber))); err == nil {
				total = snap.Total.String()
				var os []string
				for _, o := range snap.TokenOrigins {
					os = append(os, fmt.Sprintf("%s.%s.%s", c.nameOf(o.DelegatorAddress), c.valName(o.ValidatorAddress), o.Amount))
				}
				origins = strings.Join(os, "+")
			}
			hh.Out = append(hh.Out, fmt.Sprintf("M %s:%d:%d:%s:%s:%s", c.nameOf(ra), r.Power, hh.Reports[seen].meta, short(r.QueryId), total, origins))
		}
	}
	for _, op := range strings.Split(in[1], ";") {
		h.Exec(op)
		if c.Halted != "" {
			break
		}
	}
	return strings.Join(h.Out, " ;; ")
}

func genRepStakeHist(r *Rng, i int, tier string) []string {
	nv := 2 + r.Intn(3)
	maxv := r.Pick(100, 100, int64(nv), 2, 2) // a small validator cap pushes validators out of the bonded set and selects the second iteration strategy
	var ops []string
	add := func(s string, a ...any) { ops = append(ops, fmt.Sprintf(s, a...)) }
	tx := func(s string, a ...any) { add(s, a...); add("blk %d", r.Pick(1000, 1000, 1500, 5000)) }
	add("blk 1000")
	add("blk 1000")
	tx("mkrep v0 0 1000000")
	tx("mkrep v1 0 %d", r.Pick(1000000, 2000000, 3000000))
	tx("del a0 v0 %d", r.Range(2e6, 2e7))
	tx("del a2 v%d %d", r.Intn(nv), r.Range(2e6, 2e7))
	tx("del a3 v%d %d", r.Intn(nv), r.Range(1e6, 2e7))
	if r.Chance(2, 3) {
		tx("mkrep a0 0 %d", r.Pick(1000000, 2000000, 3000000))
	}
	if maxv < 100 { // more delegations than the validator cap: ReporterStake then walks the bonded validators instead
		for j := 0; j < nv; j++ {
			tx("del a2 v%d %d", j, r.Range(1e6, 5e6))
			if r.Chance(1, 2) {
				tx("del v0 v%d %d", j, r.Range(1e6, 5e6))
			}
		}
	}
	tx("sel a2 %s", r.PickS("v0", "v1", "a0"))
	tx("sel a3 %s", r.PickS("v0", "v1", "a0"))
	if nv == 4 && maxv == 100 && r.Chance(1, 2) {
		downtime(add, "v1") // slashed-validator variant: v1's exchange rate is 0.99 from here on (see genSlashHist)
	}
	accts := []string{"a0", "a1", "a2", "a3", "a4", "a5", "v0", "v1"}
	reps := []string{"v0", "v1", "a0", "a1"}
	pick := func() string { return accts[r.Intn(len(accts))] }
	nops := 40 + r.Intn(40)
	if tier == "thorough" {
		nops = 90 + r.Intn(120)
	}
	ndisp := 0
	for k := 0; k < nops; k++ {
		a := pick()
		switch r.Intn(22) {
		case 0:
			tx("mkrep %s 0 %d", a, r.Pick(1000000, 2000000, 3000000, 999999))
		case 20, 21:
			j := r.PickS("a1", "a2", "a3", "a4", "a5")
			tx("del %s v%d %d", j, r.Intn(nv), r.Pick(999999, 1000000, 1999999, 2000000, 2999999, 3000000, 1500000, 500000))
			tx("%s %s %s", r.PickS("sel", "sel", "sw"), j, reps[r.Intn(4)])
		case 1: // a join attempt with a stake at the boundary of the reporters' minimum requirements
			j := r.PickS("a1", "a2", "a3", "a4", "a5")
			tx("del %s v%d %d", j, r.Intn(nv), r.Pick(999999, 1000000, 1999999, 2000000, 2999999, 3000000, 1500000, 500000))
			tx("%s %s %s", r.PickS("sel", "sel", "sw"), j, reps[r.Intn(4)])
		case 2, 3, 4:
			tx("sw %s %s", r.PickS("a1", "a2", "a3"), reps[r.Intn(3)])
		case 5:
			tx("rmsel %s %s", a, pick())
		case 6, 7, 8: // several delegations per account (more than a small validator cap)
			tx("del %s v%d %d", a, r.Intn(nv), r.Pick(1000000, 999999, 1500000, 3000000, r.Range(1e5, 2e7)))
		case 9:
			tx("undel %s v%d %d", a, r.Intn(nv), r.Pick(500000, 1000000, r.Range(1e5, 5e6)))
		case 10:
			tx("redel %s v%d v%d %d", a, r.Intn(nv), r.Intn(nv), r.Pick(500000, 1000000, r.Range(1e5, 5e6)))
		case 11, 12, 13, 14: // a tipped round with reports of several reporters in consecutive blocks
			q := r.Intn(3)
			add("tip %s q%d %d", a, q, r.Range(1000, 1e6))
			add("blk 1000")
			for j, n := 0, 1+r.Intn(3); j < n; j++ {
				add("rep %s q%d %064x", reps[r.Intn(3)], q, r.Range(1, 1e9))
				add("blk 1000")
				if r.Chance(1, 4) { // a switch in the middle of the round
					add("sw %s %s", r.PickS("a2", "a3"), reps[r.Intn(3)])
					add("blk 1000")
				}
			}
		case 15: // warning / minor disputes jail the reporter
			tx("disp %s R%d %d %d 0", a, r.Intn(6), 1+r.Intn(2), r.Pick(1e7, 1e10))
			ndisp++
		case 16, 17:
			tx("unjail %s", reps[r.Intn(3)])
		case 18:
			add("blk %d", r.Pick(600000, 600001, 599000, 21*86400000, 21*86400000+1000, 86400000))
		default:
			add("blk %d", r.Pick(1, 1000, 5000))
		}
	}
	add("blk 1000")
	return []string{fmt.Sprint(nv), strings.Join(ops, ";"), fmt.Sprint(maxv)}
}
