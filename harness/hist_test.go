package harness

// History runner: interprets a list of textual operations against the real application (chain_test.go) and
// records canonical observations.  One history = one harness case (one line in, one line out).
//
// Operations (separated by ';', fields by ' '):
//   blk <dt_ms>                      close the block: the queued transactions are proposed, the block is executed
//   tip <acct> <q> <amt>             MsgTip for query q (index into the query table)
//   rep <acct> <q> <value>           MsgSubmitValue
//   mkrep <acct> <rateRaw> <min>     MsgCreateReporter (rate as raw 10^-18 LegacyDec)
//   sel <acct> <reporter>            MsgSelectReporter      sw <acct> <reporter>  MsgSwitchReporter
//   rmsel <acct> <selector>          MsgRemoveSelector      unjail <acct>         MsgUnjailReporter
//   wtip <acct> <val>                MsgWithdrawTip
//   del|undel <acct> <val> <amt>     staking MsgDelegate / MsgUndelegate      redel <acct> <val> <val2> <amt>
//   send <acct> <acct2> <amt>        bank MsgSend
//   wd <acct> <amt> <recipientHex>   bridge MsgWithdrawTokens
//   claimdep <acct> <id> <idx>       bridge MsgClaimDeposits{[id],[idx]}
//   reqatt <acct> <q> <tsIdx>        bridge MsgRequestAttestations for the tsIdx-th aggregate of q (or a bogus timestamp)
//   disp <acct> <R> <cat> <fee> <bond01> [mut]   MsgProposeDispute on known report R (index into accepted reports),
//                                    mut ∈ {-, val, pow, fake}: altered value / power / invented report
//   addfee <acct> <id> <amt> <bond01>  vote <acct> <id> <s|a|i>  wfr <acct> <payer> <id>  claim <acct> <id>
//   evid <acct> <id> <R>             MsgAddEvidence
//   blk <ms> [abs=v1,..] [ns=<n>] [dsign=v1,..]   a block after <ms> (+ n ns); validators that do not vote; double-sign evidence
//   sunjail <val>                    x/slashing MsgUnjail by the validator's operator (after `blk … abs=<val>` downtime)
//   gov <kind> <args…>               a governance proposal carrying the privileged message, voted by all validators:
//        mintinit | cyclelist <q,q,…> | oparams <minStake> | snaplimit <n> | spec <type> <window>
//   direct <acct> <kind> <args…>     the same privileged message signed by an ordinary account (C19)
//   regspec <acct> <type> <valueType> <method> <window>     MsgRegisterSpec
//   team <acct> <newacct>            MsgUpdateTeam

import (
	"encoding/hex"
	"fmt"
	"sort"
	"strconv"
	"strings"
	"time"

	bridgetypes "github.com/tellor-io/layer/x/bridge/types"
	disputetypes "github.com/tellor-io/layer/x/dispute/types"
	minttypes "github.com/tellor-io/layer/x/mint/types"
	oracletypes "github.com/tellor-io/layer/x/oracle/types"
	registrytypes "github.com/tellor-io/layer/x/registry/types"
	reportertypes "github.com/tellor-io/layer/x/reporter/types"
	"github.com/tellor-io/layer/utils"

	"cosmossdk.io/math"

	sdked25519 "github.com/cosmos/cosmos-sdk/crypto/keys/ed25519"

	sdk "github.com/cosmos/cosmos-sdk/types"
	banktypes "github.com/cosmos/cosmos-sdk/x/bank/types"
	slashingtypes "github.com/cosmos/cosmos-sdk/x/slashing/types"
	stakingtypes "github.com/cosmos/cosmos-sdk/x/staking/types"
)

type pendingTx struct {
	op     string
	bytes  []byte
	kind   string
	info   map[string]string
	signer string // account name of the transaction's signer
}

type knownReport struct {
	meta uint64 // the round (query meta id) the report was stored under
	rep  oracletypes.MicroReport
}

type Hist struct {
	C        *Chain
	Queries  [][]byte // query data table: cycle list first, then extra / bridge deposit queries
	pending  []pendingTx
	Reports  []knownReport
	Out      []string // observation records
	govNext  uint64
	Observe  func(h *Hist, br *BlockResult, txs []pendingTx) // per-block observation hook (profile-specific)
	Deposits map[uint64][3]string                           // deposit id -> (recipient bech32, amount, tip) as reported
}

func NewHist(c *Chain) *Hist {
	h := &Hist{C: c, govNext: 1, Deposits: map[uint64][3]string{}}
	h.Queries = append(h.Queries, oracletypes.InitialCycleList()...)
	return h
}

func (h *Hist) acct(name string) *Acct {
	if a := h.C.Acct(name); a != nil {
		return a
	}
	return h.C.Accts[0]
}

func (h *Hist) val(name string) *Val {
	for _, v := range h.C.Vals {
		if v.Acct.Name == name {
			return v
		}
	}
	return h.C.Vals[0]
}

func (h *Hist) query(s string) []byte {
	if strings.HasPrefix(s, "dep") { // bridge deposit query for id
		id, _ := strconv.ParseUint(s[3:], 10, 64)
		return DepositQueryData(id, true)
	}
	if strings.HasPrefix(s, "wdq") { // withdrawal query data (never reportable)
		id, _ := strconv.ParseUint(s[3:], 10, 64)
		return DepositQueryData(id, false)
	}
	if strings.HasPrefix(s, "x") { // raw hex
		b, _ := hex.DecodeString(s[1:])
		return b
	}
	i, _ := strconv.Atoi(strings.TrimPrefix(s, "q"))
	if len(h.Queries) == 0 {
		return nil
	}
	return h.Queries[i%len(h.Queries)]
}

// DepositQueryData = abi.encode("TRBBridge", abi.encode(toLayer, id))
func DepositQueryData(id uint64, toLayer bool) []byte {
	spec := registrytypes.DataSpec{AbiComponents: []*registrytypes.ABIComponent{{Name: "toLayer", FieldType: "bool"}, {Name: "depositId", FieldType: "uint256"}}}
	b, err := spec.EncodeData("TRBBridge", fmt.Sprintf(`["%v","%d"]`, toLayer, id))
	if err != nil {
		return nil
	}
	return b
}

func coin(a string) sdk.Coin {
	v, ok := math.NewIntFromString(a)
	if !ok {
		v = math.ZeroInt()
	}
	return sdk.Coin{Denom: denom, Amount: v}
}

func (h *Hist) queue(op, kind string, signer *Acct, gas uint64, info map[string]string, msgs ...sdk.Msg) {
	bz, err := h.C.SignTx(signer, gas, msgs...)
	if err != nil {
		h.Out = append(h.Out, "signerr "+shortLog(err.Error()))
		return
	}
	h.pending = append(h.pending, pendingTx{op: op, bytes: bz, kind: kind, info: info, signer: signer.Name})
}

func (h *Hist) govMsg(kind string, f []string, authority string) (sdk.Msg, error) {
	switch kind {
	case "mintinit":
		return &minttypes.MsgInit{Authority: authority}, nil
	case "cyclelist":
		var list [][]byte
		if len(f) > 0 && f[0] != "-" {
			for _, q := range strings.Split(f[0], ",") {
				list = append(list, h.query(q))
			}
		}
		return &oracletypes.MsgUpdateCyclelist{Authority: authority, Cyclelist: list}, nil
	case "oparams":
		v, _ := math.NewIntFromString(f[0])
		return &oracletypes.MsgUpdateParams{Authority: authority, Params: oracletypes.Params{MinStakeAmount: v}}, nil
	case "rparams":
		p := reportertypes.DefaultParams()
		if len(f) > 0 {
			n, _ := strconv.ParseUint(f[0], 10, 64)
			p.MaxSelectors = n
		}
		return &reportertypes.MsgUpdateParams{Authority: authority, Params: p}, nil
	case "snaplimit":
		n, _ := strconv.ParseUint(f[0], 10, 64)
		return &bridgetypes.MsgUpdateSnapshotLimit{Authority: authority, Limit: n}, nil
	case "spec":
		w, _ := strconv.ParseUint(f[1], 10, 64)
		ctx := h.C.Ctx()
		sp, err := h.C.App.RegistryKeeper.GetSpec(ctx, f[0])
		if err != nil {
			sp = registrytypes.GenesisDataSpec()
		}
		sp.ReportBlockWindow = w
		return &registrytypes.MsgUpdateDataSpec{Authority: authority, QueryType: f[0], Spec: sp}, nil
	}
	return nil, fmt.Errorf("unknown gov kind %s", kind)
}

// Exec interprets one operation. Returns a BlockResult pointer for "blk".
func (h *Hist) Exec(op string) *BlockResult {
	f := strings.Fields(op)
	if len(f) == 0 {
		return nil
	}
	defer func() {
		if r := recover(); r != nil {
			h.Out = append(h.Out, fmt.Sprintf("harnesspanic %s: %v", f[0], r))
		}
	}()
	c := h.C
	switch f[0] {
	case "blk":
		ms, _ := strconv.ParseInt(f[1], 10, 64)
		var txs [][]byte
		for _, p := range h.pending {
			txs = append(txs, p.bytes)
		}
		bo := BlockOpts{Dt: time.Duration(ms) * time.Millisecond, Txs: txs}
		for _, x := range f[2:] { // blk <ms> ns=<n>: block times need not fall on whole milliseconds
			if strings.HasPrefix(x, "ns=") {
				if n, err := strconv.ParseInt(x[3:], 10, 64); err == nil {
					bo.Dt += time.Duration(n)
				}
			}
		}
		for _, x := range f[2:] { // blk <ms> dsign=v1: double-sign evidence against these validators (slashed 5 %, tombstoned)
			if strings.HasPrefix(x, "dsign=") {
				bo.DoubleSign = map[string]bool{}
				for _, n := range strings.Split(x[6:], ",") {
					bo.DoubleSign[n] = true
				}
			}
		}
		if len(f) > 2 && strings.HasPrefix(f[2], "abs=") { // blk <ms> abs=v0,v2: these validators do not vote
			bo.Absent = map[string]bool{}
			for _, n := range strings.Split(f[2][4:], ",") {
				bo.Absent[n] = true
			}
		}
		br := c.NextBlock(bo)
		pend := h.pending
		h.pending = nil
		h.afterBlock(&br, pend)
		if h.Observe != nil {
			h.Observe(h, &br, pend)
		}
		return &br
	case "skip": // skip <n> <dt_ms>: n empty blocks without per-block observation (only halts are recorded)
		n, _ := strconv.Atoi(f[1])
		ms, _ := strconv.ParseInt(f[2], 10, 64)
		for i := 0; i < n; i++ {
			br := c.NextBlock(BlockOpts{Dt: time.Duration(ms) * time.Millisecond})
			if br.Err != "" || br.Process != "ACCEPT" {
				if h.Observe != nil {
					h.Observe(h, &br, nil)
				}
				return &br
			}
		}
		h.Out = append(h.Out, fmt.Sprintf("SKIP n=%d dt=%d h=%d", n, ms, c.Height))
	case "tip":
		a := h.acct(f[1])
		h.queue(op, "tip", a, 400000, map[string]string{"amt": f[3]}, &oracletypes.MsgTip{Tipper: a.Addr.String(), QueryData: h.query(f[2]), Amount: coin(f[3])})
	case "rep":
		a := h.acct(f[1])
		val := ""
		if len(f) > 3 {
			val = f[3]
		}
		h.queue(op, "rep", a, 600000, map[string]string{"q": f[2], "val": val, "who": f[1]}, &oracletypes.MsgSubmitValue{Creator: a.Addr.String(), QueryData: h.query(f[2]), Value: val})
	case "mkrep":
		a := h.acct(f[1])
		rate, _ := math.NewIntFromString(f[2])
		min, _ := math.NewIntFromString(f[3])
		h.queue(op, "mkrep", a, 400000, nil, &reportertypes.MsgCreateReporter{ReporterAddress: a.Addr.String(), CommissionRate: math.LegacyNewDecFromBigIntWithPrec(rate.BigInt(), 18), MinTokensRequired: min})
	case "sel", "sw":
		a := h.acct(f[1])
		r := h.acct(f[2])
		if f[0] == "sel" {
			h.queue(op, "sel", a, 400000, nil, &reportertypes.MsgSelectReporter{SelectorAddress: a.Addr.String(), ReporterAddress: r.Addr.String()})
		} else {
			h.queue(op, "sw", a, 400000, nil, &reportertypes.MsgSwitchReporter{SelectorAddress: a.Addr.String(), ReporterAddress: r.Addr.String()})
		}
	case "rmsel":
		a := h.acct(f[1])
		h.queue(op, "rmsel", a, 400000, nil, &reportertypes.MsgRemoveSelector{AnyAddress: a.Addr.String(), SelectorAddress: h.acct(f[2]).Addr.String()})
	case "unjail":
		a := h.acct(f[1])
		h.queue(op, "unjail", a, 400000, nil, &reportertypes.MsgUnjailReporter{ReporterAddress: a.Addr.String()})
	case "sunjail": // sunjail <val>: the validator's operator asks the slashing module to unjail it (after a downtime jail)
		v := h.val(f[1])
		h.queue(op, "sunjail", v.Acct, 400000, nil, &slashingtypes.MsgUnjail{ValidatorAddr: v.ValAddr.String()})
	case "wtip":
		a := h.acct(f[1])
		h.queue(op, "wtip", a, 600000, nil, &reportertypes.MsgWithdrawTip{SelectorAddress: a.Addr.String(), ValidatorAddress: h.val(f[2]).ValAddr.String()})
	case "del":
		a := h.acct(f[1])
		h.queue(op, "del", a, 600000, nil, &stakingtypes.MsgDelegate{DelegatorAddress: a.Addr.String(), ValidatorAddress: h.val(f[2]).ValAddr.String(), Amount: coin(f[3])})
	case "mkval": // mkval <acct> <amount>: the account creates a validator (consensus key + vote-extension handler registered with the harness)
		a := h.acct(f[1])
		var v *Val
		for _, x := range c.Vals {
			if x.Acct == a {
				v = x
			}
		}
		if v == nil {
			nv, err := c.NewValKeys(a, len(c.Vals))
			if err != nil {
				h.Out = append(h.Out, "mkval err "+err.Error())
				return nil
			}
			v = nv
		}
		msg, err := stakingtypes.NewMsgCreateValidator(v.ValAddr.String(), &sdked25519.PubKey{Key: v.Cons.PubKey().Bytes()}, coin(f[2]),
			stakingtypes.Description{Moniker: a.Name}, stakingtypes.NewCommissionRates(math.LegacyZeroDec(), math.LegacyOneDec(), math.LegacyOneDec()), math.OneInt())
		if err != nil {
			h.Out = append(h.Out, "mkval err "+err.Error())
			return nil
		}
		h.queue(op, "mkval", a, 800000, nil, msg)
	case "undel":
		a := h.acct(f[1])
		h.queue(op, "undel", a, 600000, nil, &stakingtypes.MsgUndelegate{DelegatorAddress: a.Addr.String(), ValidatorAddress: h.val(f[2]).ValAddr.String(), Amount: coin(f[3])})
	case "redel":
		a := h.acct(f[1])
		h.queue(op, "redel", a, 800000, nil, &stakingtypes.MsgBeginRedelegate{DelegatorAddress: a.Addr.String(), ValidatorSrcAddress: h.val(f[2]).ValAddr.String(), ValidatorDstAddress: h.val(f[3]).ValAddr.String(), Amount: coin(f[4])})
	case "send":
		a := h.acct(f[1])
		h.queue(op, "send", a, 300000, nil, &banktypes.MsgSend{FromAddress: a.Addr.String(), ToAddress: h.acct(f[2]).Addr.String(), Amount: sdk.NewCoins(coin(f[3]))})
	case "wd":
		a := h.acct(f[1])
		h.queue(op, "wd", a, 600000, map[string]string{"amt": f[2], "rcp": f[3], "who": f[1]}, &bridgetypes.MsgWithdrawTokens{Creator: a.Addr.String(), Recipient: f[3], Amount: coin(f[2])})
	case "claimdep":
		a := h.acct(f[1])
		var ids, idxs []uint64
		for _, s := range strings.Split(f[2], ",") {
			v, _ := strconv.ParseUint(s, 10, 64)
			ids = append(ids, v)
		}
		for _, s := range strings.Split(f[3], ",") {
			v, _ := strconv.ParseUint(s, 10, 64)
			idxs = append(idxs, v)
		}
		h.queue(op, "claimdep", a, 900000, map[string]string{"ids": f[2], "idxs": f[3], "who": f[1]}, &bridgetypes.MsgClaimDepositsRequest{Creator: a.Addr.String(), DepositIds: ids, Indices: idxs})
	case "reqatt":
		a := h.acct(f[1])
		qid := utils.QueryIDFromData(h.query(f[2]))
		ts := f[3]
		if strings.HasPrefix(ts, "i") { // i<n>: timestamp of the n-th aggregate of that query
			n, _ := strconv.Atoi(ts[1:])
			ctx := c.Ctx()
			agg, t, err := c.App.OracleKeeper.GetAggregateByIndex(ctx, qid, uint64(n))
			if err == nil && agg != nil {
				ts = strconv.FormatInt(t.UnixMilli(), 10)
			} else {
				ts = "12345"
			}
		}
		h.queue(op, "reqatt", a, 900000, nil, &bridgetypes.MsgRequestAttestations{Creator: a.Addr.String(), QueryId: hex.EncodeToString(qid), Timestamp: ts})
	case "disp", "evid":
		a := h.acct(f[1])
		if f[0] == "disp" {
			rep := h.reportRef(f[2], f[6:])
			cat, _ := strconv.Atoi(f[3])
			h.queue(op, "disp", a, 1500000, map[string]string{"who": f[1]}, &disputetypes.MsgProposeDispute{Creator: a.Addr.String(), Report: &rep, DisputeCategory: disputetypes.DisputeCategory(cat), Fee: coin(f[4]), PayFromBond: f[5] == "1"})
		} else {
			id, _ := strconv.ParseUint(f[2], 10, 64)
			rep := h.reportRef(f[3], f[4:])
			h.queue(op, "evid", a, 900000, nil, &disputetypes.MsgAddEvidence{CallerAddress: a.Addr.String(), DisputeId: id, Reports: []*oracletypes.MicroReport{&rep}})
		}
	case "addfee":
		a := h.acct(f[1])
		id, _ := strconv.ParseUint(f[2], 10, 64)
		h.queue(op, "addfee", a, 1500000, nil, &disputetypes.MsgAddFeeToDispute{Creator: a.Addr.String(), DisputeId: id, Amount: coin(f[3]), PayFromBond: f[4] == "1"})
	case "vote":
		a := h.acct(f[1])
		id, _ := strconv.ParseUint(f[2], 10, 64)
		ch := map[string]disputetypes.VoteEnum{"s": disputetypes.VoteEnum_VOTE_SUPPORT, "a": disputetypes.VoteEnum_VOTE_AGAINST, "i": disputetypes.VoteEnum_VOTE_INVALID}[f[3]]
		h.queue(op, "vote", a, 1500000, nil, &disputetypes.MsgVote{Voter: a.Addr.String(), Id: id, Vote: ch})
	case "wfr":
		a := h.acct(f[1])
		id, _ := strconv.ParseUint(f[3], 10, 64)
		h.queue(op, "wfr", a, 1500000, nil, &disputetypes.MsgWithdrawFeeRefund{CallerAddress: a.Addr.String(), PayerAddress: h.acct(f[2]).Addr.String(), Id: id})
	case "claim":
		a := h.acct(f[1])
		id, _ := strconv.ParseUint(f[2], 10, 64)
		h.queue(op, "claim", a, 1500000, nil, &disputetypes.MsgClaimReward{CallerAddress: a.Addr.String(), DisputeId: id})
	case "team":
		a := h.acct(f[1])
		h.queue(op, "team", a, 400000, nil, &disputetypes.MsgUpdateTeam{CurrentTeamAddress: a.Addr.String(), NewTeamAddress: h.acct(f[2]).Addr.String()})
	case "regspec":
		a := h.acct(f[1])
		w, _ := strconv.ParseUint(f[5], 10, 64)
		sp := registrytypes.DataSpec{ResponseValueType: f[3], AggregationMethod: f[4], Registrar: a.Addr.String(), ReportBlockWindow: w,
			AbiComponents: []*registrytypes.ABIComponent{{Name: "asset", FieldType: "string"}, {Name: "currency", FieldType: "string"}}}
		// "~" stands for a space and "^" for a tab in the query type (the op language splits on white space)
		qt := strings.NewReplacer("~", " ", "^", "\t").Replace(f[2])
		h.queue(op, "regspec", a, 600000, nil, &registrytypes.MsgRegisterSpec{Registrar: a.Addr.String(), QueryType: qt, Spec: sp})
	case "addq": // add a query (type, asset, currency) to the harness' query table
		sp := registrytypes.DataSpec{AbiComponents: []*registrytypes.ABIComponent{{Name: "asset", FieldType: "string"}, {Name: "currency", FieldType: "string"}}}
		b, err := sp.EncodeData(f[1], fmt.Sprintf(`["%s","%s"]`, f[2], f[3]))
		if err == nil {
			h.Queries = append(h.Queries, b)
		}
	case "gov":
		m, err := h.govMsg(f[1], f[2:], GovAuthority())
		if err != nil {
			h.Out = append(h.Out, "goverr "+err.Error())
			return nil
		}
		bz, err := c.GovSubmit(c.Vals[0].Acct, m)
		if err == nil {
			h.pending = append(h.pending, pendingTx{op: op, bytes: bz, kind: "govsubmit", info: map[string]string{"kind": f[1]}, signer: c.Vals[0].Acct.Name})
		}
	case "govvote": // vote yes with every validator on the latest proposal
		id := h.govNext - 1
		if len(f) > 1 {
			id, _ = strconv.ParseUint(f[1], 10, 64)
		}
		for i, bz := range c.GovVoteAll(id) {
			sg := ""
			if i < len(c.Vals) {
				sg = c.Vals[i].Acct.Name
			}
			h.pending = append(h.pending, pendingTx{op: op, bytes: bz, kind: "govvote", signer: sg})
		}
	case "direct":
		a := h.acct(f[1])
		auth := a.Addr.String()
		if len(f) > 2 && f[2] == "asgov" { // claim the gov authority in the field but sign as an ordinary account
			auth = GovAuthority()
			f = append(f[:2], f[3:]...)
		}
		m, err := h.govMsg(f[2], f[3:], auth)
		if err == nil {
			bz, err := c.SignTx(a, 600000, m)
			if err == nil {
				h.pending = append(h.pending, pendingTx{op: op, bytes: bz, kind: "direct", info: map[string]string{"kind": f[2], "auth": auth}, signer: a.Name})
			} else {
				// the transaction cannot even be signed for a foreign signer field: recorded as rejected-at-signing
				h.Out = append(h.Out, "direct-unsignable "+f[2])
				a.Seq = 0
			}
		}
	}
	return nil
}

// reportRef resolves R<i> to a known report, optionally altered
func (h *Hist) reportRef(s string, mut []string) oracletypes.MicroReport {
	var rep oracletypes.MicroReport
	if len(h.Reports) > 0 {
		i, _ := strconv.Atoi(strings.TrimPrefix(s, "R"))
		rep = h.Reports[i%len(h.Reports)].rep
	} else {
		rep = oracletypes.MicroReport{Reporter: h.C.Vals[0].Acct.Addr.String(), Power: 1000, QueryType: "SpotPrice", QueryId: utils.QueryIDFromData(h.Queries[0]), Value: "01", BlockNumber: 1, Timestamp: h.C.Time, AggregateMethod: "weighted-median"}
	}
	if len(mut) > 0 {
		switch mut[0] {
		case "val":
			rep.Value = rep.Value + "ff"
		case "pow":
			rep.Power = rep.Power*3 + 7
		case "fake":
			rep.BlockNumber = rep.BlockNumber + 1000
			rep.Power = 5000
		}
	}
	return rep
}

// afterBlock keeps the harness-side tables (accepted reports, gov proposal ids) up to date
func (h *Hist) afterBlock(br *BlockResult, pend []pendingTx) {
	if br.Err != "" || br.Process != "ACCEPT" {
		return
	}
	off := br.InjectedN
	ctx := h.C.Ctx()
	for i, p := range pend {
		if off+i >= len(br.Txs) {
			break
		}
		ok := br.Txs[off+i].Code == 0
		switch p.kind {
		case "govsubmit":
			if ok {
				h.govNext++
			}
		case "rep":
			if ok {
				a := h.acct(p.info["who"])
				qid := utils.QueryIDFromData(h.query(p.info["q"]))
				// read back the stored micro report (newest meta id)
				it, err := h.C.App.OracleKeeper.Reports.Indexes.Reporter.MatchExact(ctx, a.Addr.Bytes())
				if err == nil {
					keys, _ := it.PrimaryKeys()
					for _, k := range keys {
						if string(k.K1()) == string(qid) {
							r, err := h.C.App.OracleKeeper.Reports.Get(ctx, k)
							if err == nil && r.BlockNumber == uint64(br.Height) {
								h.Reports = append(h.Reports, knownReport{rep: r, meta: k.K3()})
							}
						}
					}
				}
			}
		}
	}
}

// txClasses returns for each queued tx "ok" or "rej" (and the log for diagnostics)
func txClasses(br *BlockResult, pend []pendingTx) []string {
	var out []string
	off := br.InjectedN
	for i, p := range pend {
		c := "missing"
		if off+i < len(br.Txs) {
			if br.Txs[off+i].Code == 0 {
				c = "ok"
			} else {
				c = "rej"
			}
		}
		out = append(out, p.kind+":"+c)
	}
	return out
}

func sortedKeys(m map[string]int64) []string {
	var ks []string
	for k := range m {
		ks = append(ks, k)
	}
	sort.Strings(ks)
	return ks
}
