package harness

import (
	"encoding/hex"
	"fmt"
	"strconv"
	"strings"
	"testing"
)

// family "ledgerhist" (C05): the hostile all-message histories of family "nohalt" with the pool/ledger record of family
// "slash" after every block (tips withdrawn to stake, time-based rewards, fee from stake, disputes, bridge, governance).
// family "apphash" (C01): the same histories executed twice on two fresh chains; the application hash after every block must
// be identical (any dependence on Go map iteration order, wall clock or scheduling shows up as a differing hash).
func init() {
	register(&Family{Name: "ledgerhist", Gen: genNoHaltHist, Run: runLedgerHist})
	register(&Family{Name: "apphash", Gen: genNoHaltHist, Run: runAppHashHist})
}

func chainFor(in []string) (*Chain, error) {
	nv, _ := strconv.Atoi(in[0])
	na, _ := strconv.Atoi(in[1])
	cfg := ChainCfg{NVals: nv, NAccts: na}
	if len(in) > 3 {
		if m, err := strconv.Atoi(in[3]); err == nil && m > 0 {
			cfg.MaxValidators = uint32(m)
		}
	}
	return NewChain(cfg)
}

func runLedgerHist(t *testing.T, in []string) string {
	c, err := chainFor(in)
	if err != nil {
		return "err:newchain:" + shortLog(err.Error())
	}
	defer c.Close()
	h := NewHist(c)
	h.Observe = func(hh *Hist, br *BlockResult, pend []pendingTx) {
		if br.Err != "" || br.Process != "ACCEPT" {
			hh.Out = append(hh.Out, "HALT "+shortLog(br.Err+br.Process))
			return
		}
		ds := dumpSlash(c)
		hh.Out = append(hh.Out, ds[1], ds[2], ds[3]) // P (pools against the ledger), E (escrow records), K (fee-from-stake records)
	}
	for _, op := range strings.Split(in[2], ";") {
		h.Exec(op)
		if c.Halted != "" {
			break
		}
	}
	return strings.Join(h.Out, " ;; ")
}

func runAppHashHist(t *testing.T, in []string) string {
	run := func() ([]string, string) {
		c, err := chainFor(in)
		if err != nil {
			return nil, "err:newchain"
		}
		defer c.Close()
		h := NewHist(c)
		var hashes []string
		h.Observe = func(hh *Hist, br *BlockResult, pend []pendingTx) {
			hashes = append(hashes, fmt.Sprintf("%d:%s:%s", br.Height, hex.EncodeToString(br.AppHash), strings.Join(txClasses(br, pend), ",")))
		}
		for _, op := range strings.Split(in[2], ";") {
			h.Exec(op)
			if c.Halted != "" {
				break
			}
		}
		return hashes, c.Halted
	}
	a, ha := run()
	b, hb := run()
	n := len(a)
	if len(b) < n {
		n = len(b)
	}
	for i := 0; i < n; i++ {
		if a[i] != b[i] {
			return fmt.Sprintf("differ at block %d: %s vs %s", i+1, a[i], b[i])
		}
	}
	if len(a) != len(b) || ha != hb {
		return fmt.Sprintf("differ: %d vs %d blocks, halted %q vs %q", len(a), len(b), ha, hb)
	}
	return fmt.Sprintf("equal blocks=%d", len(a))
}
