package harness

import (
	"fmt"
	"math/big"
	"os"
	"bufio"
	"strings"
)

// splitmix64: every random choice of the harness derives from VERIF_SEED through this stream.
type Rng struct{ s uint64 }

func NewRng(seed uint64) *Rng { return &Rng{s: seed*0x9E3779B97F4A7C15 + 0x1234567} }

func (r *Rng) U64() uint64 {
	r.s += 0x9E3779B97F4A7C15
	z := r.s
	z = (z ^ (z >> 30)) * 0xBF58476D1CE4E5B9
	z = (z ^ (z >> 27)) * 0x94D049BB133111EB
	return z ^ (z >> 31)
}

// Intn returns a value in [0,n)
func (r *Rng) Intn(n int) int {
	if n <= 0 {
		return 0
	}
	return int(r.U64() % uint64(n))
}

func (r *Rng) Range(lo, hi int64) int64 { // inclusive
	if hi <= lo {
		return lo
	}
	return lo + int64(r.U64()%uint64(hi-lo+1))
}

func (r *Rng) Bool() bool { return r.U64()&1 == 1 }

// Chance returns true with probability num/den
func (r *Rng) Chance(num, den int) bool { return r.Intn(den) < num }

func (r *Rng) Pick(xs ...int64) int64 { return xs[r.Intn(len(xs))] }

// BigBelow returns a uniform big integer in [0, 2^bits)
func (r *Rng) BigBits(bits int) *big.Int {
	b := new(big.Int)
	for i := 0; i < (bits+63)/64; i++ {
		b.Lsh(b, 64)
		b.Or(b, new(big.Int).SetUint64(r.U64()))
	}
	m := new(big.Int).Lsh(big.NewInt(1), uint(bits))
	return b.Mod(b, m)
}

// Out is the line sink (one canonical line per case).
type Out struct {
	w     *bufio.Writer
	f     *os.File
	Count int
}

func NewOut(path string) (*Out, error) {
	f, err := os.Create(path)
	if err != nil {
		return nil, err
	}
	return &Out{w: bufio.NewWriterSize(f, 1<<20), f: f}, nil
}

func (o *Out) Line(fields ...string) {
	o.w.WriteString(strings.Join(fields, "|"))
	o.w.WriteByte('\n')
	o.Count++
}

func (o *Out) Linef(format string, a ...any) { o.Line(fmt.Sprintf(format, a...)) }

func (o *Out) Close() { o.w.Flush(); o.f.Close() }

func bigOf(v int64) *big.Int { return big.NewInt(v) }

func (r *Rng) PickS(xs ...string) string { return xs[r.Intn(len(xs))] }
