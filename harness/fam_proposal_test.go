package harness

import (
	"encoding/hex"
	"encoding/json"
	"fmt"
	"sort"
	"strconv"
	"strings"
	"testing"
	"time"

	cmtproto "github.com/cometbft/cometbft/proto/tendermint/types"
	ethcrypto "github.com/ethereum/go-ethereum/crypto"
	"github.com/tellor-io/layer/app"
)

// family "proposal" (C17): vote-extension payloads and injected-proposal mutations on the real handlers.
//   input : nvals | steps separated by ';'
//      step = blk <dt_ms> [ext:<val>:<kind>]… [tamper:<kind>] [absent:<val>]   plus the ordinary ops of hist_test.go
//   output: per block
//      P h=<h> prep=<ok|panic…> proc=<ACCEPT|REJECT|panic…> err=<…> tamper=<kind|-> changed=<0|1> exts=<val:kind,…>
//      X h=<h> evm=<operator=addr,…>  (OperatorToEVMAddressMap after the block)  sigs=<ts:idx=sighex,…> (non-empty valset signature slots)
//   the expected EVM address of every validator (from its operator key) is printed once:  K <operator>=<addr>,…
func init() {
	register(&Family{Name: "proposal", Gen: genProposalHist, Run: runProposalHist})
}

func mutateExt(r *Rng, kind string, honest []byte, c *Chain) []byte {
	var ve app.BridgeVoteExtension
	_ = json.Unmarshal(honest, &ve)
	switch {
	case kind == "empty":
		return []byte("{}")
	case kind == "null":
		return []byte("null")
	case kind == "nullfields":
		return []byte(`{"OracleAttestations":null,"InitialSignature":{"SignatureA":null,"SignatureB":null},"ValsetSignature":{"Signature":null,"Timestamp":0}}`)
	case kind == "garbage":
		return rndBytes(r, 1+r.Intn(40))
	case kind == "trunc":
		if len(honest) > 4 {
			return honest[:len(honest)/2]
		}
		return []byte("{")
	case kind == "wrongshape":
		return []byte(`{"OracleAttestations":"x","InitialSignature":7}`)
	case strings.HasPrefix(kind, "initsig"):
		n, _ := strconv.Atoi(kind[7:])
		ve.InitialSignature.SignatureA = rndBytes(r, n)
		ve.InitialSignature.SignatureB = rndBytes(r, n)
	case strings.HasPrefix(kind, "valsig"):
		n, _ := strconv.Atoi(kind[6:])
		ve.ValsetSignature.Signature = rndBytes(r, n)
		ctx := c.Ctx()
		if idx, err := c.App.BridgeKeeper.GetLatestCheckpointIndex(ctx); err == nil {
			if ts, err := c.App.BridgeKeeper.GetValidatorTimestampByIdxFromStorage(ctx, idx); err == nil {
				ve.ValsetSignature.Timestamp = ts.Timestamp
			}
		}
	case kind == "valsigbadts":
		ve.ValsetSignature.Signature = rndBytes(r, 64)
		ve.ValsetSignature.Timestamp = 12345
	case kind == "extraatt":
		ve.OracleAttestations = append(ve.OracleAttestations, app.OracleAttestation{Snapshot: rndBytes(r, 32), Attestation: rndBytes(r, 64)})
	case kind == "dupatt":
		if len(ve.OracleAttestations) > 0 {
			ve.OracleAttestations = append(ve.OracleAttestations, ve.OracleAttestations[0])
		}
	case kind == "foreignatt":
		if len(ve.OracleAttestations) > 0 {
			ve.OracleAttestations[0].Snapshot = rndBytes(r, 32)
		} else {
			ve.OracleAttestations = []app.OracleAttestation{{Snapshot: rndBytes(r, 32), Attestation: rndBytes(r, 64)}}
		}
	case kind == "emptyatt":
		ve.OracleAttestations = []app.OracleAttestation{{Snapshot: nil, Attestation: nil}}
	}
	bz, _ := json.Marshal(ve)
	return bz
}

// tamperInjected mutates the injected transaction (Txs[0]); returns the new bytes and whether the bridge data differs
// opOfCons resolves a consensus address to the validator's operator address (for forged entries); set by the runner
var opOfCons func(cons []byte) string

func tamperInjected(r *Rng, kind string, inj []byte) ([]byte, bool) {
	var tx app.VoteExtTx
	if err := json.Unmarshal(inj, &tx); err != nil {
		return inj, false
	}
	changed := false
	flip := func(s string) string {
		if s == "" {
			return "00"
		}
		b := []byte(s)
		if b[len(b)-1] == '0' {
			b[len(b)-1] = '1'
		} else {
			b[len(b)-1] = '0'
		}
		return string(b)
	}
	switch kind {
	case "nil_ext_valsig", "nil_ext_att", "nil_ext_init":
		// a deviating proposer relabels one vote outside the signed > 2/3 as nil, attaches an unsigned forged extension to it
		// and lists the forged data under that validator, exactly as a derivation that ignored the vote flag would
		votes := tx.ExtendedCommitInfo.Votes
		if len(votes) >= 4 && opOfCons != nil {
			i := len(votes) - 1 // the weakest voter: the others still hold more than 2/3
			op := opOfCons(votes[i].Validator.Address)
			if op != "" {
				ve := app.BridgeVoteExtension{}
				switch kind {
				case "nil_ext_valsig":
					ve.ValsetSignature = app.BridgeValsetSignature{Signature: rndBytes(r, 65), Timestamp: 1700000000000}
					tx.ValsetSigs.OperatorAddresses = append(tx.ValsetSigs.OperatorAddresses, op)
					tx.ValsetSigs.Timestamps = append(tx.ValsetSigs.Timestamps, 1700000000000)
					tx.ValsetSigs.Signatures = append(tx.ValsetSigs.Signatures, hex.EncodeToString(ve.ValsetSignature.Signature))
				case "nil_ext_att":
					a := app.OracleAttestation{Snapshot: rndBytes(r, 32), Attestation: rndBytes(r, 65)}
					ve.OracleAttestations = []app.OracleAttestation{a}
					tx.OracleAttestations.OperatorAddresses = append(tx.OracleAttestations.OperatorAddresses, op)
					tx.OracleAttestations.Attestations = append(tx.OracleAttestations.Attestations, a.Attestation)
					tx.OracleAttestations.Snapshots = append(tx.OracleAttestations.Snapshots, a.Snapshot)
				default:
					ve.ValsetSignature = app.BridgeValsetSignature{Signature: rndBytes(r, 64), Timestamp: 1}
					tx.ValsetSigs.OperatorAddresses = append(tx.ValsetSigs.OperatorAddresses, op)
					tx.ValsetSigs.Timestamps = append(tx.ValsetSigs.Timestamps, 1)
					tx.ValsetSigs.Signatures = append(tx.ValsetSigs.Signatures, hex.EncodeToString(ve.ValsetSignature.Signature))
				}
				bz, _ := json.Marshal(ve)
				votes[i].BlockIdFlag = cmtproto.BlockIDFlagNil
				votes[i].VoteExtension = bz
				votes[i].ExtensionSignature = nil
				changed = true
			}
		}
	case "op_drop":
		if n := len(tx.OpAndEVMAddrs.OperatorAddresses); n > 0 {
			tx.OpAndEVMAddrs.OperatorAddresses = tx.OpAndEVMAddrs.OperatorAddresses[:n-1]
			tx.OpAndEVMAddrs.EVMAddresses = tx.OpAndEVMAddrs.EVMAddresses[:n-1]
			changed = true
		}
	case "op_dup":
		if n := len(tx.OpAndEVMAddrs.OperatorAddresses); n > 0 {
			tx.OpAndEVMAddrs.OperatorAddresses = append(tx.OpAndEVMAddrs.OperatorAddresses, tx.OpAndEVMAddrs.OperatorAddresses[0])
			tx.OpAndEVMAddrs.EVMAddresses = append(tx.OpAndEVMAddrs.EVMAddresses, tx.OpAndEVMAddrs.EVMAddresses[0])
			changed = true
		}
	case "op_add":
		tx.OpAndEVMAddrs.OperatorAddresses = append(tx.OpAndEVMAddrs.OperatorAddresses, "tellorvaloper1qqqqqqqqqqqqqqqqqqqqqqqqqqqqqqqq5whsvh")
		tx.OpAndEVMAddrs.EVMAddresses = append(tx.OpAndEVMAddrs.EVMAddresses, "0x00000000000000000000000000000000000000Aa")
		changed = true
	case "evm_change":
		if n := len(tx.OpAndEVMAddrs.EVMAddresses); n > 0 {
			tx.OpAndEVMAddrs.EVMAddresses[0] = flip(tx.OpAndEVMAddrs.EVMAddresses[0])
			changed = true
		}
	case "op_swap":
		if n := len(tx.OpAndEVMAddrs.OperatorAddresses); n > 1 {
			tx.OpAndEVMAddrs.OperatorAddresses[0], tx.OpAndEVMAddrs.OperatorAddresses[1] = tx.OpAndEVMAddrs.OperatorAddresses[1], tx.OpAndEVMAddrs.OperatorAddresses[0]
			changed = true
		}
	case "vs_sig_change":
		if n := len(tx.ValsetSigs.Signatures); n > 0 {
			tx.ValsetSigs.Signatures[0] = flip(tx.ValsetSigs.Signatures[0])
			changed = true
		}
	case "vs_ts_change":
		if n := len(tx.ValsetSigs.Timestamps); n > 0 {
			tx.ValsetSigs.Timestamps[0]++
			changed = true
		}
	case "vs_op_change":
		if n := len(tx.ValsetSigs.OperatorAddresses); n > 1 {
			tx.ValsetSigs.OperatorAddresses[0] = tx.ValsetSigs.OperatorAddresses[1]
			changed = true
		}
	case "vs_add":
		tx.ValsetSigs.OperatorAddresses = append(tx.ValsetSigs.OperatorAddresses, "tellorvaloper1qqqqqqqqqqqqqqqqqqqqqqqqqqqqqqqq5whsvh")
		tx.ValsetSigs.Timestamps = append(tx.ValsetSigs.Timestamps, 1)
		tx.ValsetSigs.Signatures = append(tx.ValsetSigs.Signatures, "abcd")
		changed = true
	case "att_change":
		if n := len(tx.OracleAttestations.Attestations); n > 0 {
			a := append([]byte{}, tx.OracleAttestations.Attestations[0]...)
			a = append(a, 1)
			tx.OracleAttestations.Attestations[0] = a
			changed = true
		}
	case "att_drop":
		if n := len(tx.OracleAttestations.Attestations); n > 0 {
			tx.OracleAttestations.Attestations = tx.OracleAttestations.Attestations[:n-1]
			tx.OracleAttestations.Snapshots = tx.OracleAttestations.Snapshots[:n-1]
			tx.OracleAttestations.OperatorAddresses = tx.OracleAttestations.OperatorAddresses[:n-1]
			changed = true
		}
	case "att_add":
		tx.OracleAttestations.Attestations = append(tx.OracleAttestations.Attestations, []byte{1, 2, 3})
		tx.OracleAttestations.Snapshots = append(tx.OracleAttestations.Snapshots, []byte{4, 5, 6})
		tx.OracleAttestations.OperatorAddresses = append(tx.OracleAttestations.OperatorAddresses, "tellorvaloper1qqqqqqqqqqqqqqqqqqqqqqqqqqqqqqqq5whsvh")
		changed = true
	case "snap_change":
		if n := len(tx.OracleAttestations.Snapshots); n > 0 {
			tx.OracleAttestations.Snapshots[0] = append(append([]byte{}, tx.OracleAttestations.Snapshots[0]...), 9)
			changed = true
		}
	case "commit_ext_change":
		for i := range tx.ExtendedCommitInfo.Votes {
			if len(tx.ExtendedCommitInfo.Votes[i].VoteExtension) > 0 {
				tx.ExtendedCommitInfo.Votes[i].VoteExtension = append(tx.ExtendedCommitInfo.Votes[i].VoteExtension, ' ')
				changed = true
				break
			}
		}
	case "garbage":
		return rndBytes(r, 30), true
	case "height":
		tx.BlockHeight++
	}
	bz, _ := json.Marshal(tx)
	return bz, changed
}

func evmAddrOfKey(a *Acct) string {
	pk, err := ethcrypto.ToECDSA(a.Priv.Key)
	if err != nil {
		return ""
	}
	return strings.ToLower(ethcrypto.PubkeyToAddress(pk.PublicKey).Hex()[2:])
}

func dumpBridge(c *Chain) string {
	ctx := c.Ctx()
	var evm []string
	if it, err := c.App.BridgeKeeper.OperatorToEVMAddressMap.Iterate(ctx, nil); err == nil {
		for ; it.Valid(); it.Next() {
			kv, _ := it.KeyValue()
			evm = append(evm, kv.Key+"="+hex.EncodeToString(kv.Value.EVMAddress))
		}
		it.Close()
	}
	var sigs []string
	if it, err := c.App.BridgeKeeper.BridgeValsetSignaturesMap.Iterate(ctx, nil); err == nil {
		for ; it.Valid(); it.Next() {
			kv, _ := it.KeyValue()
			for i, s := range kv.Value.Signatures {
				if len(s) > 0 {
					sigs = append(sigs, fmt.Sprintf("%d:%d=%s", kv.Key, i, hex.EncodeToString(s)))
				}
			}
		}
		it.Close()
	}
	sort.Strings(evm)
	// the validator set each checkpoint's signature slots refer to (the previous checkpoint's set; the own set for index 0)
	var prevs []string
	if it, err := c.App.BridgeKeeper.ValsetTimestampToIdxMap.Iterate(ctx, nil); err == nil {
		for ; it.Valid(); it.Next() {
			kv, _ := it.KeyValue()
			ts := kv.Key
			idx := kv.Value.Index
			setTs := ts
			if idx > 0 {
				if p, err := c.App.BridgeKeeper.ValidatorCheckpointIdxMap.Get(ctx, idx-1); err == nil {
					setTs = p.Timestamp
				}
			}
			if vs, err := c.App.BridgeKeeper.BridgeValsetByTimestampMap.Get(ctx, setTs); err == nil {
				var as []string
				for _, v := range vs.BridgeValidatorSet {
					as = append(as, hex.EncodeToString(v.EthereumAddress))
				}
				prevs = append(prevs, fmt.Sprintf("%d:%d:%s", ts, idx, strings.Join(as, "/")))
			}
		}
		it.Close()
	}
	// what every validator sent in the vote extensions of this height (reaches state in the next block's PreBlocker)
	var sent []string
	for _, v := range c.lastExt {
		var ve app.BridgeVoteExtension
		if len(v.VoteExtension) == 0 || json.Unmarshal(v.VoteExtension, &ve) != nil {
			continue
		}
		op := ""
		for _, val := range c.Vals {
			if string(val.ConsAddr) == string(v.Validator.Address) {
				op = val.ValAddr.String()
			}
		}
		if len(ve.ValsetSignature.Signature) > 0 {
			sent = append(sent, fmt.Sprintf("%s:%d:%s", op, ve.ValsetSignature.Timestamp, hex.EncodeToString(ve.ValsetSignature.Signature)))
		}
	}
	// oracle attestations: stored slots per snapshot, the validator set of the checkpoint each snapshot was taken under,
	// and what every validator sent at this height
	cpTs := map[string]uint64{}
	if it, err := c.App.BridgeKeeper.ValidatorCheckpointParamsMap.Iterate(ctx, nil); err == nil {
		for ; it.Valid(); it.Next() {
			kv, _ := it.KeyValue()
			cpTs[string(kv.Value.Checkpoint)] = kv.Key
		}
		it.Close()
	}
	var atts, aprev, asent []string
	if it, err := c.App.BridgeKeeper.SnapshotToAttestationsMap.Iterate(ctx, nil); err == nil {
		for ; it.Valid(); it.Next() {
			kv, _ := it.KeyValue()
			sn := hex.EncodeToString(kv.Key)
			for i, a := range kv.Value.Attestations {
				if len(a) > 0 {
					atts = append(atts, fmt.Sprintf("%s:%d=%s", sn, i, hex.EncodeToString(a)))
				}
			}
			if d, err := c.App.BridgeKeeper.AttestSnapshotDataMap.Get(ctx, kv.Key); err == nil {
				if ts, ok := cpTs[string(d.ValidatorCheckpoint)]; ok {
					if vs, err := c.App.BridgeKeeper.BridgeValsetByTimestampMap.Get(ctx, ts); err == nil {
						var as []string
						for _, v := range vs.BridgeValidatorSet {
							as = append(as, hex.EncodeToString(v.EthereumAddress))
						}
						aprev = append(aprev, fmt.Sprintf("%s:%d:%s", sn, len(kv.Value.Attestations), strings.Join(as, "/")))
					}
				}
			}
		}
		it.Close()
	}
	for _, v := range c.lastExt {
		var ve app.BridgeVoteExtension
		if len(v.VoteExtension) == 0 || json.Unmarshal(v.VoteExtension, &ve) != nil {
			continue
		}
		op := ""
		for _, val := range c.Vals {
			if string(val.ConsAddr) == string(v.Validator.Address) {
				op = val.ValAddr.String()
			}
		}
		for _, a := range ve.OracleAttestations {
			asent = append(asent, fmt.Sprintf("%s:%s:%s", op, hex.EncodeToString(a.Snapshot), hex.EncodeToString(a.Attestation)))
		}
	}
	savedS := ""
	if bv, err := c.App.BridgeKeeper.BridgeValset.Get(ctx); err == nil {
		var as []string
		for _, v := range bv.BridgeValidatorSet {
			as = append(as, fmt.Sprintf("%s@%d", hex.EncodeToString(v.EthereumAddress)[:10], v.Power))
		}
		savedS = strings.Join(as, "/")
	}
	return fmt.Sprintf("saved=%s evm=%s sigs=%s prevs=%s sent=%s atts=%s aprev=%s asent=%s", savedS, strings.Join(evm, ","), strings.Join(sigs, ","), strings.Join(prevs, ","), strings.Join(sent, ","),
		strings.Join(atts, ","), strings.Join(aprev, ","), strings.Join(asent, ","))
}

func runProposalHist(t *testing.T, in []string) string {
	nv, _ := strconv.Atoi(in[0])
	c, err := NewChain(ChainCfg{NVals: nv, NAccts: 2})
	if err != nil {
		return "err:newchain:" + shortLog(err.Error())
	}
	defer c.Close()
	h := NewHist(c)
	opOfCons = func(cons []byte) string {
		for _, v := range c.Vals {
			if string(v.ConsAddr) == string(cons) {
				return v.ValAddr.String()
			}
		}
		return ""
	}
	r := NewRng(uint64(len(in[1])))
	var ks []string
	for _, v := range c.Vals {
		ks = append(ks, v.ValAddr.String()+"="+evmAddrOfKey(v.Acct))
	}
	h.Out = append(h.Out, "K "+strings.Join(ks, ","))
	for _, step := range strings.Split(in[1], ";") {
		f := strings.Fields(step)
		if len(f) == 0 {
			continue
		}
		if f[0] != "blk" {
			nvals := len(c.Vals)
			h.Exec(step)
			if len(c.Vals) != nvals { // a validator was created: its bridge key joins the table of known keys
				var ks []string
				for _, v := range c.Vals {
					ks = append(ks, v.ValAddr.String()+"="+evmAddrOfKey(v.Acct))
				}
				h.Out = append(h.Out, "K "+strings.Join(ks, ","))
			}
			continue
		}
		ms, _ := strconv.ParseInt(f[1], 10, 64)
		over := map[string]string{}
		absent := map[string]bool{}
		tamper := "-"
		for _, m := range f[2:] {
			p := strings.Split(m, ":")
			switch p[0] {
			case "ext":
				over[p[1]] = p[2]
			case "absent":
				absent[p[1]] = true
			case "tamper":
				tamper = p[1]
			}
		}
		var txs [][]byte
		for _, p := range h.pending {
			txs = append(txs, p.bytes)
		}
		changed := false
		opts := BlockOpts{Dt: time.Duration(ms) * time.Millisecond, Txs: txs, Absent: absent}
		var extKinds []string
		if len(over) > 0 {
			opts.Override = func(v *Val, honest []byte) []byte {
				if k, ok := over[v.Acct.Name]; ok {
					extKinds = append(extKinds, v.Acct.Name+":"+k)
					return mutateExt(r, k, honest, c)
				}
				return honest
			}
		}
		// the commit and the state the proposal is derived from (for the model's derivation)
		dvotes := describeCommit(c)
		var honestInj []byte
		opts.TamperInj = func(inj []byte) []byte {
			honestInj = append([]byte{}, inj...)
			if tamper == "-" {
				return inj
			}
			out, ch := tamperInjected(r, tamper, inj)
			changed = ch
			return out
		}
		br := c.NextBlock(opts)
		if honestInj != nil {
			h.Out = append(h.Out, fmt.Sprintf("D votes=%s %s", dvotes, describeInjected(honestInj)))
		}
		ch := 0
		if changed {
			ch = 1
		}
		h.Out = append(h.Out, fmt.Sprintf("P h=%d prep=%s proc=%s err=%s tamper=%s changed=%d exts=%s", br.Height, shortLog(br.Prepare), shortLog(br.Process), shortLog(br.Err), tamper, ch, strings.Join(extKinds, ",")))
		if br.Process == "ACCEPT" && br.Err == "" {
			pend := h.pending
			h.pending = nil
			h.afterBlock(&br, pend)
			h.Out = append(h.Out, fmt.Sprintf("X h=%d %s", br.Height, dumpBridge(c)))
		} else if tamper != "-" || strings.HasPrefix(br.Process, "REJECT") {
			// a rejected proposal: nothing was executed; pending txs stay for the next (honest) proposal
			for _, a := range c.byName {
				a.Seq = 0
			}
			// re-sign pending txs is not needed: sequences were not consumed
		}
		if c.Halted != "" {
			break
		}
	}
	return strings.Join(h.Out, " ;; ")
}

func genProposalHist(r *Rng, i int, tier string) []string {
	nv := 1 + r.Intn(5)
	var steps []string
	add := func(s string, a ...any) { steps = append(steps, fmt.Sprintf(s, a...)) }
	extKinds := []string{"empty", "null", "nullfields", "garbage", "trunc", "wrongshape", "initsig0", "initsig1", "initsig63", "initsig64", "initsig65", "initsig66",
		"valsig0", "valsig63", "valsig64", "valsig65", "valsig66", "valsigbadts", "extraatt", "dupatt", "foreignatt", "emptyatt"}
	tampers := []string{"nil_ext_valsig", "nil_ext_att", "nil_ext_valsig", "op_drop", "op_dup", "op_add", "evm_change", "op_swap", "vs_sig_change", "vs_ts_change", "vs_op_change", "vs_add", "att_change", "att_drop", "att_add", "snap_change", "commit_ext_change", "garbage", "height"}
	add("blk 1000")
	// the first blocks decide who registers an EVM address: hostile extensions early keep some validators unregistered
	nblocks := 12 + r.Intn(20)
	add("mkrep v0 0 1000000")
	// a newcomer (1 in 3): an account creates a validator with less than 5 % of the power, so the bridge set is not re-saved; it
	// registers an EVM address, votes, and attests snapshots whose validator set it is not a member of
	newcomerAt := -1
	if r.Chance(1, 3) {
		newcomerAt = 2 + r.Intn(4)
	}
	for b := 0; b < nblocks; b++ {
		if b == newcomerAt {
			add("mkval a2 %d", int64(nv)*1e9*r.Pick(1, 2, 3)/100)
		}
		if r.Chance(1, 4) {
			add("rep v0 q%d %064x", r.Intn(3), r.Range(1, 1e9))
		}
		if r.Chance(1, 8) {
			add("reqatt a0 q%d i0", r.Intn(3))
		}
		if r.Chance(1, 8) { // a burst: several snapshots at one height, so that one vote carries several attestations
			for j := 2 + r.Intn(3); j > 0; j-- {
				add("reqatt a%d q%d i0", r.Intn(2), r.Intn(3))
			}
		}
		if r.Chance(1, 6) { // a new checkpoint (valset signatures): power shift of >= 5 % over two tracking periods, or staleness
			if r.Chance(1, 2) {
				add("blk %d", 15*86400000)
			} else {
				amt := int64(nv) * 1e9 * 4 / 100
				add("del a1 v%d %d", r.Intn(nv), amt)
				add("blk %d", 12*3600*1000+1000)
				add("del a1 v%d %d", r.Intn(nv), amt)
			}
		}
		s := fmt.Sprintf("blk %d", r.Pick(1000, 1500, 60000))
		if r.Chance(1, 2) {
			n := 1 + r.Intn(2)
			for j := 0; j < n; j++ {
				s += fmt.Sprintf(" ext:v%d:%s", r.Intn(nv), extKinds[r.Intn(len(extKinds))])
			}
		}
		if r.Chance(1, 10) && nv > 2 {
			s += fmt.Sprintf(" absent:v%d", r.Intn(nv))
		}
		if r.Chance(1, 4) && b > 1 {
			s += " tamper:" + tampers[r.Intn(len(tampers))]
		}
		add("%s", s)
	}
	add("blk 1000")
	add("blk 1000")
	return []string{fmt.Sprint(nv), strings.Join(steps, ";")}
}


// describeCommit renders, for every vote of the commit the next proposal is built from, what the derivation reads:
//   flag(c|a):operator|-:hasEvm(0|1):ext  with ext = "-" (not JSON of the expected shape) or
//   sigA/sigB/rec/valsetSig/valsetTs/atts ; rec = address recovered from the two initial signatures ("-" = error, "!" = not
//   attempted: a signature shorter than 64 bytes); atts = snapshot.attestation+… (hex)
func describeCommit(c *Chain) string {
	ctx := c.Ctx()
	hx := func(b []byte) string {
		if b == nil {
			return "nil"
		}
		return "x" + hex.EncodeToString(b)
	}
	var vs []string
	for _, v := range c.lastExt {
		flag := "a"
		if v.BlockIdFlag == cmtproto.BlockIDFlagCommit {
			flag = "c"
		}
		op, has := "-", "0"
		if val, err := c.App.StakingKeeper.GetValidatorByConsAddr(ctx, v.Validator.Address); err == nil {
			op = val.OperatorAddress
			if _, err := c.App.BridgeKeeper.GetEVMAddressByOperator(ctx, op); err == nil {
				has = "1"
			}
		}
		ext := "-"
		var ve app.BridgeVoteExtension
		if json.Unmarshal(v.VoteExtension, &ve) == nil {
			rec := "!"
			a, b := ve.InitialSignature.SignatureA, ve.InitialSignature.SignatureB
			if len(a) >= 64 && len(b) >= 64 {
				if addr, err := c.App.BridgeKeeper.EVMAddressFromSignatures(ctx, a, b); err == nil {
					rec = addr.Hex()
				} else {
					rec = "-"
				}
			}
			var as []string
			for _, at := range ve.OracleAttestations {
				as = append(as, hx(at.Snapshot)+"."+hx(at.Attestation))
			}
			ext = fmt.Sprintf("%s/%s/%s/%s/%d/%s", hx(a), hx(b), rec, hx(ve.ValsetSignature.Signature), ve.ValsetSignature.Timestamp, strings.Join(as, "+"))
		}
		vs = append(vs, fmt.Sprintf("%s:%s:%s:%s", flag, op, has, ext))
	}
	return strings.Join(vs, ",")
}

// describeInjected renders the lists of the injected transaction, keeping nil (null) and empty ([]) apart
func describeInjected(inj []byte) string {
	var top map[string]json.RawMessage
	if json.Unmarshal(inj, &top) != nil {
		return "inj=unparsable"
	}
	list := func(section, field, kind string) string {
		var sec map[string]json.RawMessage
		if json.Unmarshal(top[section], &sec) != nil {
			return "?"
		}
		raw := strings.TrimSpace(string(sec[field]))
		if raw == "null" || raw == "" {
			return "null"
		}
		var items []string
		switch kind {
		case "str":
			var l []string
			if json.Unmarshal(sec[field], &l) != nil {
				return "?"
			}
			items = l
		case "int":
			var l []int64
			if json.Unmarshal(sec[field], &l) != nil {
				return "?"
			}
			for _, x := range l {
				items = append(items, fmt.Sprint(x))
			}
		case "bytes":
			var l [][]byte
			if json.Unmarshal(sec[field], &l) != nil {
				return "?"
			}
			for _, x := range l {
				if x == nil {
					items = append(items, "nil")
				} else {
					items = append(items, "x"+hex.EncodeToString(x))
				}
			}
		}
		return "[" + strings.Join(items, ";") + "]"
	}
	return fmt.Sprintf("iops=%s ievms=%s vops=%s vtss=%s vsigs=%s aops=%s aatts=%s asnaps=%s",
		list("op_and_evm_addrs", "operator_addresses", "str"), list("op_and_evm_addrs", "evm_addresses", "str"),
		list("valset_sigs", "operator_addresses", "str"), list("valset_sigs", "timestamps", "int"), list("valset_sigs", "signatures", "str"),
		list("oracle_attestations", "operator_addresses", "str"), list("oracle_attestations", "attestations", "bytes"), list("oracle_attestations", "snapshots", "bytes"))
}
