package harness

import (
	"encoding/hex"
	"fmt"
	"sort"
	"strconv"
	"strings"
	"testing"

	"github.com/stretchr/testify/mock"
	keepertest "github.com/tellor-io/layer/testutil/keeper"
	oraclekeeper "github.com/tellor-io/layer/x/oracle/keeper"
	oracletypes "github.com/tellor-io/layer/x/oracle/types"
	reportertypes "github.com/tellor-io/layer/x/reporter/types"

	"cosmossdk.io/collections"
	"cosmossdk.io/math"

	sdk "github.com/cosmos/cosmos-sdk/types"
)

// family "calc" : CalculateRewardAmount(reporterPower, reportsCount, totalPower, reward)
//   input : rp | cnt | tp | reward          output: raw LegacyDec integer (value * 10^18)
// family "alloc": AllocateRewards over generated aggregates; the DivvyingTips calls are captured from the mock
//   input : reward | aggregates separated by ';', each  <qid>=<addr>:<power>:<block>,<addr>:<power>:<block>
//   output: calls in order  addr:amountRaw:qid:height  joined by ','   (then "/send:<amount>" if the bank send happened)
// family "divvy": DivvyingTips on the real reporter keeper store
//   input : reporter | rateRaw | rewardRaw | total | origins  deleg:validator:amount,…
//   output: SelectorTips afterwards  deleg:raw  sorted by delegator, joined by ','
func init() {
	register(&Family{Name: "calc", Gen: genCalc, Run: runCalc})
	register(&Family{Name: "alloc", Gen: genAlloc, Run: runAlloc})
	register(&Family{Name: "divvy", Gen: genDivvy, Run: runDivvy})
	// "allocrep": the same allocation executed ALLOC_REPEATS times in one process (Go re-randomises map iteration on
	// every range statement); output = the distinct call lists joined by " || " — one iff deterministic
	register(&Family{Name: "allocrep", Gen: genAllocRep, Run: runAllocRep})
}

func decRaw(d math.LegacyDec) string { return d.BigInt().String() }

func genCalc(r *Rng, i int, tier string) []string {
	tp := uint64(r.Range(1, 1e12))
	if r.Chance(1, 4) {
		tp = uint64(r.Range(1, 50))
	}
	rp := uint64(r.Range(0, int64(tp)))
	cnt := uint64(r.Range(1, 3))
	reward := r.Pick(1, 2, 3, 999, 1000, 1e6, 1e15, r.Range(1, 1e15))
	return []string{fmt.Sprint(rp), fmt.Sprint(cnt), fmt.Sprint(tp), fmt.Sprint(reward)}
}

func runCalc(t *testing.T, in []string) string {
	rp, _ := strconv.ParseUint(in[0], 10, 64)
	cnt, _ := strconv.ParseUint(in[1], 10, 64)
	tp, _ := strconv.ParseUint(in[2], 10, 64)
	rw, _ := math.NewIntFromString(in[3])
	return decRaw(oraclekeeper.CalculateRewardAmount(rp, cnt, tp, rw))
}

func addrOf(i int) string {
	b := make([]byte, 20)
	b[0] = byte(i*37 + 11)
	b[1] = byte(i)
	b[19] = byte(i * 5)
	return sdk.AccAddress(b).String()
}

func genAlloc(r *Rng, i int, tier string) []string {
	nRep := 1 + r.Intn(8)
	if r.Chance(1, 8) {
		nRep = 1 + r.Intn(30)
	}
	nAgg := 1 + r.Intn(3)
	same := r.Chance(1, 2) // same power in every aggregate
	powers := make([]uint64, nRep)
	for j := range powers {
		powers[j] = uint64(r.Pick(1, 1, 2, 3, 10, r.Range(1, 1000), r.Range(1, 1e12)))
	}
	var aggs []string
	for a := 0; a < nAgg; a++ {
		var reps []string
		for j := 0; j < nRep; j++ {
			if a > 0 && r.Chance(1, 3) {
				continue
			}
			p := powers[j]
			if !same && r.Chance(1, 2) {
				p = uint64(r.Range(1, 1000))
			}
			reps = append(reps, fmt.Sprintf("%s:%d:%d", addrOf(j), p, 100+a))
		}
		if len(reps) == 0 {
			reps = append(reps, fmt.Sprintf("%s:%d:%d", addrOf(0), powers[0], 100+a))
		}
		aggs = append(aggs, fmt.Sprintf("q%d=%s", a, strings.Join(reps, ",")))
	}
	reward := r.Pick(0, 1, 2, 3, 7, 999, 1000, 1e6, 1e15, r.Range(1, 1e15))
	return []string{fmt.Sprint(reward), strings.Join(aggs, ";")}
}

func runAlloc(t *testing.T, in []string) string {
	k, rk, _, _, bk, ctx := keepertest.OracleKeeper(t)
	reward, _ := math.NewIntFromString(in[0])
	var aggs []*oracletypes.Aggregate
	for _, a := range strings.Split(in[1], ";") {
		kv := strings.SplitN(a, "=", 2)
		agg := &oracletypes.Aggregate{QueryId: []byte(kv[0])}
		for _, rp := range strings.Split(kv[1], ",") {
			p := strings.Split(rp, ":")
			pw, _ := strconv.ParseUint(p[1], 10, 64)
			bl, _ := strconv.ParseUint(p[2], 10, 64)
			agg.Reporters = append(agg.Reporters, &oracletypes.AggregateReporter{Reporter: p[0], Power: pw, BlockNumber: bl})
		}
		aggs = append(aggs, agg)
	}
	var calls []string
	rk.On("DivvyingTips", mock.Anything, mock.Anything, mock.Anything, mock.Anything, mock.Anything).Run(func(args mock.Arguments) {
		addr := args.Get(1).(sdk.AccAddress)
		amt := args.Get(2).(math.LegacyDec)
		qid := args.Get(3).([]byte)
		h := args.Get(4).(uint64)
		calls = append(calls, fmt.Sprintf("%s:%s:%s:%d", addr.String(), decRaw(amt), string(qid), h))
	}).Return(nil)
	sent := ""
	bk.On("SendCoinsFromModuleToModule", mock.Anything, mock.Anything, mock.Anything, mock.Anything).Run(func(args mock.Arguments) {
		coins := args.Get(3).(sdk.Coins)
		sent = "/send:" + coins[0].Amount.String()
	}).Return(nil)
	if err := k.AllocateRewards(ctx, aggs, reward, "oracle"); err != nil {
		return "err"
	}
	return strings.Join(calls, ",") + sent
}

func genDivvy(r *Rng, i int, tier string) []string {
	nSel := 1 + r.Intn(5)
	reporter := "s0"
	var origins []string
	total := int64(0)
	ownOrigins := r.Intn(4) // 0..3 origins of the reporter itself
	if r.Chance(1, 2) {
		ownOrigins = 1
	}
	add := func(del string) {
		amt := r.Pick(1, 999999, 1000000, r.Range(1, 1e7), r.Range(1, 1e12))
		total += amt
		origins = append(origins, fmt.Sprintf("%s:v%d:%d", del, r.Intn(3), amt))
	}
	for j := 0; j < ownOrigins; j++ {
		add(reporter)
	}
	for s := 1; s < nSel; s++ {
		n := 1 + r.Intn(3)
		for j := 0; j < n; j++ {
			add(fmt.Sprintf("s%d", s))
		}
	}
	if len(origins) == 0 {
		add("s1")
	}
	// shuffle
	for j := len(origins) - 1; j > 0; j-- {
		q := r.Intn(j + 1)
		origins[j], origins[q] = origins[q], origins[j]
	}
	one := int64(1e18)
	var rate string
	switch r.Intn(8) {
	case 0:
		rate = "0"
	case 1:
		rate = "1"
	case 2:
		rate = fmt.Sprint(one / 2)
	case 3:
		rate = fmt.Sprint(one)
	case 4: // outside [0,1]: accepted at creation (known finding commission-range)
		rate = math.NewInt(one).MulRaw(r.Range(2, 100)).String()
	case 5:
		rate = fmt.Sprint(-r.Range(1, one))
	default:
		rate = fmt.Sprint(r.Range(0, one))
	}
	reward := math.NewInt(r.Pick(1, 2, 3, 1000, 999, 1e6, 1e15, r.Range(1, 1e15))).Mul(math.NewInt(one))
	if r.Chance(1, 3) { // fractional rewards (non-last reporters get fractional amounts)
		reward = reward.Add(math.NewInt(r.Range(0, one-1)))
	}
	return []string{reporter, rate, reward.String(), fmt.Sprint(total), strings.Join(origins, ",")}
}

func rawDec(s string) math.LegacyDec {
	i, _ := math.NewIntFromString(s)
	return math.LegacyNewDecFromBigIntWithPrec(i.BigInt(), 18)
}

func runDivvy(t *testing.T, in []string) string {
	k, _, _, _, ctx, _ := keepertest.ReporterKeeper(t)
	name := func(s string) []byte { b := make([]byte, 20); copy(b, []byte(s)); return b }
	reporter := name(in[0])
	if err := k.Reporters.Set(ctx, reporter, reportertypes.NewReporter(rawDec(in[1]), math.OneInt())); err != nil {
		return "err:" + err.Error()
	}
	total, _ := math.NewIntFromString(in[3])
	var tos []*reportertypes.TokenOriginInfo
	dels := map[string]bool{in[0]: true}
	for _, o := range strings.Split(in[4], ",") {
		p := strings.Split(o, ":")
		amt, _ := math.NewIntFromString(p[2])
		tos = append(tos, &reportertypes.TokenOriginInfo{DelegatorAddress: name(p[0]), ValidatorAddress: name(p[1]), Amount: amt})
		dels[p[0]] = true
	}
	qid := []byte("qid")
	if err := k.Report.Set(ctx, collections.Join(qid, collections.Join(reporter, uint64(10))), reportertypes.DelegationsAmounts{TokenOrigins: tos, Total: total}); err != nil {
		return "err:" + err.Error()
	}
	if err := k.DivvyingTips(ctx, sdk.AccAddress(reporter), rawDec(in[2]), qid, 10); err != nil {
		return "err"
	}
	var names []string
	for d := range dels {
		names = append(names, d)
	}
	sort.Strings(names)
	var outs []string
	for _, d := range names {
		tips, err := k.SelectorTips.Get(ctx, name(d))
		if err != nil {
			continue
		}
		outs = append(outs, d+":"+decRaw(tips))
	}
	_ = hex.EncodeToString
	return strings.Join(outs, ",")
}

func genAllocRep(r *Rng, i int, tier string) []string {
	// equal powers and non-divisible rewards: the cases in which "who gets the remainder" is visible
	nRep := 2 + r.Intn(5)
	p := uint64(r.Pick(1, 3, 10, 7))
	var reps []string
	for j := 0; j < nRep; j++ {
		q := p
		if r.Chance(1, 4) {
			q = uint64(r.Range(1, 5))
		}
		reps = append(reps, fmt.Sprintf("%s:%d:%d", addrOf(j), q, 100))
	}
	reward := r.Pick(1, 7, 10, 100, 1000, r.Range(1, 1e9))
	return []string{fmt.Sprint(reward), "q0=" + strings.Join(reps, ",")}
}

func runAllocRep(t *testing.T, in []string) string {
	seen := map[string]bool{}
	for j := 0; j < envInt("ALLOC_REPEATS", 16); j++ {
		seen[runAlloc(t, in)] = true
	}
	var outs []string
	for k := range seen {
		outs = append(outs, k)
	}
	sort.Strings(outs)
	return strings.Join(outs, " || ")
}
