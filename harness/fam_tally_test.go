package harness

import (
	"fmt"
	"strconv"
	"strings"
	"testing"
	"time"

	"github.com/stretchr/testify/mock"
	keepertest "github.com/tellor-io/layer/testutil/keeper"
	disputekeeper "github.com/tellor-io/layer/x/dispute/keeper"
	disputetypes "github.com/tellor-io/layer/x/dispute/types"

	"cosmossdk.io/collections"
	"cosmossdk.io/math"

	sdk "github.com/cosmos/cosmos-sdk/types"
)

// family "tally": the real TallyVote on a seeded dispute store.
//   input : team(-|s|a|i) | users s,a,i | reporters s,a,i | holders s,a,i | totalTips | totalPower | supply |
//           periodEnded(0|1) | disputeEnded(0|1) | hasVoters(0|1)
//   output: result:<VoteResult>:<DisputeStatus>:<open>:<pending>   |  err:still-voting | err:no-majority | err:<other>
// family "ratio": Ratio(total, part)            input: total | part     output: integer
func init() {
	register(&Family{Name: "tally", Gen: genTally, Run: runTally})
	register(&Family{Name: "ratio", Gen: genRatio, Run: runRatio})
}

func genCounts(r *Rng, scale uint64) (uint64, uint64, uint64) {
	v := func() uint64 {
		switch r.Intn(5) {
		case 0:
			return 0
		case 1:
			return 1 + r.U64()%3
		default:
			return r.U64() % (scale + 1)
		}
	}
	s, a, i := v(), v(), v()
	switch r.Intn(8) {
	case 0: // exact tie of the two leaders
		a = s
	case 1:
		i = s
	case 2:
		i = a
	case 3:
		s, a, i = 0, 0, 0
	case 4: // near tie
		a = s + 1
	}
	return s, a, i
}

func genTally(r *Rng, i int, tier string) []string {
	team := []string{"-", "-", "s", "a", "i"}[r.Intn(5)]
	scale := uint64(r.Pick(3, 10, 1000, 1e6, 1e12, 1<<62))
	us, ua, ui := genCounts(r, scale)
	rs, ra, ri := genCounts(r, scale)
	hs, ha, hi := genCounts(r, scale)
	tot := func(sum uint64) string {
		switch r.Intn(5) {
		case 0:
			return fmt.Sprint(sum)
		case 1:
			return fmt.Sprint(sum + 1)
		case 2:
			return math.NewIntFromUint64(sum).MulRaw(4).String()
		case 3:
			return "0"
		default:
			return math.NewIntFromUint64(sum).MulRaw(r.Range(1, 10)).AddRaw(r.Range(0, 1000)).String()
		}
	}
	pe := r.Intn(2)
	de := 0
	if pe == 1 {
		de = r.Intn(2)
	}
	hv := 1
	if team == "-" && us+ua+ui+rs+ra+ri+hs+ha+hi == 0 {
		hv = r.Intn(2)
	}
	return []string{team, fmt.Sprintf("%d,%d,%d", us, ua, ui), fmt.Sprintf("%d,%d,%d", rs, ra, ri), fmt.Sprintf("%d,%d,%d", hs, ha, hi),
		tot(us + ua + ui), tot(rs + ra + ri), tot(hs + ha + hi), fmt.Sprint(pe), fmt.Sprint(de), fmt.Sprint(hv)}
}

func parseCounts(s string) disputetypes.VoteCounts {
	p := strings.Split(s, ",")
	u := func(x string) uint64 { v, _ := strconv.ParseUint(x, 10, 64); return v }
	return disputetypes.VoteCounts{Support: u(p[0]), Against: u(p[1]), Invalid: u(p[2])}
}

func seedTally(t *testing.T, in []string) (disputekeeper.Keeper, sdk.Context, error) {
	k, _, _, _, bk, ctx := keepertest.DisputeKeeper(t)
	now := time.Unix(1700000000, 0).UTC()
	ctx = ctx.WithBlockTime(now)
	teamAddr := sdk.AccAddress([]byte("team_address________"))
	params := disputetypes.DefaultParams()
	params.TeamAddress = teamAddr
	if err := k.Params.Set(ctx, params); err != nil {
		return k, ctx, err
	}
	id := uint64(1)
	voteEnd := now.Add(time.Hour)
	if in[7] == "1" {
		voteEnd = now.Add(-time.Second)
	}
	dispEnd := now.Add(24 * time.Hour)
	if in[8] == "1" {
		dispEnd = now.Add(-time.Second)
	}
	hash := []byte("hashid")
	d := disputetypes.Dispute{HashId: hash, DisputeId: id, DisputeStatus: disputetypes.Voting, DisputeEndTime: dispEnd, Open: true,
		DisputeFee: math.ZeroInt(), SlashAmount: math.ZeroInt(), BurnAmount: math.ZeroInt(), FeeTotal: math.ZeroInt(), VoterReward: math.ZeroInt()}
	if err := k.Disputes.Set(ctx, id, d); err != nil {
		return k, ctx, err
	}
	if err := k.Votes.Set(ctx, id, disputetypes.Vote{Id: id, VoteStart: now.Add(-time.Hour), VoteEnd: voteEnd, VoteResult: disputetypes.VoteResult_NO_TALLY}); err != nil {
		return k, ctx, err
	}
	tips, _ := math.NewIntFromString(in[4])
	pow, _ := math.NewIntFromString(in[5])
	sup, _ := math.NewIntFromString(in[6])
	if err := k.BlockInfo.Set(ctx, hash, disputetypes.BlockInfo{TotalReporterPower: pow, TotalUserTips: tips}); err != nil {
		return k, ctx, err
	}
	vc := disputetypes.StakeholderVoteCounts{Users: parseCounts(in[1]), Reporters: parseCounts(in[2]), Tokenholders: parseCounts(in[3])}
	if err := k.VoteCountsByGroup.Set(ctx, id, vc); err != nil {
		return k, ctx, err
	}
	mk := func(v disputetypes.VoteEnum) disputetypes.Voter {
		return disputetypes.Voter{Vote: v, VoterPower: math.OneInt(), ReporterPower: math.ZeroInt(), TokenholderPower: math.ZeroInt()}
	}
	switch in[0] {
	case "s":
		_ = k.Voter.Set(ctx, collections.Join(id, teamAddr.Bytes()), mk(disputetypes.VoteEnum_VOTE_SUPPORT))
	case "a":
		_ = k.Voter.Set(ctx, collections.Join(id, teamAddr.Bytes()), mk(disputetypes.VoteEnum_VOTE_AGAINST))
	case "i":
		_ = k.Voter.Set(ctx, collections.Join(id, teamAddr.Bytes()), mk(disputetypes.VoteEnum_VOTE_INVALID))
	default:
		if in[9] == "1" {
			_ = k.Voter.Set(ctx, collections.Join(id, []byte("some_voter__________")), mk(disputetypes.VoteEnum_VOTE_SUPPORT))
		}
	}
	bk.On("GetSupply", mock.Anything, mock.Anything).Return(sdk.NewCoin("loya", sup))
	return k, ctx, nil
}

func runTally(t *testing.T, in []string) string {
	k, ctx, err := seedTally(t, in)
	if err != nil {
		return "err:seed:" + err.Error()
	}
	err = k.TallyVote(ctx, 1)
	if err != nil {
		switch {
		case strings.Contains(err.Error(), disputetypes.ErrNoQuorumStillVoting.Error()):
			return "err:still-voting"
		case strings.Contains(err.Error(), "no majority"):
			return "err:no-majority"
		}
		return "err:" + strings.ReplaceAll(err.Error(), "|", "/")
	}
	v, _ := k.Votes.Get(ctx, 1)
	d, _ := k.Disputes.Get(ctx, 1)
	return fmt.Sprintf("result:%s:%s:%v:%v", v.VoteResult.String(), d.DisputeStatus.String(), d.Open, d.PendingExecution)
}

func genRatio(r *Rng, i int, tier string) []string {
	total := math.NewIntFromUint64(r.U64() >> uint(r.Intn(64)))
	var part math.Int
	switch r.Intn(4) {
	case 0:
		part = total
	case 1:
		part = total.QuoRaw(2)
	case 2:
		part = math.NewIntFromUint64(r.U64() >> uint(r.Intn(64)))
	default:
		part = total.MulRaw(51).QuoRaw(25).AddRaw(r.Range(-2, 2))
	}
	if part.IsNegative() {
		part = math.ZeroInt()
	}
	return []string{total.String(), part.String()}
}

func runRatio(t *testing.T, in []string) string {
	a, _ := math.NewIntFromString(in[0])
	b, _ := math.NewIntFromString(in[1])
	return disputekeeper.Ratio(a, b).String()
}
