package harness

import (
	"encoding/hex"
	"fmt"
	"sort"
	"strconv"
	"strings"
	"testing"
	"time"

	"github.com/tellor-io/layer/utils"
	oracletypes "github.com/tellor-io/layer/x/oracle/types"
	registrytypes "github.com/tellor-io/layer/x/registry/types"

	"cosmossdk.io/collections"
	"cosmossdk.io/math"

	sdk "github.com/cosmos/cosmos-sdk/types"
)

// family "oracle" (C07, C08): tips, reports, cycle-list rotation, governance changes of the cycle list and of report
// windows, withdrawals (aggregates written by the bridge), disputes/evidence (flagging) on the real application.
//   input : nvals | naccts | ops            (ops as in hist_test.go)
//   output: records joined by " ;; ":
//     T <qid> <kind> <window> <net> <ok|rej>                       a tip transaction
//     R <qid> <kind> <window> <method> <reporter> <stake|err> <minStake> <valueOk> <ok|rej> <value>    a report
//     F <qid> <microHeight> <reporter>                              FlagAggregateReport was reached (dispute funded / evidence)
//     W <qid> <power> <value>                                       accepted withdrawal (aggregate written by the bridge)
//     U <qid,qid,…>                                                 the cycle list after a governance replacement
//     S <type> <window>                                             a spec window update took effect
//     E <h> <ts_ms> <spotWindow>                                    end of block
//     Q <qid:id:amount:exp:window:hasRev:cycle,…>                   Query collection after the block
//     A <qid:ts:value:reporter:power:nonce:flagged:micro:metaId:aggIdx,…>   all aggregates after the block
//     C <currentCycleQid> <seq> <nextMetaId>
//     G <probe results>                                             getter probes (C08)
func init() {
	register(&Family{Name: "oracle", Gen: genOracleHist, Run: runOracleHist})
	register(&Family{Name: "oracle7", Gen: genOracleHist, Run: runOracleHist}) // C07 monitor on the same histories
	register(&Family{Name: "oracle8", Gen: genOracleHist, Run: runOracleHist}) // C08 monitor on the same histories
}

func short(b []byte) string {
	h := hex.EncodeToString(b)
	if len(h) > 10 {
		return h[:10]
	}
	return h
}

func kindOf(h *Hist, q string) string {
	switch {
	case strings.HasPrefix(q, "dep"):
		return "deposit"
	case strings.HasPrefix(q, "wdq"):
		return "withdraw"
	case strings.HasPrefix(q, "x"):
		return "garbage"
	case strings.HasPrefix(q, "n"): // query of an unregistered type
		return "nospec"
	}
	return "spot"
}

func specOfQuery(c *Chain, qdata []byte) (window uint64, method string, typ string, ok bool) {
	typ, _, err := registrytypes.DecodeQueryType(qdata)
	if err != nil {
		return 0, "", "", false
	}
	sp, err := c.App.RegistryKeeper.GetSpec(c.Ctx(), typ)
	if err != nil {
		return 0, "", typ, false
	}
	return sp.ReportBlockWindow, sp.AggregationMethod, typ, true
}

func dumpOracle(c *Chain) []string {
	ctx := c.Ctx()
	var out []string
	var qs []string
	if it, err := c.App.OracleKeeper.Query.Iterate(ctx, nil); err == nil {
		for ; it.Valid(); it.Next() {
			kv, err := it.KeyValue()
			if err != nil {
				continue
			}
			q := kv.Value
			qs = append(qs, fmt.Sprintf("%s:%d:%s:%d:%d:%v:%v", short(kv.Key.K1()), q.Id, q.Amount, q.Expiration, q.RegistrySpecBlockWindow, q.HasRevealedReports, q.CycleList))
		}
		it.Close()
	}
	out = append(out, "Q "+strings.Join(qs, ","))
	var as []string
	if it, err := c.App.OracleKeeper.Aggregates.Iterate(ctx, nil); err == nil {
		for ; it.Valid(); it.Next() {
			kv, err := it.KeyValue()
			if err != nil {
				continue
			}
			a := kv.Value
			rep := ""
			if a.AggregateReporter != "" {
				if ad, err := sdk.AccAddressFromBech32(a.AggregateReporter); err == nil {
					rep = short(ad.Bytes())
				}
			}
			v := a.AggregateValue
			if len(v) > 24 {
				v = v[len(v)-24:]
			}
			as = append(as, fmt.Sprintf("%s:%d:%s:%s:%d:%d:%v:%d:%d:%d", short(kv.Key.K1()), kv.Key.K2(), v, rep, a.ReporterPower, a.Index, a.Flagged, a.MicroHeight, a.MetaId, a.AggregateReportIndex))
		}
		it.Close()
	}
	out = append(out, "A "+strings.Join(as, ","))
	// stored micro reports per round (query id, meta id): how many
	cnt := map[string]int{}
	var order []string
	if it, err := c.App.OracleKeeper.Reports.Iterate(ctx, nil); err == nil {
		for ; it.Valid(); it.Next() {
			k, err := it.Key()
			if err != nil {
				continue
			}
			key := fmt.Sprintf("%s:%d", short(k.K1()), k.K3())
			if cnt[key] == 0 {
				order = append(order, key)
			}
			cnt[key]++
		}
		it.Close()
	}
	var ps []string
	for _, k := range order {
		ps = append(ps, fmt.Sprintf("%s:%d", k, cnt[k]))
	}
	out = append(out, "P "+strings.Join(ps, ","))
	cur, err := c.App.OracleKeeper.GetCurrentQueryInCycleList(ctx)
	seq, _ := c.App.OracleKeeper.CyclelistSequencer.Peek(ctx)
	nid, _ := c.App.OracleKeeper.QuerySequencer.Peek(ctx)
	cs := "-"
	if err == nil {
		cs = short(utils.QueryIDFromData(cur))
	}
	out = append(out, fmt.Sprintf("C %s %d %d", cs, seq, nid))
	return out
}

// getter probes for every query that has aggregates: timestamps around stored ones and indexes in/out of range
func probeGetters(c *Chain) string {
	ctx := c.Ctx()
	byQ := map[string][]uint64{}
	qidOf := map[string][]byte{}
	if it, err := c.App.OracleKeeper.Aggregates.Iterate(ctx, nil); err == nil {
		for ; it.Valid(); it.Next() {
			k, _ := it.Key()
			s := short(k.K1())
			byQ[s] = append(byQ[s], k.K2())
			qidOf[s] = k.K1()
		}
		it.Close()
	}
	var keys []string
	for k := range byQ {
		keys = append(keys, k)
	}
	sort.Strings(keys)
	var out []string
	for _, k := range keys {
		tss := byQ[k]
		qid := qidOf[k]
		probes := []uint64{1, tss[0] - 1, tss[0], tss[0] + 1, tss[len(tss)-1], tss[len(tss)-1] + 1, tss[len(tss)-1] + 1000000}
		if len(tss) > 2 {
			probes = append(probes, tss[1], tss[1]+1, tss[len(tss)/2]-1)
		}
		cur, ct, err := c.App.OracleKeeper.GetCurrentAggregateReport(ctx, qid)
		cs := "-"
		if err == nil && cur != nil {
			cs = fmt.Sprint(ct.UnixMilli())
		}
		out = append(out, fmt.Sprintf("%s cur=%s", k, cs))
		for _, p := range probes {
			tm := time.UnixMilli(int64(p))
			b := "-"
			if a, bt, err := c.App.OracleKeeper.GetAggregateBefore(ctx, qid, tm); err == nil && a != nil {
				b = fmt.Sprint(bt.UnixMilli())
			}
			tb := "0"
			if t, err := c.App.OracleKeeper.GetTimestampBefore(ctx, qid, tm); err == nil {
				tb = fmt.Sprint(t.UnixMilli())
			}
			ta := "0"
			if t, err := c.App.OracleKeeper.GetTimestampAfter(ctx, qid, tm); err == nil {
				ta = fmt.Sprint(t.UnixMilli())
			}
			bt := "-"
			if a, err := c.App.OracleKeeper.GetAggregateByTimestamp(ctx, qid, tm); err == nil {
				bt = fmt.Sprint(a.Index)
			}
			out = append(out, fmt.Sprintf("%s t=%d before=%s tsb=%s tsa=%s byts=%s", k, p, b, tb, ta, bt))
		}
		for i := uint64(0); i < uint64(len(tss))+2; i++ {
			r := "-"
			if a, t, err := c.App.OracleKeeper.GetAggregateByIndex(ctx, qid, i); err == nil && a != nil {
				r = fmt.Sprint(t.UnixMilli())
			}
			out = append(out, fmt.Sprintf("%s i=%d idx=%s", k, i, r))
		}
	}
	return "G " + strings.Join(out, ",")
}

type oracleEnv struct {
	stake    map[string]string // account name -> stake or "err" at block start
	minStake math.Int
}

func oracleObserver(st *[]string) func(h *Hist, br *BlockResult, pend []pendingTx) {
	lastCycle := ""
	return func(h *Hist, br *BlockResult, pend []pendingTx) {
		c := h.C
		if br.Err != "" || br.Process != "ACCEPT" {
			h.Out = append(h.Out, "HALT "+shortLog(br.Err+br.Process))
			return
		}
		// pre-block environment records were prepared in *st by the runner (they need the state BEFORE the block)
		off := br.InjectedN
		for i := range pend {
			cls := "rej"
			if off+i < len(br.Txs) && br.Txs[off+i].Code == 0 {
				cls = "ok"
			}
			if i < len(*st) && (*st)[i] != "" {
				rec := strings.Replace((*st)[i], "<RES>", cls, 1)
				if strings.HasPrefix(rec, "F? ") || strings.HasPrefix(rec, "W? ") || strings.HasPrefix(rec, "U? ") || strings.HasPrefix(rec, "S? ") {
					if cls == "ok" {
						h.Out = append(h.Out, rec[0:1]+rec[2:])
					}
				} else {
					h.Out = append(h.Out, rec)
				}
			}
		}
		*st = nil
		// governance replaced the cycle list in this block (gov end blocker runs before the oracle's)
		if cl, err := c.App.OracleKeeper.GetCyclelist(c.Ctx()); err == nil {
			var ids []string
			for _, q := range cl {
				ids = append(ids, short(utils.QueryIDFromData(q)))
			}
			cur := strings.Join(ids, ",")
			if cur != lastCycle {
				if lastCycle != "" {
					h.Out = append(h.Out, "U "+cur)
				}
				lastCycle = cur
			}
		}
		spotW, _, _, _ := specOfQuery(c, h.Queries[0])
		h.Out = append(h.Out, fmt.Sprintf("E %d %d %d", br.Height, c.Time.UnixMilli(), spotW))
		h.Out = append(h.Out, dumpOracle(c)...)
	}
}

func runOracleHist(t *testing.T, in []string) string {
	nv, _ := strconv.Atoi(in[0])
	na, _ := strconv.Atoi(in[1])
	c, err := NewChain(ChainCfg{NVals: nv, NAccts: na})
	if err != nil {
		return "err:newchain:" + shortLog(err.Error())
	}
	defer c.Close()
	h := NewHist(c)
	var pre []string
	h.Observe = oracleObserver(&pre)
	// one empty block so that the genesis state is committed and readable; then the cycle list in key order
	c.NextBlock(BlockOpts{Dt: time.Second})
	cl, _ := c.App.OracleKeeper.GetCyclelist(c.Ctx())
	var ids []string
	for _, q := range cl {
		ids = append(ids, short(utils.QueryIDFromData(q)))
	}
	spotW0, _, _, _ := specOfQuery(c, h.Queries[0])
	h.Out = append(h.Out, "U "+strings.Join(ids, ","))
	h.Out = append(h.Out, fmt.Sprintf("I %d %d %d", c.Height, c.Time.UnixMilli(), spotW0))
	h.Out = append(h.Out, dumpOracle(c)...)
	ops := strings.Split(in[2], ";")
	for _, op := range ops {
		f := strings.Fields(op)
		if len(f) == 0 {
			continue
		}
		// environment record for this operation, computed on the state BEFORE the block it will be part of
		rec := ""
		ctx := c.Ctx()
		switch f[0] {
		case "tip":
			qd := h.query(f[2])
			w, _, _, ok := specOfQuery(c, qd)
			kind := kindOf(h, f[2])
			if kind == "spot" && !ok {
				kind = "nospec"
			}
			amt, _ := math.NewIntFromString(f[3])
			net := amt.Sub(amt.MulRaw(2).QuoRaw(100))
			rec = fmt.Sprintf("T %s %s %d %s <RES>", short(utils.QueryIDFromData(qd)), kind, w, net)
		case "rep":
			qd := h.query(f[2])
			w, m, typ, ok := specOfQuery(c, qd)
			kind := kindOf(h, f[2])
			if kind == "spot" && !ok {
				kind = "nospec"
			}
			a := h.acct(f[1])
			cctx, _ := ctx.CacheContext()
			stake := "err"
			if s, err := c.App.ReporterKeeper.ReporterStake(cctx, a.Addr, utils.QueryIDFromData(qd)); err == nil {
				stake = s.String()
			}
			params, _ := c.App.OracleKeeper.Params.Get(ctx)
			val := ""
			if len(f) > 3 {
				val = f[3]
			}
			vok := false
			if ok {
				sp, _ := c.App.RegistryKeeper.GetSpec(ctx, typ)
				vok = sp.ValidateValue(val) == nil
			}
			if m == "" {
				m = "-"
			}
			rec = fmt.Sprintf("R %s %s %d %s %s %s %s %v <RES> %s", short(utils.QueryIDFromData(qd)), kind, w, m, short(a.Addr.Bytes()), stake, params.MinStakeAmount, vok, val)
		case "wd":
			rec = "W? <pending>"
		case "evid":
			rep := h.reportRef(f[3], f[4:])
			if ad, err := sdk.AccAddressFromBech32(rep.Reporter); err == nil {
				rec = fmt.Sprintf("F? %s %d %s", short(rep.QueryId), rep.BlockNumber, short(ad.Bytes()))
			}
		case "disp":
			rep := h.reportRef(f[2], f[6:])
			if ad, err := sdk.AccAddressFromBech32(rep.Reporter); err == nil {
				rec = fmt.Sprintf("F? %s %d %s <DISP>", short(rep.QueryId), rep.BlockNumber, short(ad.Bytes()))
			}
		}
		nPend := len(h.pending)
		br := h.Exec(op)
		if len(h.pending) > nPend { // a transaction was queued by this op
			for len(pre) < nPend {
				pre = append(pre, "")
			}
			pre = append(pre, rec)
		}
		if br != nil && c.Halted == "" && br.Process == "ACCEPT" {
			fixupOracleRecords(h)
		}
		if c.Halted != "" {
			break
		}
	}
	h.Out = append(h.Out, probeGetters(c))
	return strings.Join(h.Out, " ;; ")
}

// fixupOracleRecords resolves records that need the post-block state: withdrawals (the aggregate the bridge wrote),
// dispute-triggered flags (only when the dispute became fully funded), governance effects
func fixupOracleRecords(h *Hist) {
	c := h.C
	ctx := c.Ctx()
	for i, r := range h.Out {
		switch {
		case strings.HasPrefix(r, "W <pending>"):
			// the newest aggregate written in this block under a withdrawal query id
			id, err := c.App.BridgeKeeper.WithdrawalId.Get(ctx)
			if err == nil {
				cnt := uint64(0)
				for _, x := range h.Out[:i] {
					if strings.HasPrefix(x, "W ") && !strings.HasPrefix(x, "W <pending>") {
						cnt++
					}
				}
				wid := cnt + 1
				_ = id
				qid, _ := c.App.BridgeKeeper.GetWithdrawalQueryId(wid)
				agg, _, err := c.App.OracleKeeper.GetCurrentAggregateReport(ctx, qid)
				if err == nil && agg != nil {
					v := agg.AggregateValue
					if len(v) > 24 {
						v = v[len(v)-24:]
					}
					h.Out[i] = fmt.Sprintf("W %s %d %s", short(qid), agg.ReporterPower, v)
				}
			}
		case strings.HasSuffix(r, "<DISP>") && strings.HasPrefix(r, "F "):
			// a dispute transaction was accepted: the flag is reached only if the dispute is fully funded now
			h.Out[i] = strings.TrimSuffix(r, " <DISP>")
			funded := false
			if it, err := c.App.DisputeKeeper.Disputes.Iterate(ctx, new(collections.Range[uint64]).Descending()); err == nil {
				if it.Valid() {
					d, _ := it.Value()
					funded = d.FeeTotal.Equal(d.SlashAmount) && d.DisputeStartBlock == uint64(c.Height)
				}
				it.Close()
			}
			if !funded {
				h.Out[i] = "N unfunded-dispute"
			}
		}
	}
}

func genOracleHist(r *Rng, i int, tier string) []string {
	nv := 2 + r.Intn(2)
	na := 3
	var ops []string
	add := func(s string, a ...any) { ops = append(ops, fmt.Sprintf(s, a...)) }
	blk := func() { add("blk %d", r.Pick(1, 2, 1000, 1000, 1500, 5000)) }
	blk()
	add("mkrep v0 0 1000000")
	add("mkrep v1 0 1000000")
	blk()
	add("addq SpotPrice xrp usd")  // q3: a spot query outside the cycle list
	add("addq NoSuchType abc def") // q4: decodable data of an unregistered type
	if r.Chance(1, 3) { // change the report window of the spot spec by governance
		add("gov spec spotprice %d", r.Pick(0, 1, 3, 5))
		blk()
		add("govvote")
		add("blk 1000")
		add("blk 21000")
	}
	nops := 40 + r.Intn(60)
	if tier == "thorough" {
		nops = 100 + r.Intn(150)
	}
	dep := 1
	ndisp := 0
	// long scenario (1 history in 5): a deposit round lives 2000 blocks; a second report arrives around its expiry
	// height (two blocks before … one block after), later rounds of the same deposit follow
	longAt := -1
	if r.Chance(1, 4) {
		longAt = r.Intn(nops)
	}
	depVal := func() string {
		return DepositValue(sdk.AccAddress([]byte("recipient___________")).String(), bigOf(r.Range(1, 5000)*1e12), bigOf(0))
	}
	for k := 0; k < nops; k++ {
		if k == longAt {
			id := 7 + r.Intn(3)
			if r.Chance(1, 3) {
				add("tip a0 dep%d %d", id, r.Pick(1000, 50))
			}
			add("rep v0 dep%d %s", id, depVal())
			add("blk 1000") // lands at height H
			if r.Chance(1, 2) {
				add("rep v1 dep%d %s", id, depVal())
				add("blk 1000")
				add("skip 1996 1000")
			} else {
				add("skip 1997 1000")
			}
			for j := r.Pick(2, 2, 2, 0, 1, 3); j > 0; j-- { // 2 = the report lands exactly at the expiry height
				add("blk 1000")
			}
			add("rep v%d dep%d %s", r.Intn(2), id, depVal()) // lands at H+1998 … H+2001
			add("blk 1000")
			add("rep v%d dep%d %s", r.Intn(2), id, depVal())
			add("blk 1000")
			add("blk 1000")
			if r.Chance(1, 2) {
				add("skip 1999 1000")
				add("blk 1000")
				add("blk 1000")
			}
		}
		acct := fmt.Sprintf("a%d", r.Intn(na))
		rp := fmt.Sprintf("v%d", r.Intn(2))
		q := fmt.Sprintf("q%d", r.Intn(5))
		switch r.Intn(16) {
		case 0, 1, 2:
			add("tip %s %s %d", acct, q, r.Pick(1, 50, 1000, r.Range(1, 1e7)))
		case 3, 4, 5, 6, 7:
			v := fmt.Sprintf("%064x", r.Range(1, 1e9))
			if r.Chance(1, 8) {
				v = hostileValue(r)
			}
			add("rep %s %s %s", rp, q, v)
		case 8:
			add("rep %s dep%d %s", rp, 1+r.Intn(dep), DepositValue(sdk.AccAddress([]byte("recipient___________")).String(), bigOf(r.Range(1, 5000)*1e12), bigOf(0)))
			if r.Chance(1, 3) {
				dep++
			}
		case 9:
			add("rep %s wdq%d %064x", rp, 1+r.Intn(3), r.Range(1, 1e9))
		case 10:
			add("wd %s %d %040x", acct, r.Range(1, 1e6), r.U64())
		case 11:
			if r.Chance(1, 2) {
				var qs []string
				n := 1 + r.Intn(4)
				for j := 0; j < n; j++ {
					qs = append(qs, fmt.Sprintf("q%d", r.Intn(4)))
				}
				add("gov cyclelist %s", strings.Join(qs, ","))
				blk()
				add("govvote")
				add("blk 1000")
				add("blk 21000")
			}
		case 12:
			// a funded dispute jails the reporter: keep it in a block of its own so that the stake environment of
			// the reports (computed on the state before their block) stays valid
			blk()
			add("disp %s R%d 1 %d 0%s", acct, r.Intn(8), r.Pick(1e7, 1e10), []string{"", "", " val", " fake"}[r.Intn(4)])
			blk()
			ndisp++
		case 13:
			if ndisp > 0 {
				add("evid %s %d R%d%s", acct, 1+r.Intn(ndisp), r.Intn(8), []string{"", " fake"}[r.Intn(2)])
			}
		case 14:
			blk()
			add("unjail %s", rp)
			blk()
		default:
			blk()
		}
		if r.Chance(1, 2) {
			blk()
		}
	}
	blk()
	blk()
	blk()
	return []string{fmt.Sprint(nv), fmt.Sprint(na), strings.Join(ops, ";")}
}

var _ = oracletypes.ModuleName
