package harness

import (
	"fmt"
	"strings"
	"testing"
	"time"

	oracletypes "github.com/tellor-io/layer/x/oracle/types"

	"cosmossdk.io/math"

	sdk "github.com/cosmos/cosmos-sdk/types"
)

func init() {
	register(&Family{Name: "chainsmoke", Gen: func(r *Rng, i int, tier string) []string { return []string{fmt.Sprint(2 + r.Intn(3))} }, Run: runChainSmoke})
}

func runChainSmoke(t *testing.T, in []string) string {
	n := 3
	fmt.Sscan(in[0], &n)
	c, err := NewChain(ChainCfg{NVals: n, NAccts: 2})
	if err != nil {
		return "err:" + err.Error()
	}
	defer c.Close()
	var out []string
	for i := 0; i < 6; i++ {
		var txs [][]byte
		if i == 3 {
			msg := &oracletypes.MsgTip{Tipper: c.Accts[0].Addr.String(), QueryData: oracletypes.InitialCycleList()[0], Amount: sdk.NewCoin(denom, math.NewInt(1000000))}
			bz, err := c.SignTx(c.Accts[0], 400000, msg)
			if err != nil {
				return "err:sign:" + err.Error()
			}
			txs = append(txs, bz)
		}
		br := c.NextBlock(BlockOpts{Dt: 1500 * time.Millisecond, Txs: txs})
		codes := []string{}
		for _, r := range br.Txs {
			codes = append(codes, fmt.Sprintf("%d:%s", r.Code, shortLog(r.Log)))
		}
		out = append(out, fmt.Sprintf("h%d prep=%s proc=%s err=%s txs=[%s]", br.Height, br.Prepare, br.Process, shortLog(br.Err), strings.Join(codes, ";")))
	}
	ctx := c.Ctx()
	nEvm := 0
	for _, v := range c.Vals {
		if _, err := c.App.BridgeKeeper.GetEVMAddressByOperator(ctx, v.ValAddr.String()); err == nil {
			nEvm++
		}
	}
	idx, err := c.App.BridgeKeeper.GetLatestCheckpointIndex(ctx)
	out = append(out, fmt.Sprintf("evm=%d ckptIdx=%d err=%v supply=%s oracle=%s", nEvm, idx, err, c.Supply(), c.ModBal("oracle")))
	return strings.Join(out, " ## ")
}
