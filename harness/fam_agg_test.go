package harness

import (
	"fmt"
	"sort"
	"strconv"
	"strings"
	"testing"

	keepertest "github.com/tellor-io/layer/testutil/keeper"
	oraclekeeper "github.com/tellor-io/layer/x/oracle/keeper"
	oracletypes "github.com/tellor-io/layer/x/oracle/types"

	sdk "github.com/cosmos/cosmos-sdk/types"
)

// families "median", "mode": the real WeightedMedian / WeightedMode.
// input : reports, comma list of reporter:value:power:block   (reporters distinct, as the store key guarantees)
// output: value~reporter~power~index~microHeight~rep:pow:block;rep:pow:block…   or  err
// "mode" runs the function MODE_REPEATS times (Go re-randomises map iteration on every range) and prints the
// distinct outputs joined by " || " — one output iff the function is deterministic on this input.
var (
	aggK   oraclekeeper.Keeper
	aggCtx sdk.Context
)

func init() {
	register(&Family{Name: "median", Gen: genMedian, Run: runMedian, Setup: setupAgg})
	register(&Family{Name: "mode", Gen: genMode, Run: runMode, Setup: setupAgg})
}

func setupAgg(t *testing.T) {
	k, _, _, _, _, ctx := keepertest.OracleKeeper(t)
	aggK, aggCtx = k, ctx
}

func fmtAgg(a *oracletypes.Aggregate, err error) string {
	if err != nil {
		return "err"
	}
	var reps []string
	for _, r := range a.Reporters {
		reps = append(reps, fmt.Sprintf("%s:%d:%d", r.Reporter, r.Power, r.BlockNumber))
	}
	return fmt.Sprintf("%s~%s~%d~%d~%d~%s", a.AggregateValue, a.AggregateReporter, a.ReporterPower, a.AggregateReportIndex, a.MicroHeight, strings.Join(reps, ";"))
}

func parseReports(s string) []oracletypes.MicroReport {
	var out []oracletypes.MicroReport
	if s == "" {
		return out
	}
	for _, it := range strings.Split(s, ",") {
		p := strings.Split(it, ":")
		pw, _ := strconv.ParseUint(p[2], 10, 64)
		bl, _ := strconv.ParseUint(p[3], 10, 64)
		out = append(out, oracletypes.MicroReport{Reporter: p[0], Value: p[1], Power: pw, BlockNumber: bl, QueryId: []byte("q")})
	}
	return out
}

func hexOf(r *Rng, digits int) string {
	const hx = "0123456789abcdef"
	const HX = "0123456789ABCDEF"
	b := make([]byte, digits)
	up := r.Chance(1, 6)
	for i := range b {
		if up {
			b[i] = HX[r.Intn(16)]
		} else {
			b[i] = hx[r.Intn(16)]
		}
	}
	return string(b)
}

// genValuePool returns a small pool of values: duplicates and different spellings of one number are likely.
func genValuePool(r *Rng, n int, malformed bool) []string {
	var pool []string
	for i := 0; i < n; i++ {
		var v string
		switch r.Intn(8) {
		case 0:
			v = hexOf(r, 64)
		case 1:
			v = hexOf(r, 1+r.Intn(4))
		case 2:
			if len(pool) > 0 { // another spelling of an existing value
				v = "0" + pool[r.Intn(len(pool))]
			} else {
				v = "00" + hexOf(r, 2)
			}
		case 3:
			if len(pool) > 0 {
				v = strings.ToUpper(pool[r.Intn(len(pool))])
			} else {
				v = hexOf(r, 3)
			}
		case 4:
			v = hexOf(r, 1+r.Intn(80))
		default:
			v = hexOf(r, 2)
		}
		if malformed && r.Chance(1, 3) {
			switch r.Intn(6) {
			case 0:
				v = "0x" + v
			case 1:
				v = v + "g"
			case 2:
				v = ""
			case 3:
				v = "-" + v
			case 4:
				v = "+" + v
			default:
				v = v[:len(v)/2] + "_" + v[len(v)/2:]
			}
		}
		pool = append(pool, v)
	}
	return pool
}

func genReports(r *Rng, i int, maxN int, maxPow uint64, malformed bool) string {
	n := 1 + r.Intn(maxN)
	if r.Chance(1, 40) {
		n = 0
	}
	pool := genValuePool(r, 1+r.Intn(4), malformed)
	var powers []uint64
	mode := r.Intn(5)
	for j := 0; j < n; j++ {
		var p uint64
		switch mode {
		case 0:
			p = 1
		case 1:
			p = 1 + r.U64()%3
		case 2:
			p = 1 + r.U64()%maxPow
		case 3: // exact-half constructions: last power = sum of the others
			if j == n-1 && j > 0 {
				var s uint64
				for _, q := range powers {
					s += q
				}
				p = s
			} else {
				p = 1 + r.U64()%5
			}
		default:
			p = 1 + r.U64()%10
		}
		powers = append(powers, p)
	}
	perm := make([]int, n)
	for j := range perm {
		perm[j] = j
	}
	for j := n - 1; j > 0; j-- {
		k := r.Intn(j + 1)
		perm[j], perm[k] = perm[k], perm[j]
	}
	var items []string
	for j := 0; j < n; j++ {
		items = append(items, fmt.Sprintf("r%02d:%s:%d:%d", perm[j], pool[r.Intn(len(pool))], powers[j], 100+r.Intn(3)))
	}
	return strings.Join(items, ",")
}

// genHugeMedian: total power in [2^62, 2^63): the quantifier of C06 goes "up to beyond the total token supply,
// total power below 2^63" — cumulative sums near 2^62 are where 64-bit shortcuts (doubling, signed sums) break.
func genHugeMedian(r *Rng) []string {
	n := 1 + r.Intn(6)
	total := uint64(1)<<62 + r.U64()%(uint64(1)<<62-1)
	if r.Chance(1, 3) {
		total = uint64(1)<<63 - 1 - uint64(r.Intn(3))
	}
	if r.Chance(1, 6) {
		total = uint64(1)<<62 + uint64(r.Intn(3))
	}
	// split total into n positive parts
	parts := make([]uint64, n)
	left := total
	for j := 0; j < n-1; j++ {
		var p uint64
		switch r.Intn(3) {
		case 0:
			p = 1 + r.U64()%5
		case 1:
			p = left / 2
		default:
			p = 1 + r.U64()%(left-uint64(n-j))
		}
		if p >= left-uint64(n-j-1) {
			p = 1
		}
		parts[j] = p
		left -= p
	}
	parts[n-1] = left
	for j := n - 1; j > 0; j-- {
		q := r.Intn(j + 1)
		parts[j], parts[q] = parts[q], parts[j]
	}
	pool := genValuePool(r, 1+r.Intn(4), false)
	var items []string
	for j := 0; j < n; j++ {
		items = append(items, fmt.Sprintf("r%02d:%s:%d:%d", j, pool[r.Intn(len(pool))], parts[j], 100+r.Intn(3)))
	}
	return []string{strings.Join(items, ",")}
}

func genMedian(r *Rng, i int, tier string) []string {
	if r.Chance(1, 8) {
		return genHugeMedian(r)
	}
	maxPow := uint64(1) << 20
	if r.Chance(1, 4) {
		maxPow = uint64(1) << 56 // totals stay below 2^63 with at most 60 reports
	}
	maxN := 8
	if r.Chance(1, 5) {
		maxN = 60
	}
	return []string{genReports(r, i, maxN, maxPow, r.Chance(1, 10))}
}

func runMedian(t *testing.T, in []string) string {
	reps := parseReports(in[0])
	return fmtAgg(aggK.WeightedMedian(aggCtx, reps, 7))
}

func genMode(r *Rng, i int, tier string) []string {
	maxN := 6
	if r.Chance(1, 6) {
		maxN = 25
	}
	if r.Chance(1, 2) {
		// engineered tie: k values, each reported by 1..3 reporters whose powers add up to the same weight
		k := 2 + r.Intn(3)
		w := 1 + r.Intn(12)
		pool := genValuePool(r, k+1, false)
		seen := map[string]bool{}
		var items []string
		id := 0
		for v := 0; v < len(pool); v++ {
			if seen[pool[v]] {
				continue
			}
			seen[pool[v]] = true
			left := w
			if v == len(pool)-1 { // one value below the tie weight
				left = r.Intn(w + 1)
			}
			for left > 0 {
				p := 1 + r.Intn(left)
				items = append(items, fmt.Sprintf("r%02d:%s:%d:%d", id, pool[v], p, 100+r.Intn(3)))
				id++
				left -= p
			}
		}
		for j := len(items) - 1; j > 0; j-- {
			q := r.Intn(j + 1)
			items[j], items[q] = items[q], items[j]
		}
		return []string{strings.Join(items, ",")}
	}
	return []string{genReports(r, i, maxN, 40, r.Chance(1, 10))}
}

func modeRepeats() int { return envInt("MODE_REPEATS", 24) }

func runMode(t *testing.T, in []string) string {
	seen := map[string]bool{}
	for j := 0; j < modeRepeats(); j++ {
		reps := parseReports(in[0])
		seen[fmtAgg(aggK.WeightedMode(aggCtx, reps, 7))] = true
	}
	var outs []string
	for k := range seen {
		outs = append(outs, k)
	}
	sort.Strings(outs)
	return strings.Join(outs, " || ")
}
