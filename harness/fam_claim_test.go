package harness

import (
	"sort"
	"encoding/hex"
	"fmt"
	"math/big"
	"strconv"
	"strings"
	"testing"
	"time"

	"github.com/ethereum/go-ethereum/accounts/abi"
	"github.com/stretchr/testify/mock"
	keepertest "github.com/tellor-io/layer/testutil/keeper"
	bridgetypes "github.com/tellor-io/layer/x/bridge/types"
	oracletypes "github.com/tellor-io/layer/x/oracle/types"

	sdk "github.com/cosmos/cosmos-sdk/types"
)

// family "claim" (C14): the real ClaimDeposit over a bridge keeper store (claimed map, checkpoint params) with the
// oracle and bank keepers mocked: the oracle mock returns the generated aggregate, the bank mock records mint/sends.
//   input : depositId | claimedBefore(0|1) | agg (- | flagged:tsMs:power) | checkpoints ts:thr,… | nowNs | dec (err | ok:<recipientOk>:<amount>:<tip>) | valueHex
//   output: ok:<minted>:<toClaimer>:<toRecipient>  |  err:<class>  | panic:…
// `dec` is the harness' own decoding of valueHex (go-ethereum Unpack + bech32 check), generated together with it.
func init() {
	register(&Family{Name: "claim", Gen: genClaim, Run: runClaim})
}

func decodeForModel(valueHex string) string {
	b, err := hex.DecodeString(valueHex)
	if err != nil {
		return "err"
	}
	at, _ := abi.NewType("address", "", nil)
	st, _ := abi.NewType("string", "", nil)
	ut, _ := abi.NewType("uint256", "", nil)
	vals, err := abi.Arguments{{Type: at}, {Type: st}, {Type: ut}, {Type: ut}}.Unpack(b)
	if err != nil {
		return "err"
	}
	rec := vals[1].(string)
	_, berr := sdk.AccAddressFromBech32(rec)
	return fmt.Sprintf("ok:%v:%s:%s", berr == nil, vals[2].(*big.Int).String(), vals[3].(*big.Int).String())
}

func genClaim(r *Rng, i int, tier string) []string {
	id := uint64(r.Range(1, 5))
	claimed := "0"
	if r.Chance(1, 8) {
		claimed = "1"
	}
	ts := int64(1700000000000) + r.Range(0, 1000000)
	agg := "-"
	if !r.Chance(1, 12) {
		fl := "false"
		if r.Chance(1, 8) {
			fl = "true"
		}
		agg = fmt.Sprintf("%s:%d:%d", fl, ts, r.Pick(0, 1, 666, 667, 1000, r.Range(0, 5000)))
	}
	// checkpoints around the aggregate timestamp
	var cps []string
	ncp := r.Intn(4)
	if !r.Chance(1, 10) { // usually there is an older checkpoint whose threshold the aggregate reaches or misses by one
		cps = append(cps, fmt.Sprintf("%d:%d", ts-r.Range(1, 100000), r.Pick(0, 1, 666, 667)))
	}
	for j := 0; j < ncp; j++ {
		cts := ts + r.Pick(-100000, -1, 0, 1, 5000, -50)
		cps = append(cps, fmt.Sprintf("%d:%d", cts, r.Pick(0, 666, 667, 668, 1000, 2000)))
	}
	now := (ts+int64(12*3600*1000))*1e6 + r.Pick(-1, 0, 1, -1000000, 1000000, 3600*1e9, -3600*1e9)
	// value
	one12 := new(big.Int).Exp(big.NewInt(10), big.NewInt(12), nil)
	amount := new(big.Int).Mul(big.NewInt(r.Range(0, 100000)), one12)
	switch r.Intn(8) {
	case 0:
		amount.Add(amount, big.NewInt(r.Range(0, 999999999999)))
	case 1:
		amount = big.NewInt(r.Range(0, 999999999999))
	case 2: // around 2^63 and 2^64 loya
		base := new(big.Int).Lsh(big.NewInt(1), uint(63+r.Intn(2)))
		base.Add(base, big.NewInt(r.Range(-2, 2)))
		amount = base.Mul(base, one12)
	}
	tip := big.NewInt(0)
	switch r.Intn(6) {
	case 0:
		tip = new(big.Int).Set(amount)
	case 1:
		tip = new(big.Int).Add(amount, one12)
	case 2:
		tip = new(big.Int).Div(amount, big.NewInt(r.Range(2, 100)))
	case 3:
		tip = big.NewInt(r.Range(0, 999999999999))
	}
	recipient := sdk.AccAddress([]byte("recipient___________")).String()
	switch r.Intn(10) {
	case 0:
		recipient = ""
	case 1:
		recipient = "cosmos1qqqqqqqqqqqqqqqqqqqqqqqqqqqqqqqqnrql8a"
	case 2:
		recipient = "notbech32"
	}
	val := DepositValue(recipient, amount, tip)
	switch r.Intn(14) {
	case 0:
		val = val[:len(val)-64]
	case 1:
		val = "0x" + val
	case 2:
		val = val[:40]
	case 3:
		val = "zz" + val[2:]
	}
	return []string{fmt.Sprint(id), claimed, agg, strings.Join(cps, ","), fmt.Sprint(now), decodeForModel(val), val}
}

func runClaim(t *testing.T, in []string) string {
	k, _, bk, ok, _, _, ctx := keepertest.BridgeKeeper(t)
	id, _ := strconv.ParseUint(in[0], 10, 64)
	if in[1] == "1" {
		_ = k.DepositIdClaimedMap.Set(ctx, id, bridgetypes.DepositClaimed{Claimed: true})
	}
	cpTs := map[uint64]bool{}
	if in[3] != "" {
		for _, cp := range strings.Split(in[3], ",") {
			p := strings.Split(cp, ":")
			ts, _ := strconv.ParseUint(p[0], 10, 64)
			thr, _ := strconv.ParseUint(p[1], 10, 64)
			_ = k.ValidatorCheckpointParamsMap.Set(ctx, ts, bridgetypes.ValidatorCheckpointParams{Timestamp: ts, PowerThreshold: thr})
			cpTs[ts] = true
		}
		// the index collections of the checkpoint chain, consistent with the parameters above (chronological indexes)
		var tss []uint64
		for ts := range cpTs {
			tss = append(tss, ts)
		}
		sort.Slice(tss, func(i, j int) bool { return tss[i] < tss[j] })
		for i, ts := range tss {
			_ = k.ValidatorCheckpointIdxMap.Set(ctx, uint64(i), bridgetypes.CheckpointTimestamp{Timestamp: ts})
			_ = k.ValsetTimestampToIdxMap.Set(ctx, ts, bridgetypes.CheckpointIdx{Index: uint64(i)})
		}
		if len(tss) > 0 {
			_ = k.LatestCheckpointIdx.Set(ctx, bridgetypes.CheckpointIdx{Index: uint64(len(tss) - 1)})
		}
	}
	now, _ := strconv.ParseInt(in[4], 10, 64)
	ctx = ctx.WithBlockTime(time.Unix(0, now).UTC())
	if in[2] == "-" {
		ok.On("GetAggregateByIndex", mock.Anything, mock.Anything, mock.Anything).Return((*oracletypes.Aggregate)(nil), time.Time{}, fmt.Errorf("no aggregate found"))
	} else {
		p := strings.Split(in[2], ":")
		ts, _ := strconv.ParseInt(p[1], 10, 64)
		pw, _ := strconv.ParseUint(p[2], 10, 64)
		agg := &oracletypes.Aggregate{Flagged: p[0] == "true", ReporterPower: pw, AggregateValue: in[6]}
		ok.On("GetAggregateByIndex", mock.Anything, mock.Anything, mock.Anything).Return(agg, time.UnixMilli(ts), nil)
	}
	minted, toClaimer, toRecipient := "0", "0", "0"
	claimer := sdk.AccAddress([]byte("claimer_____________"))
	bk.On("MintCoins", mock.Anything, mock.Anything, mock.Anything).Run(func(a mock.Arguments) {
		minted = a.Get(2).(sdk.Coins).AmountOf("loya").String()
	}).Return(nil)
	bk.On("SendCoinsFromModuleToAccount", mock.Anything, mock.Anything, mock.Anything, mock.Anything).Run(func(a mock.Arguments) {
		to := a.Get(2).(sdk.AccAddress)
		amt := a.Get(3).(sdk.Coins).AmountOf("loya").String()
		if to.Equals(claimer) {
			toClaimer = amt
		} else {
			toRecipient = amt
		}
	}).Return(nil)
	err := k.ClaimDeposit(ctx, id, 0, claimer)
	if err != nil {
		switch {
		case strings.Contains(err.Error(), "no aggregate"):
			return "err:noAggregate"
		case strings.Contains(err.Error(), "flagged"):
			return "err:flagged"
		case strings.Contains(err.Error(), "already claimed"):
			return "err:alreadyClaimed"
		case strings.Contains(err.Error(), "no validator set timestamp"):
			return "err:noCheckpoint"
		case strings.Contains(err.Error(), "insufficient reporter power"):
			return "err:insufficientPower"
		case strings.Contains(err.Error(), "too young"):
			return "err:tooYoung"
		case strings.Contains(err.Error(), "invalid deposit report value"):
			return "err:invalidValue"
		}
		return "err:other:" + shortLog(err.Error())
	}
	st, _ := k.DepositIdClaimedMap.Get(ctx, id)
	if !st.Claimed {
		return "err:not-marked"
	}
	return fmt.Sprintf("ok:%s:%s:%s", minted, toClaimer, toRecipient)
}
