package harness

import (
	"fmt"
	"runtime"
	"strconv"
	"strings"
	"sync"
	"sync/atomic"
	"testing"
	"time"

	pricefeed "github.com/tellor-io/layer/daemons/server/types/pricefeed"
)

// family "pconc": concurrent calls on the real MarketToExchangePrices from several goroutines, recorded as an
// invocation/response history on a logical clock.
//   input : maxAge_ns | prefix ops (sequential, same syntax as pcache) | thread programs separated by '#', ops by ';'
//   output: per thread, per op "inv-resp" (U) or "inv-resp=<result>" (R); ops joined by ';', threads by '#'
// The driver searches for a linearization against the Lean model (Wing–Gong); none = violation.
func init() {
	register(&Family{Name: "pconc", Gen: genPconc, Run: runPconc})
}

func genPconc(r *Rng, i int, tier string) []string {
	base := int64(1700000000) * 1e9
	maxAge := int64(60e9)
	exch := []string{"binance", "kraken", "okx"}
	nex := 2 + r.Intn(2)
	tcur := base
	mkUpdate := func(price uint64) string {
		tcur += 1000
		var es []string
		for e := 0; e < nex; e++ {
			es = append(es, fmt.Sprintf("%s.%d.%d", exch[e], price, tcur))
		}
		return "U 0=" + strings.Join(es, "+")
	}
	// prices are distinct powers of two: the median of a mixed (torn) read of two different updates is never
	// a value any consistent state could serve
	k := uint64(1)
	next := func() uint64 { k++; return uint64(1) << (k % 62) }
	prefix := mkUpdate(next())
	nthreads := 2 + r.Intn(2)
	var progs []string
	for th := 0; th < nthreads; th++ {
		nops := 1 + r.Intn(3)
		var ops []string
		for j := 0; j < nops; j++ {
			if (th == 0 && r.Chance(3, 4)) || r.Chance(1, 4) {
				ops = append(ops, mkUpdate(next()))
			} else {
				ops = append(ops, fmt.Sprintf("R %d 0.%d", tcur+5000, 1+r.Intn(nex)))
			}
		}
		progs = append(progs, strings.Join(ops, ";"))
	}
	return []string{strconv.FormatInt(maxAge, 10), prefix, strings.Join(progs, "#")}
}

func runPconc(t *testing.T, in []string) string {
	maxAge, _ := strconv.ParseInt(in[0], 10, 64)
	c := pricefeed.NewMarketToExchangePrices(time.Duration(maxAge))
	for _, op := range parsePcacheOps(in[1]) {
		if op.kind == 'U' {
			c.UpdatePrices(op.updates)
		}
	}
	var clock atomic.Int64
	progs := strings.Split(in[2], "#")
	outs := make([]string, len(progs))
	var wg sync.WaitGroup
	var ready atomic.Int32
	n := int32(len(progs))
	for th, p := range progs {
		ops := parsePcacheOps(p)
		wg.Add(1)
		go func(th int, ops []pcacheOp) {
			defer wg.Done()
			var res []string
			ready.Add(1)
			for ready.Load() < n { // spin barrier: all goroutines enter their first call together
			}
			for _, op := range ops {
				inv := clock.Add(1)
				if op.kind == 'U' {
					c.UpdatePrices(op.updates)
					resp := clock.Add(1)
					res = append(res, fmt.Sprintf("%d-%d", inv, resp))
				} else {
					m := c.GetValidMedianPrices(op.params, op.read)
					resp := clock.Add(1)
					res = append(res, fmt.Sprintf("%d-%d=%s", inv, resp, fmtPrices(m)))
				}
				if th%2 == 1 {
					runtime.Gosched()
				}
			}
			outs[th] = strings.Join(res, ";")
		}(th, ops)
	}
	wg.Wait()
	return strings.Join(outs, "#")
}
