package harness

import (
	"encoding/hex"
	"fmt"
	"math/big"
	"strconv"
	"strings"
	"testing"

	"github.com/ethereum/go-ethereum/accounts/abi"
	"github.com/ethereum/go-ethereum/common"
	"github.com/tellor-io/layer/utils"

	"cosmossdk.io/math"

	sdk "github.com/cosmos/cosmos-sdk/types"
	bankkeeper "github.com/cosmos/cosmos-sdk/x/bank/keeper"
)

// family "supply" (C03, also the C02 "no halt" oracle and the C04 module-balance observations):
//   input : nvals | naccts | ops
//   output: per block  "B h=<h> t=<ns> err=<..> proc=<..> supply=<n> tbr=<n> fee=<n> oracle=<n> tips=<n> dispute=<n> bridge=<n>
//                       inv=<ok|broken> ev=<documented events> txs=<kind:ok|rej,…>"   joined by " ;; "
// documented events (what the property text names, derived from the submitted operations and tx results, never from
// bank events):  t:<ns>  minit  tip:<amt>  wd:<amt>  claim:<loya>  exec:<burn>  dust:<amt>(from the refund tx's burn event)
func init() {
	register(&Family{Name: "supply", Gen: genSupplyHist, Run: runSupplyHist})
}

// DepositValue = abi.encode(address ethSender, string layerRecipient, uint256 amount, uint256 tip) as reporters submit it
func DepositValue(recipient string, amount, tip *big.Int) string {
	at, _ := abi.NewType("address", "", nil)
	st, _ := abi.NewType("string", "", nil)
	ut, _ := abi.NewType("uint256", "", nil)
	b, err := abi.Arguments{{Type: at}, {Type: st}, {Type: ut}, {Type: ut}}.Pack(common.HexToAddress("0x00000000000000000000000000000000000000aa"), recipient, amount, tip)
	if err != nil {
		return ""
	}
	return hex.EncodeToString(b)
}

// decodeDepositAmount: harness-side reading of amount / tip words of a deposit value (independent of the keeper)
func decodeDepositAmount(valueHex string) (amount, tip *big.Int, ok bool) {
	b, err := hex.DecodeString(valueHex)
	if err != nil || len(b) < 128 {
		return nil, nil, false
	}
	return new(big.Int).SetBytes(b[64:96]), new(big.Int).SetBytes(b[96:128]), true
}

type dispSnap struct {
	executed bool
	burn     math.Int
	voters   bool
	status   string
}

func snapDisputes(c *Chain) map[uint64]dispSnap {
	out := map[uint64]dispSnap{}
	ctx := c.Ctx()
	it, err := c.App.DisputeKeeper.Disputes.Iterate(ctx, nil)
	if err != nil {
		return out
	}
	defer it.Close()
	for ; it.Valid(); it.Next() {
		id, _ := it.Key()
		d, _ := it.Value()
		v, err := c.App.DisputeKeeper.Votes.Get(ctx, id)
		tot, _ := c.App.DisputeKeeper.GetSumOfAllGroupVotesAllRounds(ctx, id)
		out[id] = dispSnap{executed: err == nil && v.Executed, burn: d.BurnAmount, voters: !tot.IsZero(), status: d.DisputeStatus.String()}
	}
	return out
}

func supplyObserver(prev *map[uint64]dispSnap, minterInit *bool) func(h *Hist, br *BlockResult, pend []pendingTx) {
	return func(h *Hist, br *BlockResult, pend []pendingTx) {
		c := h.C
		if br.Process != "ACCEPT" {
			h.Out = append(h.Out, fmt.Sprintf("B h=%d proc=%s prep=%s", br.Height, br.Process, shortLog(br.Prepare)))
			return
		}
		if br.Err != "" {
			h.Out = append(h.Out, fmt.Sprintf("B h=%d err=%s", br.Height, shortLog(br.Err)))
			return
		}
		ctx := c.Ctx()
		var ev []string
		ev = append(ev, fmt.Sprintf("t:%d", c.Time.UnixNano()))
		m, err := c.App.MintKeeper.Minter.Get(ctx)
		if err == nil && m.Initialized && !*minterInit {
			*minterInit = true
			ev = append(ev, "minit")
		}
		off := br.InjectedN
		for i, p := range pend {
			if off+i >= len(br.Txs) || br.Txs[off+i].Code != 0 {
				continue
			}
			switch p.kind {
			case "tip":
				ev = append(ev, "tip:"+p.info["amt"])
			case "wd":
				ev = append(ev, "wd:"+p.info["amt"])
			case "claimdep":
				sum := new(big.Int)
				ids := strings.Split(p.info["ids"], ",")
				idxs := strings.Split(p.info["idxs"], ",")
				for j := range ids {
					id, _ := strconv.ParseUint(ids[j], 10, 64)
					idx := uint64(0)
					if j < len(idxs) {
						idx, _ = strconv.ParseUint(idxs[j], 10, 64)
					}
					qid := utils.QueryIDFromData(DepositQueryData(id, true))
					agg, _, err := c.App.OracleKeeper.GetAggregateByIndex(ctx, qid, idx)
					if err == nil && agg != nil {
						if amt, _, ok := decodeDepositAmount(agg.AggregateValue); ok {
							sum.Add(sum, new(big.Int).Div(amt, big.NewInt(1e12)))
						}
					}
				}
				ev = append(ev, "claim:"+sum.String())
			case "wfr":
				// dust burnt inside a refund transaction: taken from that transaction's own burn event
				ev = append(ev, "dust:"+burnInTx(br, off+i))
			}
		}
		now := snapDisputes(c)
		for id, d := range now {
			if d.executed && !(*prev)[id].executed {
				b := (*prev)[id].burn
				if b.IsNil() {
					b = d.burn
				}
				if d.voters {
					ev = append(ev, "exec:"+b.QuoRaw(2).String())
				} else {
					ev = append(ev, "exec:"+b.String())
				}
			}
		}
		*prev = now
		inv := "ok"
		if msg, broken := bankkeeper.TotalSupply(c.App.BankKeeper)(ctx); broken {
			inv = "broken:" + shortLog(msg)
		}
		// ledgers the escrow accounts have to cover (C04): unpaid tips on open queries, selector reward credits
		qsum := math.ZeroInt()
		if it, err := c.App.OracleKeeper.Query.Iterate(ctx, nil); err == nil {
			for ; it.Valid(); it.Next() {
				if q, err := it.Value(); err == nil {
					qsum = qsum.Add(q.Amount)
				}
			}
			it.Close()
		}
		tipsum := math.LegacyZeroDec()
		ntips := 0
		if it, err := c.App.ReporterKeeper.SelectorTips.Iterate(ctx, nil); err == nil {
			for ; it.Valid(); it.Next() {
				if v, err := it.Value(); err == nil {
					tipsum = tipsum.Add(v)
					ntips++
				}
			}
			it.Close()
		}
		h.Out = append(h.Out, fmt.Sprintf("B h=%d err= supply=%s tbr=%s fee=%s oracle=%s tips=%s dispute=%s bridge=%s inv=%s qsum=%s tipsum=%s ntips=%d ev=%s txs=%s",
			br.Height, c.Supply(), c.ModBal("time_based_rewards"), c.ModBal("fee_collector"), c.ModBal("oracle"), c.ModBal("tips_escrow_pool"),
			c.ModBal("dispute"), c.ModBal("bridge"), inv, qsum, tipsum.BigInt().String(), ntips, strings.Join(ev, ","), strings.Join(txClasses(br, pend), ",")))
	}
}

// burnInTx sums the `burn` events of one tx result (the harness reads the event log of that transaction)
func burnInTx(br *BlockResult, i int) string {
	// tx events are not kept in TxResult; the FinalizeBlock response stores them per tx — kept minimal: parse from log is
	// not possible, so the chain records them separately
	if i < len(br.TxBurns) {
		return br.TxBurns[i]
	}
	return "0"
}

func genSupplyHist(r *Rng, i int, tier string) []string {
	nv := 1 + r.Intn(3)
	na := 3
	subMs := r.Chance(1, 3) // a third of the histories run on block times with a sub-millisecond part
	var ops []string
	add := func(s string, a ...any) { ops = append(ops, fmt.Sprintf(s, a...)) }
	blk := func() {
		dt := r.Pick(1, 2, 999, 1000, 1001, 1500, 5000, 60000, 3600000)
		if r.Chance(1, 30) {
			dt = r.Pick(86400000, 3*86400000, 22*86400000)
		}
		if subMs && r.Chance(1, 2) { // block times off the millisecond grid (the elapsed time is cut to whole milliseconds)
			add("blk %d ns=%d", dt, r.Pick(1, 100000, 499999, 500000, 900000, 999999, r.Range(1, 999999)))
			return
		}
		add("blk %d", dt)
	}
	blk()
	blk()
	// reporters
	add("mkrep v0 0 1000000")
	blk()
	mintPlanned := r.Chance(3, 4)
	if mintPlanned {
		add("gov mintinit")
		blk()
		add("govvote")
		blk()
		add("blk 21000")
	}
	depositId := uint64(1)
	nops := 20 + r.Intn(40)
	if tier == "thorough" {
		nops = 40 + r.Intn(80)
	}
	for k := 0; k < nops; k++ {
		acct := fmt.Sprintf("a%d", r.Intn(na))
		switch r.Intn(14) {
		case 0, 1, 2:
			amt := r.Pick(1, 49, 50, 51, 99, 100, 1000000, r.Range(1, 1e9))
			add("tip %s q%d %d", acct, r.Intn(3), amt)
		case 3:
			add("send %s a%d %d", acct, r.Intn(na), r.Range(1, 1e6))
		case 4:
			add("rep v0 q%d %064x", r.Intn(3), r.Range(1, 1e9))
		case 5:
			add("del %s v%d %d", acct, r.Intn(nv), r.Range(1e6, 1e8))
		case 6:
			add("wd %s %d %040x", acct, r.Pick(1, 1000, r.Range(1, 1e9)), r.U64())
		case 7: // bridge deposit report, later claimed
			amount := new(big.Int).Mul(big.NewInt(r.Range(1, 5000)), big.NewInt(1e12))
			if r.Chance(1, 3) {
				amount.Add(amount, big.NewInt(r.Range(0, 999999999999)))
			}
			tip := big.NewInt(0)
			if r.Chance(1, 2) {
				tip = new(big.Int).Div(amount, big.NewInt(r.Range(2, 50)))
			}
			add("rep v0 dep%d %s", depositId, DepositValue(sdk.AccAddress([]byte(fmt.Sprintf("recipient%011d", depositId))).String(), amount, tip))
			depositId++
		case 8:
			if depositId > 1 {
				add("claimdep %s %d 0", acct, 1+r.Intn(int(depositId-1)))
			}
		case 9:
			add("blk %d", 13*3600*1000) // let deposits age
		case 10:
			add("undel v0 v0 %d", r.Range(1, 1e6))
		case 11:
			add("disp %s R%d %d %d 0", acct, r.Intn(5), 1+r.Intn(3), r.Pick(1e9, 1e10, 1e11))
		case 12:
			add("vote %s %d %s", []string{"v0", acct}[r.Intn(2)], 1+r.Intn(2), []string{"s", "a", "i"}[r.Intn(3)])
		default:
			blk()
		}
		if r.Chance(1, 3) {
			blk()
		}
	}
	blk()
	blk()
	return []string{fmt.Sprint(nv), fmt.Sprint(na), strings.Join(ops, ";")}
}

func runSupplyHist(t *testing.T, in []string) string {
	nv, _ := strconv.Atoi(in[0])
	na, _ := strconv.Atoi(in[1])
	cfg := ChainCfg{NVals: nv, NAccts: na}
	if len(in) > 3 { // optional: the staking module's validator cap
		if m, err := strconv.Atoi(in[3]); err == nil && m > 0 {
			cfg.MaxValidators = uint32(m)
		}
	}
	c, err := NewChain(cfg)
	if err != nil {
		return "err:newchain:" + shortLog(err.Error())
	}
	defer c.Close()
	h := NewHist(c)
	prev := map[uint64]dispSnap{}
	minit := false
	h.Observe = supplyObserver(&prev, &minit)
	h.Out = append(h.Out, fmt.Sprintf("G supply=%s t=%d", c.Supply(), c.Time.UnixNano()))
	for _, op := range strings.Split(in[2], ";") {
		h.Exec(op)
		if c.Halted != "" {
			break
		}
	}
	return strings.Join(h.Out, " ;; ")
}

// family "nohalt" (C02): the same runner with a wider, more hostile operation mix; the monitor only asks that every
// block is produced (no FinalizeBlock error/panic, no rejected honest proposal).
func init() {
	register(&Family{Name: "nohalt", Gen: genNoHaltHist, Run: runSupplyHist})
	// family "escrow" (C04): reward-heavy histories (tips, cycle-list reports by several reporters with selectors and
	// commissions, tip withdrawals); the monitor compares module balances with the ledgers they have to cover
	register(&Family{Name: "escrow", Gen: genEscrowHist, Run: runSupplyHist})
}

func genEscrowHist(r *Rng, i int, tier string) []string {
	nv := 2 + r.Intn(2)
	na := 4
	var ops []string
	add := func(s string, a ...any) { ops = append(ops, fmt.Sprintf(s, a...)) }
	blk := func() { add("blk %d", r.Pick(1000, 1000, 1500, 5000, 60000)) }
	blk()
	blk()
	rate := func() int64 { return r.Pick(0, 1, 500000000000000000, 1000000000000000000, 250000000000000000) }
	add("mkrep v0 %d 1000000", rate())
	add("mkrep v1 %d 1000000", rate())
	blk()
	if r.Chance(4, 5) {
		add("gov mintinit")
		blk()
		add("govvote")
		add("blk 1000")
		add("blk 21000")
	}
	// selectors: accounts delegate to one or two validators, then select a reporter
	for a := 0; a < na; a++ {
		if r.Chance(3, 4) {
			add("del a%d v%d %d", a, r.Intn(nv), r.Range(2e6, 3e7))
			if r.Chance(1, 2) {
				add("del a%d v%d %d", a, r.Intn(nv), r.Range(2e6, 3e7))
			}
			blk()
			add("sel a%d v%d", a, r.Intn(2))
		}
	}
	blk()
	nops := 30 + r.Intn(40)
	if tier == "thorough" {
		nops = 80 + r.Intn(100)
	}
	for k := 0; k < nops; k++ {
		acct := fmt.Sprintf("a%d", r.Intn(na))
		switch r.Intn(10) {
		case 0, 1:
			add("tip %s q%d %d", acct, r.Intn(3), r.Pick(1, 50, 1000003, r.Range(1, 1e9)))
		case 2, 3, 4:
			add("rep v%d q%d %064x", r.Intn(2), r.Intn(3), r.Range(1, 1e9))
		case 5:
			add("wtip %s v%d", []string{acct, "v0", "v1"}[r.Intn(3)], r.Intn(nv))
		case 6:
			add("sw %s v%d", acct, r.Intn(2))
		case 7:
			add("del %s v%d %d", acct, r.Intn(nv), r.Range(1e6, 2e7))
		case 8:
			add("undel %s v%d %d", acct, r.Intn(nv), r.Range(1e6, 2e7))
		default:
			blk()
		}
		if r.Chance(1, 2) {
			blk()
		}
	}
	blk()
	blk()
	blk()
	return []string{fmt.Sprint(nv), fmt.Sprint(na), strings.Join(ops, ";")}
}

func hostileValue(r *Rng) string {
	v := fmt.Sprintf("%064x", r.Range(1, 1e12))
	switch r.Intn(9) {
	case 0:
		return "0x" + v
	case 1:
		return "0X" + v
	case 2:
		return v[:63]
	case 3:
		return ""
	case 4:
		return strings.ToUpper(v)
	case 5:
		return v + v
	case 6:
		return "zz" + v[2:]
	case 7:
		return strings.Repeat("f", 64)
	}
	return v
}

func genNoHaltHist(r *Rng, i int, tier string) []string {
	nv := 2 + r.Intn(3) // the last validator never reports and is never disputed: the chain always keeps a validator
	na := 4
	var ops []string
	add := func(s string, a ...any) { ops = append(ops, fmt.Sprintf(s, a...)) }
	blk := func() {
		dt := r.Pick(1, 1, 2, 3, 999, 1000, 1001, 5000, 60000, 3600000)
		if r.Chance(1, 25) {
			dt = r.Pick(86400000, 2*86400000, 3*86400000+1, 22*86400000)
		}
		add("blk %d", dt)
	}
	blk()
	blk()
	add("mkrep v0 0 1000000")
	if nv >= 3 {
		add("mkrep v1 %d 1000000", r.Pick(0, 500000000000000000))
	}
	blk()
	if r.Chance(3, 4) {
		add("gov mintinit")
		blk()
		add("govvote")
		add("blk 1000")
		add("blk 21000")
	}
	add("addq SpotPrice xrp usd")
	nops := 25 + r.Intn(50)
	if tier == "thorough" {
		nops = 60 + r.Intn(120)
	}
	reporters := []string{"v0"}
	if nv >= 3 {
		reporters = append(reporters, "v1")
	}
	dispN := 0
	// downtime variant (four validators, 1 in 3): somewhere in the history the reporter-validator v1 misses the signing window, is
	// slashed and jailed by the slashing module and asks to be unjailed ten minutes later (exchange rate 0.99 afterwards)
	jailAt := -1
	if nv >= 4 && r.Chance(1, 3) {
		jailAt = r.Intn(nops)
	}
	// double-sign variant (1 in 4): evidence against the reporter-validator v1 (slashed 5 %, jailed for ever)
	dsAt := -1
	if nv >= 3 && jailAt < 0 && r.Chance(1, 4) {
		dsAt = r.Intn(nops)
	}
	for k := 0; k < nops; k++ {
		if k == jailAt {
			downtime(add, "v1")
		}
		if k == dsAt {
			add("blk 1000 dsign=v1")
		}
		acct := fmt.Sprintf("a%d", r.Intn(na))
		rp := reporters[r.Intn(len(reporters))]
		switch r.Intn(24) {
		case 0, 1:
			add("tip %s q%d %d", acct, r.Intn(4), r.Pick(1, 49, 50, 1000000, r.Range(1, 1e9)))
		case 2, 3, 4:
			add("rep %s q%d %s", rp, r.Intn(4), hostileValue(r))
		case 5:
			add("send %s a%d %d", acct, r.Intn(na), r.Range(1, 1e6))
		case 6:
			add("del %s v%d %d", acct, r.Intn(nv), r.Range(1e6, 1e9))
		case 7:
			add("undel %s v%d %d", []string{acct, rp}[r.Intn(2)], r.Intn(nv), r.Range(1, 1e8))
		case 8:
			add("redel %s v%d v%d %d", acct, r.Intn(nv), r.Intn(nv), r.Range(1, 1e8))
		case 9:
			add("sel %s %s", acct, rp)
		case 10:
			add("sw %s %s", acct, reporters[r.Intn(len(reporters))])
		case 11:
			add("wd %s %d %040x", acct, r.Pick(1, 1000, r.Range(1, 1e9)), r.U64())
		case 12:
			add("wtip %s v%d", []string{acct, rp}[r.Intn(2)], r.Intn(nv))
		case 13:
			cat := 1 + r.Intn(3)
			mut := []string{"", "", " val", " pow", " fake"}[r.Intn(5)]
			add("disp %s R%d %d %d %d%s", []string{acct, rp}[r.Intn(2)], r.Intn(6), cat, r.Pick(10000000, 1e9, 1e10, 1e11), r.Intn(2), mut)
			dispN++
		case 14:
			if dispN > 0 {
				add("addfee %s %d %d %d", acct, 1+r.Intn(dispN), r.Pick(1, 1e7, 1e9, 1e11), r.Intn(2))
			}
		case 15, 16:
			if dispN > 0 {
				who := []string{acct, rp, "v0", fmt.Sprintf("v%d", nv-1)}[r.Intn(4)]
				add("vote %s %d %s", who, 1+r.Intn(dispN+1), []string{"s", "a", "i"}[r.Intn(3)])
			}
		case 17:
			if dispN > 0 {
				add("wfr %s %s %d", acct, fmt.Sprintf("a%d", r.Intn(na)), 1+r.Intn(dispN))
				add("claim %s %d", acct, 1+r.Intn(dispN))
			}
		case 18:
			add("reqatt %s q%d i%d", acct, r.Intn(3), r.Intn(3))
		case 19:
			add("unjail %s", rp)
		case 20:
			if r.Chance(1, 3) {
				var qs []string
				n := r.Intn(4)
				for j := 0; j < n; j++ {
					qs = append(qs, fmt.Sprintf("q%d", r.Intn(4)))
				}
				l := strings.Join(qs, ",")
				if l == "" {
					l = "-"
				}
				add("gov cyclelist %s", l)
				blk()
				add("govvote")
				add("blk 1000")
				add("blk 21000")
			}
		case 21:
			add("evid %s %d R%d%s", acct, 1+r.Intn(dispN+1), r.Intn(6), []string{"", " fake"}[r.Intn(2)])
		case 22:
			add("rmsel %s a%d", acct, r.Intn(na))
		default:
			blk()
		}
		if r.Chance(2, 5) {
			blk()
		}
	}
	blk()
	// a dispute whose fee is completed late (up to a day after the proposal): its voting period then ends later than two days
	// after the proposal; blocks fall between the two deadlines, nobody (or only small voters) votes
	if r.Chance(1, 4) {
		const hour = 3600000
		add("tip a0 q1 1000")
		add("blk 1000")
		add("rep v0 q1 %064x", r.Range(1, 1e9))
		add("blk 1000")
		add("disp a1 R%d %d %d 0", r.Intn(8), 1+r.Intn(3), r.Pick(100000, 1000000, 10000))
		add("blk 1000") // proposed at T0
		add("blk %d", r.Pick(12*hour, 23*hour, 6*hour, hour))
		add("addfee a2 %d 1000000000000 0", dispN+1)
		add("addfee a2 %d 1000000000000 0", dispN)
		dispN++
		add("blk 1000") // fee completed at T1 = T0 + gap
		add("blk %d", 48*hour-r.Pick(hour, 5*hour, 11*hour, 22*hour))
		add("blk 1000")
		add("blk %d", r.Pick(hour, 6*hour, 12*hour))
		add("blk 1000")
	}
	add("blk %d", 3*86400000+5)
	blk()
	blk()
	// a validator cap of 2 lets newcomers displace bonded validators (who then hold no EVM address for a few blocks):
	// a ladder of growing delegations, one per block, replaces the whole bonded set within two blocks
	maxv := r.Pick(100, 100, 100, 100, 2)
	if maxv == 2 && nv >= 3 {
		var ladder []string
		perm := make([]int, nv)
		for j := range perm {
			perm[j] = j
		}
		for j := nv - 1; j > 0; j-- {
			k := r.Intn(j + 1)
			perm[j], perm[k] = perm[k], perm[j]
		}
		for j, v := range perm {
			ladder = append(ladder, fmt.Sprintf("del a%d v%d %d", j%na, v, int64(j+1)*10000000), fmt.Sprintf("blk %d", r.Pick(1000, 5000)))
		}
		at := 3 + r.Intn(len(ops)-3)
		ops = append(ops[:at], append(ladder, ops[at:]...)...)
	}
	return []string{fmt.Sprint(nv), fmt.Sprint(na), strings.Join(ops, ";"), fmt.Sprint(maxv)}
}
