package harness

import (
	"strings"
	"testing"
	"time"

	"github.com/stretchr/testify/mock"
	"github.com/tellor-io/layer/testutil/encoding"
	keepertest "github.com/tellor-io/layer/testutil/keeper"
	"github.com/tellor-io/layer/testutil/sample"
	rante "github.com/tellor-io/layer/x/reporter/ante"
	reportertypes "github.com/tellor-io/layer/x/reporter/types"

	"cosmossdk.io/math"

	"github.com/cosmos/cosmos-sdk/client"
	sdk "github.com/cosmos/cosmos-sdk/types"
	stakingtypes "github.com/cosmos/cosmos-sdk/x/staking/types"
)

// family "ante": the real TrackStakeChangesDecorator over a real reporter keeper store (tracker) and a
// staking keeper whose TotalBondedTokens is the generated value.
// input : tracker ("-" = not set, else amount) | bonded | msgs  (comma list  c:<a> d:<a> r:<a> x:<a> u:<a> o)
// output: admit | reject
func init() {
	register(&Family{Name: "ante", Gen: genAnte, Run: runAnte})
	register(&Family{Name: "track", Gen: genTrack, Run: runTrack})
}

func genAnte(r *Rng, i int, tier string) []string {
	base := r.Pick(0, 1, 19, 20, 21, 100, 105, 1000, 1000000, 1000000000000, r.Range(0, 1<<40))
	var bonded int64
	switch r.Intn(4) {
	case 0:
		bonded = base
	case 1:
		bonded = base + base/20 - r.Range(0, 3)
	case 2:
		bonded = base - base/20 + r.Range(0, 3)
	default:
		bonded = base + r.Range(-base/10, base/10)
	}
	if bonded < 0 {
		bonded = 0
	}
	n := 1 + r.Intn(6)
	slackUp := base + base/20 - bonded
	slackDn := bonded - (base - base/20)
	var msgs []string
	for j := 0; j < n; j++ {
		kinds := []string{"c", "d", "r", "x", "u", "u", "o"}
		k := kinds[r.Intn(len(kinds))]
		if k == "o" {
			msgs = append(msgs, "o")
			continue
		}
		slack := slackUp
		if k == "u" {
			slack = slackDn
		}
		if slack < 1 {
			slack = 1
		}
		var a int64
		switch r.Intn(5) {
		case 0:
			a = slack + r.Range(-1, 1)
		case 1:
			a = slack/int64(n) + r.Range(0, 1)
		case 2:
			a = slack/2 + r.Range(0, 2)
		case 3:
			a = r.Range(1, slack)
		default:
			a = r.Range(1, 2*slack+2)
		}
		if a < 1 {
			a = 1
		}
		msgs = append(msgs, k+":"+math.NewInt(a).String())
	}
	tr := math.NewInt(base).String()
	if r.Chance(1, 50) {
		tr = "-"
	}
	return []string{tr, math.NewInt(bonded).String(), strings.Join(msgs, ",")}
}

func runAnte(t *testing.T, in []string) string {
	k, sk, _, _, ctx, _ := keepertest.ReporterKeeper(t)
	bonded, _ := math.NewIntFromString(in[1])
	sk.On("TotalBondedTokens", mock.Anything).Return(bonded, nil)
	if in[0] != "-" {
		amt, _ := math.NewIntFromString(in[0])
		if err := k.Tracker.Set(ctx, reportertypes.StakeTracker{Expiration: nil, Amount: amt}); err != nil {
			return "err:" + err.Error()
		}
	}
	var msgs []sdk.Msg
	a1, a2 := sample.AccAddressBytes().String(), sample.AccAddressBytes().String()
	for _, m := range strings.Split(in[2], ",") {
		if m == "" {
			continue
		}
		if m == "o" {
			msgs = append(msgs, &reportertypes.MsgUpdateParams{Authority: a1, Params: reportertypes.Params{}})
			continue
		}
		amt, _ := math.NewIntFromString(m[2:])
		coin := sdk.Coin{Denom: "loya", Amount: amt}
		switch m[0] {
		case 'c':
			msgs = append(msgs, &stakingtypes.MsgCreateValidator{Value: coin})
		case 'd':
			msgs = append(msgs, &stakingtypes.MsgDelegate{DelegatorAddress: a1, ValidatorAddress: a2, Amount: coin})
		case 'r':
			msgs = append(msgs, &stakingtypes.MsgBeginRedelegate{DelegatorAddress: a1, ValidatorSrcAddress: a2, ValidatorDstAddress: a1, Amount: coin})
		case 'x':
			msgs = append(msgs, &stakingtypes.MsgCancelUnbondingDelegation{DelegatorAddress: a1, ValidatorAddress: a2, Amount: coin})
		case 'u':
			msgs = append(msgs, &stakingtypes.MsgUndelegate{DelegatorAddress: a1, ValidatorAddress: a2, Amount: coin})
		}
	}
	s := encoding.GetTestEncodingCfg()
	txb := client.Context{}.WithTxConfig(s.TxConfig).TxConfig.NewTxBuilder()
	if err := txb.SetMsgs(msgs...); err != nil {
		return "err:" + err.Error()
	}
	reached := false
	dec := rante.NewTrackStakeChangesDecorator(k, sk)
	_, err := dec.AnteHandle(ctx, txb.GetTx(), false, func(ctx sdk.Context, tx sdk.Tx, simulate bool) (sdk.Context, error) {
		reached = true
		return ctx, nil
	})
	_ = reached
	if err != nil {
		return "reject"
	}
	return "admit"
}

// family "track": TrackStakeChange over a sequence of blocks.
// input : amount0 | expiry0(ns) | blocks (comma list  t_ns:bonded)
// output: comma list amount:expiry after each block
func genTrack(r *Rng, i int, tier string) []string {
	t0 := int64(1700000000) * 1e9
	exp := t0 + r.Range(0, 3600)*1e9
	n := 1 + r.Intn(8)
	var bl []string
	tcur := t0
	for j := 0; j < n; j++ {
		switch r.Intn(5) {
		case 0:
			tcur += 1e6
		case 1:
			tcur += r.Range(1, 13*3600) * 1e9
		case 2:
			tcur = exp + r.Range(-1, 1) // boundary
			if tcur < t0 {
				tcur = t0
			}
		case 3:
			tcur += 12 * 3600 * 1e9
		default:
			tcur += r.Range(1, 1e9)
		}
		bl = append(bl, math.NewInt(tcur).String()+":"+math.NewInt(r.Range(0, 1e12)).String())
	}
	return []string{math.NewInt(r.Range(0, 1e12)).String(), math.NewInt(exp).String(), strings.Join(bl, ",")}
}

func runTrack(t *testing.T, in []string) string {
	k, sk, _, _, ctx, _ := keepertest.ReporterKeeper(t)
	amt, _ := math.NewIntFromString(in[0])
	expNs, _ := math.NewIntFromString(in[1])
	exp := time.Unix(0, expNs.Int64()).UTC()
	if err := k.Tracker.Set(ctx, reportertypes.StakeTracker{Expiration: &exp, Amount: amt}); err != nil {
		return "err:" + err.Error()
	}
	var outs []string
	for _, b := range strings.Split(in[2], ",") {
		p := strings.Split(b, ":")
		tn, _ := math.NewIntFromString(p[0])
		bonded, _ := math.NewIntFromString(p[1])
		sk.ExpectedCalls = nil
		sk.On("TotalBondedTokens", mock.Anything).Return(bonded, nil)
		c := ctx.WithBlockTime(time.Unix(0, tn.Int64()).UTC())
		if err := k.TrackStakeChange(c); err != nil {
			return "err:" + err.Error()
		}
		tr, err := k.Tracker.Get(c)
		if err != nil {
			return "err:" + err.Error()
		}
		outs = append(outs, tr.Amount.String()+":"+math.NewInt(tr.Expiration.UnixNano()).String())
	}
	return strings.Join(outs, ",")
}
