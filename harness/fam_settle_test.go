package harness

import (
	"encoding/hex"
	"encoding/json"
	"fmt"
	"os"
	"sort"
	"strconv"
	"strings"
	"testing"

	"cosmossdk.io/math"

	sdk "github.com/cosmos/cosmos-sdk/types"

	disputetypes "github.com/tellor-io/layer/x/dispute/types"
)

// family "settle" (C13, C12 lifecycle, C05): one disputed report per history, every fee pattern, votes of every group, rounds,
// execution, claims in any order (repeated, by non-parties).  Per block, besides X/N/V/D/S/R/U/P of the other families:
//   B dispute=<module balance> supply=<total supply> dust=<Dust item>
//   E id:status:result:executed:slash:burn:fee(DisputeFee):feeTotal:voterReward:round:open:pending:prev=<ids>:endMs:block
//   F id:payer:amount:frombond            payer records
//   T id:voter:vote:reporterPower:tokenholderPower:claimed:tipsAtDisputeBlock      voter records
//   C id:users=s/a/i:reporters=s/a/i:holders=s/a/i:team=<vote>     vote counts by group
//   H name=liquid/delegated(+unbonding)   holdings
func init() {
	register(&Family{Name: "settle", Gen: genSettleHist, Run: runSettleHist})
	register(&Family{Name: "ledgersettle", Gen: genSettleHist, Run: runSettleHist}) // C05: the same histories, ledger monitors
	register(&Family{Name: "lifecycle", Gen: genSettleHist, Run: runSettleHist})    // C12: the same histories, life-cycle and vote monitors
	register(&Family{Name: "coversettle", Gen: genSettleHist, Run: runSettleHist})  // C04: the same histories, the dispute account covers what it owes
	register(&Family{Name: "nohaltsettle", Gen: genSettleHist, Run: runSettleHist}) // C02: the same histories never stop the chain
	register(&Family{Name: "framesettle", Gen: genSettleHist, Run: runSettleHist}) // C19: the same histories, pay-outs go to the party they are owed to
	// C13: the richer histories (groups of selectors, fees paid from stake in several parts) under the settlement monitors
	register(&Family{Name: "settlerich", Gen: func(r *Rng, i int, tier string) []string {
		settleRich = true
		defer func() { settleRich = false }()
		return genSettleHist(r, i, tier)
	}, Run: runSettleHist})
	register(&Family{Name: "apphashsettle", Gen: func(r *Rng, i int, tier string) []string {
		settleRich = true
		defer func() { settleRich = false }()
		return genSettleHist(r, i, tier)
	}, Run: runAppHashSettle})
	// C05: fees paid from stake against the model of FeefromReporterStake (mostly the directed variant, richer groups)
	register(&Family{Name: "feestake", Gen: func(r *Rng, i int, tier string) []string {
		settleRich = true
		defer func() { settleRich = false }()
		return genSettleHist(r, i, tier)
	}, Run: runSettleHist})
}

func dumpSettle(c *Chain) []string {
	ctx := c.Ctx()
	dust := math.ZeroInt()
	if d, err := c.App.DisputeKeeper.Dust.Get(ctx); err == nil {
		dust = d
	}
	out := []string{fmt.Sprintf("B dispute=%s supply=%s dust=%s", c.ModBal("dispute"), c.Supply(), dust)}
	var es, fs, ts, cs []string
	blockOf := map[uint64]uint64{}
	if it, err := c.App.DisputeKeeper.Disputes.Iterate(ctx, nil); err == nil {
		for ; it.Valid(); it.Next() {
			kv, _ := it.KeyValue()
			d := kv.Value
			blockOf[d.DisputeId] = d.BlockNumber
			res, exec := 0, false
			if v, err := c.App.DisputeKeeper.Votes.Get(ctx, d.DisputeId); err == nil {
				res, exec = int(v.VoteResult), v.Executed
			}
			var prev []string
			for _, p := range d.PrevDisputeIds {
				prev = append(prev, fmt.Sprint(p))
			}
			vr := "0"
			if !d.VoterReward.IsNil() {
				vr = d.VoterReward.String()
			}
			es = append(es, fmt.Sprintf("%d:%d:%d:%v:%s:%s:%s:%s:%s:%d:%v:%v:%s:%d:%d", d.DisputeId, d.DisputeStatus, res, exec, d.SlashAmount, d.BurnAmount, d.DisputeFee, d.FeeTotal,
				vr, d.DisputeRound, d.Open, d.PendingExecution, strings.Join(prev, "+"), d.DisputeEndTime.UnixMilli(), d.BlockNumber))
		}
		it.Close()
	}
	if it, err := c.App.DisputeKeeper.DisputeFeePayer.Iterate(ctx, nil); err == nil {
		for ; it.Valid(); it.Next() {
			kv, _ := it.KeyValue()
			fs = append(fs, fmt.Sprintf("%d:%s:%s:%v", kv.Key.K1(), c.nameOf(kv.Key.K2()), kv.Value.Amount, kv.Value.FromBond))
		}
		it.Close()
	}
	if it, err := c.App.DisputeKeeper.Voter.Iterate(ctx, nil); err == nil {
		for ; it.Valid(); it.Next() {
			kv, _ := it.KeyValue()
			tips := math.ZeroInt()
			if t, err := c.App.OracleKeeper.GetTipsAtBlockForTipper(ctx, blockOf[kv.Key.K1()], kv.Key.K2()); err == nil {
				tips = t
			}
			// the voter's reporter group (its current selection) and that reporter's stake at the dispute's block
			grp, gst := "-", math.ZeroInt()
			if sel, err := c.App.ReporterKeeper.Selectors.Get(ctx, kv.Key.K2()); err == nil {
				grp = c.nameOf(sel.Reporter)
				if st, err := c.App.ReporterKeeper.GetReporterTokensAtBlock(ctx, sel.Reporter, blockOf[kv.Key.K1()]); err == nil {
					gst = st
				}
			}
			ts = append(ts, fmt.Sprintf("%d:%s:%d:%s:%s:%v:%s:%s:%s", kv.Key.K1(), c.nameOf(kv.Key.K2()), kv.Value.Vote, kv.Value.ReporterPower, kv.Value.TokenholderPower, kv.Value.RewardClaimed, tips, grp, gst))
		}
		it.Close()
	}
	if it, err := c.App.DisputeKeeper.VoteCountsByGroup.Iterate(ctx, nil); err == nil {
		for ; it.Valid(); it.Next() {
			kv, _ := it.KeyValue()
			v := kv.Value
			cs = append(cs, fmt.Sprintf("%d:%d/%d/%d:%d/%d/%d:%d/%d/%d:%d/%d/%d", kv.Key, v.Users.Support, v.Users.Against, v.Users.Invalid, v.Reporters.Support, v.Reporters.Against, v.Reporters.Invalid,
				v.Tokenholders.Support, v.Tokenholders.Against, v.Tokenholders.Invalid, v.Team.Support, v.Team.Against, v.Team.Invalid))
		}
		it.Close()
	}
	out = append(out, "E "+strings.Join(es, ","), "F "+strings.Join(fs, ","), "T "+strings.Join(ts, ","), "C "+strings.Join(cs, ","))
	// holdings: liquid and staked (delegations at the exchange rate + unbonding balances)
	var names []string
	for n := range c.byName {
		names = append(names, n)
	}
	sort.Strings(names)
	var hs []string
	for _, n := range names {
		a := c.byName[n]
		st := math.ZeroInt()
		if ds, err := c.App.StakingKeeper.GetDelegatorDelegations(ctx, a.Addr, 1000); err == nil {
			for _, d := range ds {
				va, _ := sdk.ValAddressFromBech32(d.ValidatorAddress)
				if v, err := c.App.StakingKeeper.GetValidator(ctx, va); err == nil {
					st = st.Add(v.TokensFromShares(d.Shares).TruncateInt())
				}
			}
		}
		if ubds, err := c.App.StakingKeeper.GetAllUnbondingDelegations(ctx, a.Addr); err == nil {
			for _, u := range ubds {
				for _, e := range u.Entries {
					st = st.Add(e.Balance)
				}
			}
		}
		hs = append(hs, fmt.Sprintf("%s=%s/%s", n, c.Bal(a.Addr), st))
	}
	out = append(out, "H "+strings.Join(hs, " "))
	return out
}

// dumpStoreOrder lists the selectors and the delegations in store (key) order: the order in which FeefromReporterStake walks them
//   O sel,sel,…/delegator:validator,delegator:validator,…
func dumpStoreOrder(c *Chain) string {
	ctx := c.Ctx()
	var ss, ds []string
	if it, err := c.App.ReporterKeeper.Selectors.Iterate(ctx, nil); err == nil {
		for ; it.Valid(); it.Next() {
			k, _ := it.Key()
			ss = append(ss, c.nameOf(k))
		}
		it.Close()
	}
	dels, _ := c.App.StakingKeeper.GetAllDelegations(ctx)
	for _, d := range dels {
		da, _ := sdk.AccAddressFromBech32(d.DelegatorAddress)
		va, _ := sdk.ValAddressFromBech32(d.ValidatorAddress)
		ds = append(ds, c.nameOf(da)+":"+c.valName(va))
	}
	return "O " + strings.Join(ss, ",") + "/" + strings.Join(ds, ",")
}

// settleChain builds the chain of a settlement history: validator count, optional validator cap and genesis tokens, a6 as team
func settleChain(in []string) (*Chain, error) {
	nv, _ := strconv.Atoi(in[0])
	cfg := ChainCfg{NVals: nv, NAccts: 7}
	if len(in) > 3 {
		if m, err := strconv.Atoi(in[2]); err == nil && m > 0 {
			cfg.MaxValidators = uint32(m)
		}
		for _, t := range strings.Split(in[3], ",") {
			if v, err := strconv.ParseInt(t, 10, 64); err == nil {
				cfg.ValTokens = append(cfg.ValTokens, v)
			}
		}
	}
	cfg.Mutate = func(c *Chain, gs map[string]json.RawMessage) {
		dg := disputetypes.DefaultGenesis()
		dg.Params.TeamAddress = c.Acct("a6").Addr
		gs[disputetypes.ModuleName] = c.App.AppCodec().MustMarshalJSON(dg)
	}
	return NewChain(cfg)
}

// family "apphashsettle" (C01): the richer settlement histories (groups of selectors, fees paid from stake in several parts, rounds,
// claims) executed three times on fresh chains: the application hash after every block must be the same in all executions
func runAppHashSettle(t *testing.T, in []string) string {
	run := func() ([]string, string) {
		c, err := settleChain(in)
		if err != nil {
			return nil, "err:newchain"
		}
		defer c.Close()
		h := NewHist(c)
		var hashes []string
		h.Observe = func(hh *Hist, br *BlockResult, pend []pendingTx) {
			hashes = append(hashes, fmt.Sprintf("%d:%s:%s", br.Height, hex.EncodeToString(br.AppHash), strings.Join(txClasses(br, pend), ",")))
		}
		for _, op := range strings.Split(in[1], ";") {
			h.Exec(op)
			if c.Halted != "" {
				break
			}
		}
		return hashes, c.Halted
	}
	a, ha := run()
	for k := 0; k < 2; k++ {
		b, hb := run()
		n := len(a)
		if len(b) < n {
			n = len(b)
		}
		for i := 0; i < n; i++ {
			if a[i] != b[i] {
				return fmt.Sprintf("differ at block %d: %s vs %s", i+1, a[i], b[i])
			}
		}
		if len(a) != len(b) || ha != hb {
			return fmt.Sprintf("differ: %d vs %d blocks, halted %q vs %q", len(a), len(b), ha, hb)
		}
	}
	return fmt.Sprintf("equal blocks=%d", len(a))
}

func runSettleHist(t *testing.T, in []string) string {
	nv, _ := strconv.Atoi(in[0])
	cfg := ChainCfg{NVals: nv, NAccts: 7}
	if len(in) > 3 { // optional: validator cap and genesis tokens per validator
		if m, err := strconv.Atoi(in[2]); err == nil && m > 0 {
			cfg.MaxValidators = uint32(m)
		}
		for _, t := range strings.Split(in[3], ",") {
			if v, err := strconv.ParseInt(t, 10, 64); err == nil {
				cfg.ValTokens = append(cfg.ValTokens, v)
			}
		}
	}
	cfg.Mutate = func(c *Chain, gs map[string]json.RawMessage) {
		dg := disputetypes.DefaultGenesis()
		dg.Params.TeamAddress = c.Acct("a6").Addr
		gs[disputetypes.ModuleName] = c.App.AppCodec().MustMarshalJSON(dg)
	}
	c, err := NewChain(cfg)
	if err != nil {
		return "err:newchain:" + shortLog(err.Error())
	}
	defer c.Close()
	h := NewHist(c)
	h.Observe = func(hh *Hist, br *BlockResult, pend []pendingTx) {
		if br.Err != "" || br.Process != "ACCEPT" {
			hh.Out = append(hh.Out, "HALT "+shortLog(br.Err+br.Process))
			return
		}
		for i, p := range pend {
			res := "missing"
			log := ""
			if br.InjectedN+i < len(br.Txs) {
				if br.Txs[br.InjectedN+i].Code == 0 {
					res = "ok"
				} else {
					res = "rej"
					l := br.Txs[br.InjectedN+i].Log
					if strings.Contains(l, "insufficient") {
						log = ":why=insufficient"
					}
					if settleDbg && (p.kind == "claim" || p.kind == "wfr" || p.kind == "disp") {
						fmt.Println(p.op, "->", shortLog(l))
					}
				}
			}
			f := strings.Fields(p.op)
			extra := ""
			switch p.kind {
			case "disp":
				extra = fmt.Sprintf(":cat=%s:fee=%s:bond=%s", f[3], f[4], f[5])
			case "addfee":
				extra = fmt.Sprintf(":id=%s:fee=%s:bond=%s", f[2], f[3], f[4])
			case "vote":
				extra = fmt.Sprintf(":id=%s:v=%s", f[2], f[3])
			case "wfr":
				extra = fmt.Sprintf(":payer=%s:id=%s", f[2], f[3])
			case "claim":
				extra = fmt.Sprintf(":id=%s", f[2])
			}
			hh.Out = append(hh.Out, fmt.Sprintf("X %s:%s:%s%s%s", p.kind, p.signer, res, extra, log))
		}
		hh.Out = append(hh.Out, dumpRepStake(c)...)
		ds := dumpSlash(c)
		hh.Out = append(hh.Out, ds[0], ds[1], ds[3]) // U, P, K
		hh.Out = append(hh.Out, dumpStoreOrder(c))
		hh.Out = append(hh.Out, dumpSettle(c)...)
	}
	for _, op := range strings.Split(in[1], ";") {
		h.Exec(op)
		if c.Halted != "" {
			break
		}
	}
	return strings.Join(h.Out, " ;; ")
}

// settleRich (family feestake): two of three histories are the directed variant, the paying reporter v1 gets a further selector with
// one to three delegations (also to a validator outside the bonded set), and the fee is also paid in several parts from stake
var settleRich = false

func genSettleHist(r *Rng, i int, tier string) []string {
	nv := 3 + r.Intn(2) // the last validator neither reports nor is disputed
	// directed variant (1 in 5): v1 pays a fee from bond, is then pushed out of the bonded set (validator cap 2, a newcomer
	// overtakes it), and the first dispute ends with a refund to a validator that is no longer bonded
	directed := r.Chance(1, 5)
	if settleRich {
		directed = r.Chance(2, 3)
	}
	cfgMaxv, cfgTokens := "100", ""
	if directed {
		nv = 3
		cfgMaxv, cfgTokens = "2", "1100000000,1000000000,990000000"
	}
	var ops []string
	add := func(s string, a ...any) { ops = append(ops, fmt.Sprintf(s, a...)) }
	tx := func(s string, a ...any) { add(s, a...); add("blk %d", r.Pick(1000, 1000, 1500)) }
	odd := func() int64 { return r.Pick(1000000, 1499999, 2500001, 3333333, r.Range(1e6, 9e6)) }
	add("blk 1000")
	add("blk 1000")
	tx("mkrep v0 0 1000000")
	tx("mkrep v1 0 1000000")
	tx("del a0 v%d %d", r.Intn(nv), odd()+1000000)
	tx("mkrep a0 0 1000000")
	tx("del a1 v%d %d", r.Intn(nv), odd())
	tx("sel a1 a0")
	twoSel := r.Chance(1, 2)
	if twoSel { // a second selector of a0 (its stake is part of a0's reporting stake and of its voting weight)
		tx("del a2 v%d %d", r.Intn(nv), odd())
		tx("sel a2 a0")
	}
	// tippers: voting power of the user group
	tx("tip a4 q0 %d", r.Range(1000, 5e6))
	if r.Chance(1, 2) {
		tx("tip a3 q1 %d", r.Range(1000, 5e6))
	}
	if !directed && nv == 4 && r.Chance(1, 3) {
		downtime(add, "v1") // slashed-validator variant: v1's exchange rate is 0.99 from here on (see genSlashHist)
	}
	if directed {
		// v1 pays a large fee from bond: its selector a3 holds a small and a large delegation, so that the first validator cannot
		// cover a3's share of the fee
		tx("del a3 v1 %d", r.Pick(100000, 150000, 200000))
		tx("del a3 v0 %d", r.Range(4e6, 9e6))
		tx("sel a3 v1")
		if settleRich && !twoSel {
			perm := [][]int{{0, 1, 2}, {1, 0, 2}, {2, 0, 1}, {2, 1, 0}, {1, 2, 0}, {0, 2, 1}}[r.Intn(6)]
			for j, n := 0, 1+r.Intn(3); j < n; j++ {
				tx("del a2 v%d %d", perm[j], r.Pick(50000, 120000, 3000000, odd()))
			}
			tx("sel a2 v1")
		}
	}
	// the report that will be disputed (by a0 mostly: stake of several odd-sized backers)
	target := r.PickS("a0", "a0", "v0")
	if directed {
		target = "v0"
	}
	q := r.Intn(3)
	tx("tip a4 q%d %d", q, r.Range(1000, 1e6))
	add("rep %s q%d %064x", target, q, r.Range(1, 1e9)) // both reports in one block: the reporting window may be a single block
	tx("rep v1 q%d %064x", q, r.Range(1, 1e9))
	if !directed && nv == 4 && r.Chance(1, 6) {
		// double-sign evidence against v1 after the reports: slashed 5 %, tombstoned; the reports it backed stay disputable
		add("blk 1000 dsign=v1")
		add("blk 1000")
	}
	cat := 1 + r.Intn(3)
	if directed {
		cat = 2 // 5 % of v0's 1100 tokens: more than a3's small delegation can cover of its share, less than v1's group holds
	}
	// fee payers: one or several, repeated payments, from balance or from bond (v1 is a reporter: bond = its selectors' stake)
	payers := []string{"a3", "a4", "a5", "v1", "a2"}
	first := payers[r.Intn(len(payers))]
	if directed {
		first = "v1"
	}
	full := r.Chance(1, 3) || directed
	if settleRich && directed {
		full = r.Chance(1, 2)
	}
	// many payers (1 in 4 of the others): three to five distinct accounts pay odd amounts, so that every refund share has a
	// fractional part (the remainders accumulate in the dust counter)
	many := !directed && r.Chance(1, 4)
	if many {
		full = false
	}
	fee := int64(1e12)
	if !full {
		fee = r.Pick(1000, 4000, 10000, 25000, 1001, 3333, 7777)
		if settleRich {
			fee = r.Pick(1000, 7777, 10000001, 25000000, 3333333)
		}
	}
	bond := func(p string) int64 {
		if p == "v1" && (directed || r.Chance(1, 2)) {
			return 1
		}
		return 0
	}
	tx("disp %s R0 %d %d %d", first, cat, fee, bond(first))
	if !full {
		n := 1 + r.Intn(5)
		start := r.Intn(len(payers))
		if many {
			n = 3 + r.Intn(3)
		}
		for j := 0; j < n; j++ {
			p := payers[r.Intn(len(payers))]
			amt := r.Pick(1000, 3000, 7000, 20000, 1e12, 1001, 3333, 7777, 2501)
			if settleRich && r.Chance(1, 2) {
				p = "v1"
				amt = r.Pick(1001, 5000000, 12345678, 1e12)
			}
			if many {
				p = payers[(start+j)%len(payers)]
				amt = r.Pick(1001, 3333, 7777, 2501, 12345, 999)
			}
			if j == n-1 && r.Chance(4, 5) {
				amt = 1e12 // completes the fee
			}
			tx("addfee %s 1 %d %d", p, amt, bond(p))
		}
	}
	// votes of any subset: reporters (v0, v1, a0), users (a3, a4), token holders (everybody with balance), team (a6)
	voters := []string{"v0", "v1", "a0", "a1", "a3", "a4", "a5", "a6", "a2"}
	votes := func(id int) {
		if twoSel && r.Chance(3, 4) { // both selectors vote before (or around) their reporter
			order := [][]string{{"a1", "a2", "a0"}, {"a2", "a1", "a0"}, {"a1", "a2", "a0"}, {"a1", "a0", "a2"}, {"a0", "a1", "a2"}}[r.Intn(5)]
			for _, v := range order {
				tx("vote %s %d %s", v, id, r.PickS("s", "a", "i"))
			}
		}
		n := r.Intn(6)
		for j := 0; j < n; j++ {
			ch := r.PickS("s", "s", "a", "i")
			if directed && id == 1 {
				ch = r.PickS("s", "i", "i")
			}
			tx("vote %s %d %s", voters[r.Intn(len(voters))], id, ch)
		}
	}
	votes(1)
	id := 1
	// a second, major dispute on v1's own report: all of v1's stake is escrowed, its validator falls out of the bonded set, and a
	// fee v1 paid from bond for the first dispute is later refunded to a validator that is no longer bonded
	if directed {
		tx("del a5 v2 %d", r.Pick(20000000, 30000000)) // v2 overtakes v1: v1 leaves the bonded set
	}
	if r.Chance(1, 6) || (directed && r.Chance(1, 2)) {
		id++
		cat2 := int64(3)
		if directed {
			// v1 has paid a fee out of the stake its report recorded: a major dispute (100 %) could not be escrowed any more, a
			// warning or minor one takes its part from delegations to a validator that has left the bonded set
			cat2 = r.Pick(1, 2, 2)
		}
		tx("disp %s R1 %d %d 0", r.PickS("a5", "a3", "a2"), cat2, int64(1e12))
		votes(id)
	}
	// up to two further rounds when the first tally leaves the dispute unresolved
	for round := 0; round < 3; round++ {
		add("blk %d", r.Pick(2*86400000+1000, 3*86400000+1000, 86400000))
		add("blk 1000")
		if r.Chance(1, 2) {
			// tips and stake change after the dispute's block: voting power of every round is taken as of that block, not as of the
			// block in which a later round starts
			tx("tip %s q%d %d", r.PickS("a4", "a3"), r.Intn(3), r.Range(1000, 5e6))
			tx("del %s v%d %d", r.PickS("a1", "a0", "a3"), r.Intn(nv), odd())
		}
		if r.Chance(1, 3) {
			id++
			tx("disp %s R0 %d %d %d", payers[r.Intn(len(payers))], cat, r.Pick(1e12, 1e12, 5000), 0)
			votes(id)
		}
	}
	add("blk %d", 3*86400000+1000)
	add("blk 1000")
	add("blk %d", 86400000)
	add("blk 1000")
	// claims in any order, repeated, by parties and non-parties, for every round id
	claimants := append([]string{}, payers...)
	claimants = append(claimants, voters...)
	n := 8 + r.Intn(14)
	for j := 0; j < n; j++ {
		who := claimants[r.Intn(len(claimants))]
		did := 1 + r.Intn(id)
		if r.Chance(1, 2) {
			tx("wfr %s %s %d", r.PickS(who, "a2"), who, did)
		} else {
			tx("claim %s %d", who, did)
		}
	}
	// everybody claims once more, so that at the end all parties have claimed
	for _, p := range payers {
		for d := 1; d <= id; d++ {
			tx("wfr %s %s %d", p, p, d)
		}
	}
	for _, v := range voters {
		for d := id; d >= 1; d-- { // the reward of all rounds is claimed under the last round's id; earlier ids when no later round exists
			tx("claim %s %d", v, d)
		}
	}
	add("blk 1000")
	return []string{fmt.Sprint(nv), strings.Join(ops, ";"), cfgMaxv, cfgTokens}
}

var settleDbg = os.Getenv("VERIF_DEBUG") != ""
