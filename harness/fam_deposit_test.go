package harness

import (
	"fmt"
	"math/big"
	"strconv"
	"strings"
	"testing"

	"cosmossdk.io/math"

	sdk "github.com/cosmos/cosmos-sdk/types"
)

// family "deposit" (C14 end to end; also the long scenario of C02/C03): bridge deposits reported by two reporters at
// different heights, the 2000-block reporting window, the 12-hour delay, claims (single, repeated, batched, with tip,
// before/after flagging), withdrawals.  Runs the supply observer and adds per-claim records:
//   D ids=<..> res=<ok|rej> claimer=<delta> recipients=<sum of deltas> expect=<minted>:<tips>   (expect from the reported values)
func init() {
	register(&Family{Name: "deposit", Gen: genDepositHist, Run: runDepositHist})
	register(&Family{Name: "nohaltlong", Gen: genDepositHist, Run: runDepositHist})
	register(&Family{Name: "supplylong", Gen: genDepositHist, Run: runDepositHist})
}

func depRecipient(id int) sdk.AccAddress { return sdk.AccAddress([]byte(fmt.Sprintf("recipient%011d", id))) }

func genDepositHist(r *Rng, i int, tier string) []string {
	nv := 2
	na := 3
	var ops []string
	add := func(s string, a ...any) { ops = append(ops, fmt.Sprintf(s, a...)) }
	add("blk 1000")
	add("mkrep v0 %d 1000000", r.Pick(0, 500000000000000000))
	add("mkrep v1 0 1000000")
	add("blk 1000")
	if r.Chance(2, 3) {
		add("gov mintinit")
		add("blk 1000")
		add("govvote")
		add("blk 1000")
		add("blk 21000")
	}
	ndep := 2 + r.Intn(3)
	one12 := big.NewInt(1e12)
	for d := 1; d <= ndep; d++ {
		amount := new(big.Int).Mul(big.NewInt(r.Range(1, 100000)), one12)
		if r.Chance(1, 3) {
			amount.Add(amount, big.NewInt(r.Range(0, 999999999999)))
		}
		tip := big.NewInt(0)
		switch r.Intn(4) {
		case 0:
			tip = new(big.Int).Div(amount, big.NewInt(r.Range(2, 30)))
		case 1:
			if r.Chance(1, 3) {
				tip = new(big.Int).Add(amount, one12) // tip greater than amount: the claim must fail, nothing minted
			}
		}
		val := DepositValue(depRecipient(d).String(), amount, tip)
		// both reporters report (same value), at different heights for some deposits
		add("rep v0 dep%d %s", d, val)
		if r.Chance(1, 2) {
			add("blk 1000")
		}
		add("rep v1 dep%d %s", d, val)
		if r.Chance(1, 2) {
			add("blk 1000")
		}
	}
	// nobody can report a bridge-withdrawal query, tipped first or not
	if r.Chance(1, 2) {
		w := 1 + r.Intn(3)
		if r.Chance(2, 3) {
			add("tip a1 wdq%d %d", w, r.Range(1000, 1000000))
			add("blk 1000")
		}
		add("rep v0 wdq%d %064x", w, r.Range(1, 1e9))
		add("blk 1000")
	}
	add("blk 1000")
	add("skip 2001 1000")
	add("blk 1000")
	add("blk 1000")
	// too early claim
	add("claimdep a0 1 0")
	add("blk 1000")
	if r.Chance(1, 3) { // dispute the first deposit's aggregate before it can be claimed (flagging)
		add("disp a1 R0 1 10000000000 0")
		add("blk 1000")
	}
	add("blk %d", 12*3600*1000+r.Pick(0, 1, 1000))
	for k := 0; k < 6+r.Intn(6); k++ {
		switch r.Intn(6) {
		case 0, 1:
			add("claimdep a%d %d 0", r.Intn(na), 1+r.Intn(ndep))
		case 2: // batch, possibly with a repeated id
			a, b := 1+r.Intn(ndep), 1+r.Intn(ndep)
			add("claimdep a%d %d,%d 0,0", r.Intn(na), a, b)
		case 3:
			add("claimdep a%d %d 1", r.Intn(na), 1+r.Intn(ndep)) // index out of range
		case 4:
			add("wd a%d %d %040x", r.Intn(na), r.Range(1, 1e9), r.U64())
		default:
			add("claimdep a%d %d 0", r.Intn(na), ndep+1) // unknown deposit
		}
		add("blk 1000") // one claim per block: the balance deltas of the record belong to that transaction alone
	}
	add("blk 1000")
	add("blk 1000")
	return []string{fmt.Sprint(nv), fmt.Sprint(na), strings.Join(ops, ";")}
}

func runDepositHist(t *testing.T, in []string) string {
	nv, _ := strconv.Atoi(in[0])
	na, _ := strconv.Atoi(in[1])
	c, err := NewChain(ChainCfg{NVals: nv, NAccts: na})
	if err != nil {
		return "err:newchain:" + shortLog(err.Error())
	}
	defer c.Close()
	h := NewHist(c)
	prev := map[uint64]dispSnap{}
	minit := false
	base := supplyObserver(&prev, &minit)
	// balances of claimers and recipients before the block
	balBefore := map[string]math.Int{}
	snap := func() {
		for _, a := range c.Accts {
			balBefore[a.Name] = c.Bal(a.Addr)
		}
		for d := 1; d <= 8; d++ {
			balBefore[fmt.Sprintf("rcp%d", d)] = c.Bal(depRecipient(d))
		}
	}
	h.Observe = func(hh *Hist, br *BlockResult, pend []pendingTx) {
		base(hh, br, pend)
		if br.Err != "" || br.Process != "ACCEPT" {
			return
		}
		off := br.InjectedN
		nClaimsInBlock := 0
		for _, p := range pend {
			if p.kind == "claimdep" {
				nClaimsInBlock++
			}
		}
		for i, p := range pend {
			// a report on a bridge-withdrawal query (tipped before or not): accepted or rejected
			if p.kind == "rep" && strings.HasPrefix(p.info["q"], "wdq") && off+i < len(br.Txs) {
				res := "rej"
				if br.Txs[off+i].Code == 0 {
					res = "ok"
				}
				hh.Out = append(hh.Out, fmt.Sprintf("WR q=%s res=%s", p.info["q"], res))
			}
			if p.kind != "claimdep" || off+i >= len(br.Txs) {
				continue
			}
			res := "rej"
			if br.Txs[off+i].Code == 0 {
				res = "ok"
			}
			// expectation from the values the harness itself reported for these ids
			minted, tips := new(big.Int), new(big.Int)
			for _, s := range strings.Split(p.info["ids"], ",") {
				id, _ := strconv.ParseUint(s, 10, 64)
				if v, ok := hh.Deposits[id]; ok {
					a, _ := new(big.Int).SetString(v[1], 10)
					tp, _ := new(big.Int).SetString(v[2], 10)
					minted.Add(minted, new(big.Int).Div(a, big.NewInt(1e12)))
					tips.Add(tips, new(big.Int).Div(tp, big.NewInt(1e12)))
				}
			}
			claimer := hh.acct(p.info["who"])
			cd := c.Bal(claimer.Addr).Sub(balBefore[claimer.Name])
			rsum := math.ZeroInt()
			for d := 1; d <= 8; d++ {
				rsum = rsum.Add(c.Bal(depRecipient(d)).Sub(balBefore[fmt.Sprintf("rcp%d", d)]))
			}
			hh.Out = append(hh.Out, fmt.Sprintf("D ids=%s res=%s claimer=%s recipients=%s expect=%s:%s single=%v", p.info["ids"], res, cd, rsum, minted, tips, nClaimsInBlock == 1 && len(pend) == 1))
		}
		snap()
	}
	h.Out = append(h.Out, fmt.Sprintf("G supply=%s t=%d", c.Supply(), c.Time.UnixNano()))
	for _, op := range strings.Split(in[2], ";") {
		f := strings.Fields(op)
		if len(f) > 3 && f[0] == "rep" && strings.HasPrefix(f[2], "dep") {
			id, _ := strconv.ParseUint(f[2][3:], 10, 64)
			if a, tp, ok := decodeDepositAmount(f[3]); ok {
				h.Deposits[id] = [3]string{"", a.String(), tp.String()}
			}
		}
		if len(f) > 0 && f[0] == "blk" {
			if len(balBefore) == 0 {
				// first block: nothing to snapshot yet (state not committed)
			}
		}
		h.Exec(op)
		if len(balBefore) == 0 && c.Height >= 1 {
			snap()
		}
		if c.Halted != "" {
			break
		}
	}
	return strings.Join(h.Out, " ;; ")
}
