package harness

import (
	"os"
	"sort"
	"crypto/sha256"
	"encoding/hex"
	"fmt"
	"strconv"
	"strings"
	"testing"

	ethcrypto "github.com/ethereum/go-ethereum/crypto"

	stakingtypes "github.com/cosmos/cosmos-sdk/x/staking/types"
)

// family "valset" (C16): staking histories that move validator powers and membership; per block
//   V <operator:tokens:evm|-,…>      all staking validators as the bridge end blocker saw them
//   B t=<blockMs> saved=<addr:power/…> ckpts=<ts:idx:threshold:slots:addr:power/addr:power/…,…>
//   S <ts>=<n|v|x per slot>          signature slots of each checkpoint: nil / verifies against the previous set's member / does not
func init() {
	register(&Family{Name: "valsetchain", Gen: genValsetHist, Run: runValsetHist})
}

func dumpValset(c *Chain) []string {
	ctx := c.Ctx()
	var vs []string
	vals, _ := c.App.StakingKeeper.GetAllValidators(ctx)
	for _, v := range vals {
		evm := "-"
		if a, err := c.App.BridgeKeeper.GetEVMAddressByOperator(ctx, v.OperatorAddress); err == nil {
			evm = hex.EncodeToString(a)
		}
		st := "u"
		if v.IsBonded() {
			st = "b"
		}
		vs = append(vs, fmt.Sprintf("%s:%s:%s:%s", v.OperatorAddress[len(v.OperatorAddress)-8:], v.Tokens, evm, st))
	}
	setStr := func(set []string) string { return strings.Join(set, "/") }
	saved := "-"
	if bv, err := c.App.BridgeKeeper.BridgeValset.Get(ctx); err == nil {
		var m []string
		for _, v := range bv.BridgeValidatorSet {
			m = append(m, fmt.Sprintf("%s@%d", hex.EncodeToString(v.EthereumAddress), v.Power))
		}
		saved = setStr(m)
	}
	var cks, sg []string
	if it, err := c.App.BridgeKeeper.ValidatorCheckpointIdxMap.Iterate(ctx, nil); err == nil {
		var prevAddrs [][]byte
		for ; it.Valid(); it.Next() {
			kv, _ := it.KeyValue()
			ts := kv.Value.Timestamp
			p, _ := c.App.BridgeKeeper.ValidatorCheckpointParamsMap.Get(ctx, ts)
			vs, _ := c.App.BridgeKeeper.BridgeValsetByTimestampMap.Get(ctx, ts)
			sigs, _ := c.App.BridgeKeeper.BridgeValsetSignaturesMap.Get(ctx, ts)
			var m []string
			var addrs [][]byte
			for _, v := range vs.BridgeValidatorSet {
				m = append(m, fmt.Sprintf("%s@%d", hex.EncodeToString(v.EthereumAddress), v.Power))
				addrs = append(addrs, v.EthereumAddress)
			}
			tsIdx, _ := c.App.BridgeKeeper.ValsetTimestampToIdxMap.Get(ctx, ts)
			cks = append(cks, fmt.Sprintf("%d:%d:%d:%d:%s:%s:%s:%d", ts, kv.Key, p.PowerThreshold, len(sigs.Signatures), setStr(m),
				hex.EncodeToString(p.ValsetHash), hex.EncodeToString(p.Checkpoint), tsIdx.Index))
			// slot validity against the previous checkpoint's set (the contract's view of this step)
			if kv.Key > 0 {
				digest := sha256.Sum256(p.Checkpoint)
				var marks []string
				for i, s := range sigs.Signatures {
					switch {
					case len(s) == 0:
						marks = append(marks, "n")
					case i < len(prevAddrs) && len(s) >= 64:
						ok := false
						for _, id := range []byte{0, 1} {
							pub, err := ethcrypto.SigToPub(digest[:], append(append([]byte{}, s[:64]...), id))
							if err == nil && string(ethcrypto.PubkeyToAddress(*pub).Bytes()) == string(prevAddrs[i]) {
								ok = true
							}
						}
						if ok {
							marks = append(marks, "v")
						} else {
							marks = append(marks, "x")
						}
					default:
						marks = append(marks, "x")
					}
				}
				sg = append(sg, fmt.Sprintf("%d=%s", ts, strings.Join(marks, "")))
			}
			prevAddrs = addrs
		}
		it.Close()
	}
	latest := "-"
	if li, err := c.App.BridgeKeeper.LatestCheckpointIdx.Get(ctx); err == nil {
		latest = fmt.Sprint(li.Index)
	}
	return []string{"V " + strings.Join(vs, ","), fmt.Sprintf("B t=%d latest=%s saved=%s ckpts=%s", c.Time.UnixMilli(), latest, saved, strings.Join(cks, ",")), "S " + strings.Join(sg, ",")}
}

func runValsetHist(t *testing.T, in []string) string {
	nv, _ := strconv.Atoi(in[0])
	var toks []int64
	for _, s := range strings.Split(in[1], ",") {
		v, _ := strconv.ParseInt(s, 10, 64)
		toks = append(toks, v)
	}
	maxv := uint32(100)
	if len(in) > 3 {
		m, _ := strconv.Atoi(in[3])
		maxv = uint32(m)
	}
	c, err := NewChain(ChainCfg{NVals: nv, NAccts: 3, ValTokens: toks, MaxValidators: maxv})
	if err != nil {
		return "err:newchain:" + shortLog(err.Error())
	}
	defer c.Close()
	h := NewHist(c)
	h.Observe = func(hh *Hist, br *BlockResult, pend []pendingTx) {
		if br.Err != "" || br.Process != "ACCEPT" {
			hh.Out = append(hh.Out, "HALT "+shortLog(br.Err+br.Process))
			return
		}
		hh.Out = append(hh.Out, "X "+strings.Join(txClasses(br, pend), ","))
		hh.Out = append(hh.Out, dumpValset(c)...)
	}
	for _, op := range strings.Split(in[2], ";") {
		h.Exec(op)
		if c.Halted != "" {
			break
		}
	}
	return strings.Join(h.Out, " ;; ")
}

func genValsetHist(r *Rng, i int, tier string) []string {
	nv := 1 + r.Intn(5)
	var toks []string
	total := int64(0)
	dels := map[string]int64{} // "acct>val" -> delegated
	for j := 0; j < nv; j++ {
		tk := r.Pick(1000000, 2000000, 1000000000, 1000000000, r.Range(1e6, 5e9))
		if j == 0 && tk < 2000000 {
			tk = 2000000
		}
		total += tk
		toks = append(toks, fmt.Sprint(tk))
		dels[fmt.Sprintf("v%d>v%d", j, j)] = tk
	}
	var ops []string
	add := func(s string, a ...any) { ops = append(ops, fmt.Sprintf(s, a...)) }
	add("blk 1000")
	add("blk 1000")
	nops := 15 + r.Intn(25)
	if tier == "thorough" {
		nops = 40 + r.Intn(60)
	}
	vals := []string{}
	for j := 0; j < nv; j++ {
		vals = append(vals, fmt.Sprintf("v%d", j))
	}
	budget := total / 20 // stake movement the ante rule still allows in this 12 h window
	valTot := func(v string) int64 {
		var t int64
		for k, x := range dels {
			if strings.HasSuffix(k, ">"+v) {
				t += x
			}
		}
		return t
	}
	// v0 always keeps two whole tokens: the property quantifies over sets with total power >= 2 (below that the
	// threshold is 0 and with no powered validator at all there is no chain)
	keep := func(v string, amt int64) bool { return v != "v0" || valTot(v)-amt >= 2000000 }
	pickDel := func() (string, string, int64) {
		var ks []string
		for k, v := range dels {
			if v > 0 {
				ks = append(ks, k)
			}
		}
		sort.Strings(ks)
		k := ks[r.Intn(len(ks))]
		p := strings.Split(k, ">")
		return p[0], p[1], dels[k]
	}
	jailedOnce := false
	for k := 0; k < nops; k++ {
		acct := fmt.Sprintf("a%d", r.Intn(3))
		frac := r.Pick(100, 100, 99, 50, 49, 51, 10)
		amt := budget * frac / 100
		switch r.Intn(13) {
		case 0, 1, 2:
			if amt > 0 {
				v := vals[r.Intn(len(vals))]
				add("del %s %s %d", acct, v, amt)
				dels[acct+">"+v] += amt
				total += amt
				budget -= amt
			}
		case 3:
			a, v, have := pickDel()
			if amt > have || r.Chance(1, 6) {
				amt = have // full exit of this delegation (a validator's own: it leaves the set)
			}
			if amt > 0 && amt <= budget+budget/50 && keep(v, amt) {
				add("undel %s %s %d", a, v, amt)
				dels[a+">"+v] -= amt
				total -= amt
				budget -= amt
			}
		case 4, 5:
			a, v, have := pickDel()
			dst := vals[r.Intn(len(vals))]
			amt = amt / r.Pick(1, 2, 2)
			if amt > have {
				amt = have
			}
			if amt > 0 && dst != v && keep(v, amt) {
				add("redel %s %s %s %d", a, v, dst, amt)
				dels[a+">"+v] -= amt
				dels[a+">"+dst] += amt
				budget -= amt
			}
		case 6, 7:
			add("blk %d", 12*3600*1000+1000)
			budget = total / 20
		case 8:
			add("blk %d", r.Pick(14*86400000-2000, 14*86400000-1000, 14*86400000-999, 14*86400000, 14*86400000+1, 15*86400000, 7*86400000))
			budget = total / 20
		case 9: // a new validator joins (registers its EVM address through its first vote extension)
			have := false
			for _, v := range vals {
				if v == acct {
					have = true
				}
			}
			if !have {
				a := r.Pick(1000000, 999999, 2000000, amt)
				if a > budget {
					a = budget
				}
				if a > 0 {
					add("mkval %s %d", acct, a)
					vals = append(vals, acct)
					dels[acct+">"+acct] = a
					total += a
					budget -= a
				}
			}
		case 10: // some validators stay silent for a block (their slots stay empty)
			add("blk 1000 abs=%s", vals[r.Intn(len(vals))])
		case 11: // a validator misses the signing window: slashed 1 %, jailed (it leaves the bridge set), unjailed ten minutes later
			if !jailedOnce && len(vals) >= 3 {
				jailedOnce = true
				downtime(add, vals[1+r.Intn(len(vals)-1)])
				budget = total / 20
			}
		default:
			add("blk %d", r.Pick(1, 1000, 1500, 60000))
		}
		if r.Chance(1, 2) {
			add("blk 1000")
		}
	}
	add("blk 1000")
	add("blk 1000")
	add("blk 1000")
	return []string{fmt.Sprint(nv), strings.Join(toks, ","), strings.Join(ops, ";"), fmt.Sprint(r.Pick(100, 100, int64(nv), 2))}
}

var _ = stakingtypes.ModuleName

func TestValsetDebug(t *testing.T) {
	in := strings.Split(os.Getenv("HARNESS_INPUT"), "|")
	nv, _ := strconv.Atoi(in[0])
	var toks []int64
	for _, s := range strings.Split(in[1], ",") {
		v, _ := strconv.ParseInt(s, 10, 64)
		toks = append(toks, v)
	}
	c, _ := NewChain(ChainCfg{NVals: nv, NAccts: 3, ValTokens: toks})
	defer c.Close()
	h := NewHist(c)
	h.Observe = func(hh *Hist, br *BlockResult, pend []pendingTx) {
		for i, p := range pend {
			if br.InjectedN+i < len(br.Txs) {
				fmt.Println(p.kind, br.Txs[br.InjectedN+i].Code, shortLog(br.Txs[br.InjectedN+i].Log))
			}
		}
	}
	for _, op := range strings.Split(in[2], ";") {
		h.Exec(op)
	}
}
