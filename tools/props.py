# Per-property configuration of the check orchestrator.
# families: (harness family, quick cases, thorough cases)
# gen: extractor steps whose Lean output the property's Props module imports
# chain: chain-mode profiles (real app) : (profile, quick histories, thorough histories)

PROPS = {
    "C18": {
        "props_module": "LayerModel.Props.C18",
        "families": [("ante", 4000, 200000), ("track", 500, 20000)],
        "gen": [],
        "rule": "a case is non-trivial when the transaction carries >= 2 staking messages and a tracker exists "
                "(ante) / when the tracker is refreshed at least once (track); distinct = distinct canonical input lines",
        "level_text": "Theorems over all transactions (any number/mix/amount of staking messages) and all block-time sequences for the decorator's loop and the tracker refresh; the model is tied to the code by running the real decorator and the real TrackStakeChange on generated cases and diffing against the Lean driver; the theorem statement is evaluated as a monitor on the implementation's decisions.",
        "level_note": "Trusted: Lean kernel; hand-written model (Chain/Ante.lean) tied only by the differential run; mock staking keeper supplies TotalBondedTokens; messages carry positive amounts (hypothesis amountsPos).",
        "trusted": ["model of AnteHandle/TrackStakeChange written by hand (lean/LayerModel/Chain/Ante.lean)",
                    "mock staking keeper supplies TotalBondedTokens in the pure family",
                    "position of the decorator in the ante chain: fact table from app/ante.go"],
    },
}
