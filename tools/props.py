# Per-property configuration of the check orchestrator.
# families: (harness family, quick cases, thorough cases)
# gen: extractor steps whose Lean output the property's Props module imports
# chain: chain-mode profiles (real app) : (profile, quick histories, thorough histories)

import os, subprocess, time

# commits in /repo that add verification hooks (guarded by the build tag `verif`)
HOOK_COMMITS = ["4c15474 verif hook: VoteExtHandler.SetKeyring (app/extend_vote_verif.go)"]


def race_pconc(prop, tier, seed, replay, run, work, verif, repo, goenv, hbin, driver, **kw):
    """C20, thorough tier: the concurrent family under Go's race detector (runtime evidence for 'no data race')."""
    if tier != "thorough" or replay:
        return {}
    hdir = os.path.join(verif, "harness")
    rbin = os.path.join(hdir, "bin", "harness.race.test")
    rc, out, dt = run(["go", "test", "-c", "-race", "-tags", "verif", "-o", rbin, "."], cwd=hdir, env=goenv, timeout=3000)
    if rc != 0:
        return {"errors": ["race build failed: " + out[-1500:]]}
    outp = os.path.join(work, "C20.pconc.race.impl")
    env = dict(goenv, HARNESS_FAMILY="pconc", HARNESS_OUT=outp, HARNESS_N="20000", VERIF_SEED=str(seed), VERIF_TIER=tier)
    rc, out, dt = run([rbin, "-test.run", "^TestHarness$", "-test.timeout", "0"], cwd=hdir, env=env, timeout=3000)
    races = out.count("WARNING: DATA RACE")
    res = {"evaluations": 20000, "stats": {"pconc-race": {"cases": 20000, "diff": 0, "monfail": races, "races": races, "wall_s": round(dt, 1)}}}
    if races or rc != 0:
        res["monfails"] = [("pconc-race|go test -race reported %d data race(s) rc=%d" % (races, rc), out[-3000:])]
    return res


PROPS = {
    "C18": {
        "props_module": "LayerModel.Props.C18",
        "families": [("ante", 4000, 200000), ("track", 500, 20000)],
        "gen": ["facts", "formulas"],
        "rule": "a case is non-trivial when the transaction carries >= 2 staking messages and a tracker exists "
                "(ante) / when the tracker is refreshed at least once (track); distinct = distinct canonical input lines",
        "level_text": "Theorems over all transactions (any number/mix/amount of staking messages) and all block-time sequences for the decorator's loop and the tracker refresh; the model is tied to the code by running the real decorator and the real TrackStakeChange on generated cases and diffing against the Lean driver; the theorem statement is evaluated as a monitor on the implementation's decisions.",
        "level_note": "Trusted: Lean kernel; hand-written model (Chain/Ante.lean) tied only by the differential run; mock staking keeper supplies TotalBondedTokens; messages carry positive amounts (hypothesis amountsPos).",
        "trusted": ["model of AnteHandle/TrackStakeChange written by hand (lean/LayerModel/Chain/Ante.lean)",
                    "mock staking keeper supplies TotalBondedTokens in the pure family",
                    "position of the decorator in the ante chain: fact table from app/ante.go"],
    },
    "C05": {
        "props_module": "LayerModel.Props.C05",
        "families": [("ledgerslash", 64, 1500, "chain"), ("ledgersettle", 48, 1000, "chain")],
        "gen": ["facts", "formulas"],
        "rule": "ledgerslash / ledgersettle: histories in which the dispute module's balance changed in at least two blocks (stake was escrowed, returned or paid out); distinct = distinct histories",
        "level_text": "Theorems over every sequence of stake taken for disputes or fees (pool and ledger drop by the recorded parts), stake or rewards put back (coins enter a pool, the ledger grows by the truncated per-entry amounts) and ordinary staking operations: the pools never hold less than validators and unbonding entries record, the surplus never shrinks and grows by at most one smallest unit per returned entry. Tie: the two dispute chain families (reports, redelegation and undelegation between report and dispute, validators leaving the bonded set, every category and fee pattern incl. fee from stake, all outcomes, refunds to stake, returns to jailed or removed validators) with, after every block: pool balances against the sum of validator tokens and unbonding balances per pool, the staking module's own NonNegativePower / PositiveDelegation / DelegatorShares invariants evaluated on the real store, and the surplus monotonicity of the model; the per-backer record sums are checked by C11's monitors on the same histories.",
        "level_note": "Trusted: Lean kernel; model Chain/Ledger.lean (two numbers and three operations: the theorem is about the bookkeeping discipline; that each code site follows it is decided by the monitors over generated histories, not by a proof about the Go code). Validator slashing for downtime/double signing does not occur in the harness (all validators sign).",
        "trusted": ["model Chain/Ledger.lean", "harness chain_test.go, fam_slash_test.go, fam_settle_test.go"],
    },
    "C06": {
        "props_module": "LayerModel.Props.C06",
        "families": [("median", 6000, 300000), ("mode", 3000, 100000)],
        "gen": [],
        "rule": "median: well-formed round (non-empty, all values parse, powers >= 1, total < 2^63) with >= 2 distinct value "
                "spellings; mode: well-formed round in which two or more values tie for the maximal weight; distinct = distinct input lines",
        "level_text": "Theorems for every non-empty report list (any length, powers, values): the median aggregate is a reported value with at most half of the power strictly below and at least half up to it, is the least such value (hence independent of arrival order), records the total power, lists every report once, its index names the chosen reporter; the mode value has maximal weight for every scan order covering the keys. Model tied to the real WeightedMedian/WeightedMode by differential runs over generated rounds (ties, exact-half boundaries, several spellings, malformed values); the theorem statements run as monitors on the implementation's aggregates.",
        "level_note": "Trusted: Lean kernel; hand-written model Chain/Aggregate.lean (uses each report's own value where the code reads values[reporter]: equal for distinct reporters, which the store key guarantees and the generator respects); big.Int.SetString(_,16) modelled by parseHex and differential-tested; the `for i < power` loop of the mode is modelled by its sum (gas/time cost not modelled).",
        "trusted": ["model Chain/Aggregate.lean written by hand", "parseHex models big.Int.SetString(s,16)", "reporters distinct within a round (store key)"],
    },
    "C20": {
        "props_module": "LayerModel.Props.C20",
        "families": [("medianu", 4000, 200000), ("mediani", 4000, 200000), ("pcache", 3000, 100000), ("pconc", 8000, 200000)],
        "gen": ["facts", "formulas"],
        "rule": "median families: even-length inputs (the rounding/overflow branch); pcache: operation sequences in which at least one read served a price; pconc: concurrent histories in which a read overlaps an update in real time; distinct = distinct input lines",
        "extra": [race_pconc],
        "level_text": "Theorems: lib.Median on uint64 returns the middle element / the mean of the two middle elements rounded up for every non-empty list with every machine operation wrapped at 2^64 (so no overflow changes the result), the int64 branch arithmetic equals the mean rounded away from zero, the result is independent of collection order, a price is served iff the market is known and at least min (and at least one) exchanges are fresh, and it is the median of exactly the fresh prices; an exchange's stored price only moves forward in time. Tied to the real lib.Median and MarketToExchangePrices by differential op sequences; a history-level specification (latest update per exchange by time) runs as monitor on the implementation's reads.",
        "level_note": "Trusted: Lean kernel; hand-written models Daemon/Median.lean, Daemon/PriceCache.lean; Go map iteration order abstracted (median proved order-independent). Partial: data-race freedom and the Go memory model are runtime behaviour outside any executable model (see DESIGN.md C20).",
        "trusted": ["models Daemon/Median.lean and Daemon/PriceCache.lean written by hand", "time.Time compared as integer nanoseconds (monotonic clock readings not modelled)"],
    },
    "C09": {
        "props_module": "LayerModel.Props.C09",
        "families": [("calc", 3000, 100000), ("alloc", 3000, 100000), ("divvy", 4000, 150000)],
        "gen": ["facts", "formulas"],
        "rule": "alloc: allocations with >= 2 reporters paid; divvy: reporter with 0 or >= 2 own token origins and non-zero commission rate inside [0,1]; calc: every case; distinct = distinct input lines",
        "level_text": "Theorems over all rewards, reporter sets, powers, commission rates and origin lists: AllocateRewards' amounts sum to the reward exactly; DivvyingTips credits = pro-rata shares of the net reward + the commission exactly once (one, several or no own origins); no credit is negative for rates in [0,1]; counterexample theorems for the recorded finding (rates outside [0,1] accepted at creation) and for the pre-fix double commission. LegacyDec is modelled exactly (banker's rounding) and differential-tested through CalculateRewardAmount; the real AllocateRewards (mock sinks) and DivvyingTips (real store) are run on generated cases and compared with the Lean driver; an exact-rational proportionality monitor runs on the implementation's outputs.",
        "level_note": "Trusted: Lean kernel; hand-written models Chain/Rewards.lean, Base/Dec.lean; the per-credit 10^-18 rounding bound is theorem C09_divvy_sum (proof module imports Mathlib.Tactic.Linarith for nlinarith); TBR selection in SetAggregatedReport is covered by the chain-mode properties (C03/C04), not here.",
        "trusted": ["models Chain/Rewards.lean, Base/Dec.lean written by hand", "mock reporter/bank keepers capture AllocateTip calls in the alloc family"],
    },
    "C01": {
        "props_module": "LayerModel.Props.C01",
        "families": [("mode", 4000, 150000), ("alloc", 3000, 100000), ("allocrep", 1500, 50000)],
        "gen": ["facts", "formulas"],
        "rule": "mode: rounds in which two or more values tie for the maximal weight, each executed 24 times in one process (Go re-randomises map iteration per range); alloc: allocations with >= 2 reporters (map -> sorted slice); distinct = distinct input lines",
        "level_text": "Theorems: every map-range loop and every wall-clock/goroutine/randomness use in the consensus packages is in a classified table that is regenerated from the source by a go/types-based extractor on every run (a new site breaks the rfl obligation); for each classified site the result is proved independent of iteration order (reward allocation: sorting erases the order; power difference: commutative sum; weighted mode: after the fix the scan runs over the reports and returns the first value of maximal weight; counterexample theorem for map-order iteration). Tie: repeated in-process execution of the real WeightedMode and AllocateRewards compared with the deterministic Lean model; (chain-level replay differential on two app instances is part of C02's chain profile).",
        "level_note": "Trusted: Lean kernel; the extractor (extract/main.go) and its exclusion list (tests, *.pb.go, simulation, mocks, CLI); hand-written models. Partial: goroutine scheduling and wall-clock independence are shown only as 'no such construct on a consensus path' (fact table) plus replay evidence; the Go runtime itself is not modelled.",
        "trusted": ["extract/main.go (go/packages) and its file exclusions", "models Chain/Aggregate.lean, Chain/Rewards.lean"],
    },
    "C15": {
        "props_module": "LayerModel.Props.C15",
        "families": [("valset", 1500, 40000), ("checkpoint", 1500, 40000), ("attest", 2500, 60000), ("qid", 1000, 30000), ("wvalue", 1500, 40000), ("sigconv", 300, 5000)],
        "gen": ["facts", "formulas", "sol:scan"],
        "rule": "valset: sets with >= 2 members; checkpoint: 32-byte hashes; attest: well-formed 32-byte ids with value length not a multiple of 32; qid/wvalue/sigconv: every case; distinct = distinct input lines",
        "level_text": "Theorems for all inputs: the hand-rolled validator-set bytes equal abi.encode(Validator[]) for every list; checkpoint and attestation pre-images equal the contract's abi.encode pre-images (so digests agree for ANY hash function); query-id data and domain separators agree byte for byte; threshold = floor(2*total/3) (formula regenerated) and >2/3 of the power reaches it; encodePacked(bytes32)=identity for the signature digest convention. The ABI type lists/literals of the Go encoders and of the contracts' abi.encode/abi.decode are regenerated from both sources on every run and proved equal (decide). Tie: every exported encoder is run on generated inputs and compared with the Lean model's bytes / executable Keccak-256 digests; the contract-side formulation runs as monitor; signatures: sign like the SDK keyring, recover like ecrecover(sha256(digest)).",
        "level_note": "Trusted: Lean kernel; ABI specification transcribed from the Solidity documentation (Base/Abi.lean, fragment: static words, bytes/string, array of static tuples); go-ethereum Pack modelled by the same function and differential-tested; Solidity compiler output not executed (no solc/EVM in the sandbox); keccak/sha256/ECDSA are parameters in theorems (executable Keccak only in the driver).",
        "trusted": ["Base/Abi.lean = ABI spec fragment", "extract/sol_scan.py (regular scanner over three contracts)", "extract/main.go goAbi"],
    },
    "C10": {
        "props_module": "LayerModel.Props.C10",
        "families": [("repstake", 64, 1500, "chain")],
        "gen": ["facts", "formulas"],
        "rule": "repstake: histories (real app, one transaction per block) with at least three accepted reports and twenty selection/staking operations; distinct = distinct histories",
        "level_text": "Theorems for every staking state and history: the two iteration strategies of ReporterStake (over the selector's delegations / over the bonded validators) give the same stake for any shares-to-tokens conversion whenever validator names and delegation targets are unique, so the delegation counter never influences the result; a jailed reporter has no stake and is released only after its jail time; only selectors of the reporter that are outside their lock period are counted; the selection table keeps one entry per address under every message (exactly one reporter per selector); an accepted SelectReporter/SwitchReporter finds the reporter below the cap and the joiner at or above the reporter's minimum, CreateReporter needs the module minimum; lock invariant by induction over arbitrary interleavings of delegations, validator status changes, reports, selections, switches, jailings and time steps: when a selector's stake enters a report of B after a report of A != B, at least the unbonding period lies between them (C10_no_double_count_partial: excludes RemoveSelector of that selector; counterexample theorem for remove + select, reachable only with more selectors than the cap). Tie: the real app runs generated histories (1..4 validators, validator caps down to 2, several delegations per selector, switches inside tipped rounds, minor/warning disputes, jail-time boundaries, 21-day jumps); for every selection message the model's decision and resulting tables are compared with the implementation's, for every accepted report the stored total and origins with the model's stake computed from the staking dump; monitors on the implementation's data: power = total/10^6 = sum of origins, origins only from unlocked selectors of an unjailed reporter, delegation counter = number of delegations, joins respect cap and minimum, release not before the jail time, no delegator in two reporters' reports of one round.",
        "level_note": "Trusted: Lean kernel; model Chain/Reporter.lean (staking state is an input read from the store after every block; one transaction per block so that the pre-state of each message is the previous dump; blocks in which begin/end-block code changed the staking state are skipped for the model comparison and counted). The full no-double-counting statement is proved without RemoveSelector of the observed selector only (see the counterexample theorem and DESIGN.md).",
        "trusted": ["model Chain/Reporter.lean", "harness chain_test.go, fam_repstake_test.go"],
    },
    "C11": {
        "props_module": "LayerModel.Props.C11",
        "families": [("slash", 64, 1500, "chain")],
        "gen": ["facts", "formulas"],
        "rule": "slash: histories (real app, one transaction per block) in which at least one dispute became fully funded; distinct = distinct histories",
        "level_text": "Theorems for every report power, snapshot and amount: the slash amount is exactly power*10^6 times 1 %, 5 % or 100 % (no rounding loss through the LegacyDec pipeline); the shares of the backers always sum to exactly that amount and there is one share per snapshot entry; with the snapshot's total as denominator every share is within one loya of the exact proportion del*amt/total (amounts up to 5*10^17); counterexample theorem for the pre-fix denominator power*10^6 (mis-proportioned shares, negative last share = undisputable report); jail durations per category. Tie: the real app runs generated histories with reports backed by several selectors with non-whole-token stakes, redelegations and partial/total undelegations between report and dispute, disputes of every category with full / partial / from-bond fees, real, value-altered, power-altered and invented reports, one-day expiry boundaries; at every funding the model's amount and (when no tokens had to be chased) the model's apportioning are compared with the recorded escrow entries, and monitors on the implementation's data check: amount = category share of the report's power, each backer's loss (delegations + unbonding balances, following redelegated/unbonding tokens) within one loya per entry of its proportional share, losses and escrow record sum to the amount and agree per backer, escrow only at funding and unchanged during voting, jail time per category, expiry without slashing, pools backed (C05 ledger check on every dump), disputes accepted only for reports really submitted (recorded finding).",
        "level_note": "Trusted: Lean kernel; model Chain/Slash.lean; staking-module internals (Unbond, redelegation records) are observed, not modelled: the 'follow the tokens' part is decided by the per-backer loss monitor. Known finding dispute-report-unverified: ProposeDispute does not compare the report in the message with the stored micro-report.",
        "trusted": ["model Chain/Slash.lean", "harness chain_test.go, fam_slash_test.go, fam_repstake_test.go"],
    },
    "C12": {
        "props_module": "LayerModel.Props.C12",
        "families": [("tally", 6000, 300000), ("ratio", 2000, 50000)],
        "gen": ["facts", "formulas"],
        "rule": "tally: inputs in which at least one of users/reporters/holders voted; ratio: every case; distinct = distinct input lines",
        "level_text": "Tally part of C12 (theorems for every vote distribution): the tally is decided whenever the voting period has ended (ties, zero totals and zero-power groups included), the recorded choice is the strict maximum of the three scaled sums and a tie is invalid, a quorum result is recorded exactly when the accumulated group shares reach 51*10^6 (first without, then with token holders), the new tie rule extends the old one wherever that decided, counterexample theorems for the pre-fix \"no majority\" failure and for the recorded finding (token holders ignored when three groups reach quorum). Ratio is regenerated from the source and tied to the model. Tie: the real TallyVote is run on seeded stores over generated distributions (ties, near-ties, zero totals, counts to 2^62) and compared with the Lean model; an exact-rational specification of the tally runs as monitor on the implementation's results. Lifecycle/vote-accounting parts of C12 are covered by the chain-mode dispute profile when present (see DESIGN.md).",
        "level_note": "Trusted: Lean kernel; hand-written model Chain/Tally.lean; mock bank keeper supplies total supply; the monitor leaves differences below 10^-5 of a group weight (rounding of LegacyDec and TruncateInt) undecided. Partial: lifecycle transitions, one-vote-per-address, vote-power sources are not yet theorems.",
        "trusted": ["model Chain/Tally.lean written by hand", "seeded dispute store + mock bank keeper in the tally family"],
    },
    "C03": {
        "props_module": "LayerModel.Props.C03",
        "families": [("supply", 96, 1500, "chain"), ("supplylong", 8, 64, "chain")],
        "gen": ["facts", "formulas"],
        "rule": "supply: chain histories (real app, 1-3 validators) of >= 10 blocks in which time-based minting produced at least one non-zero provision; distinct = distinct operation sequences",
        "level_text": "Theorems: block provision and tip burn are the code's formulas (regenerated); nothing is minted before governance starts minting nor in the first block after; the provision splits exactly into the reward-pool part and the truncated fee-pool quarter; cumulative minting over ANY sequence of non-decreasing block times is bounded by rate x elapsed time (induction over the block list); supply after a block = supply before + provision + documented deltas; the MintCoins/BurnCoins call-site table and the module-account permission table are regenerated from the source and proved equal to the expected tables. Frame condition tied to the code by chain-mode correspondence: the REAL application (multi-validator genesis, real ante chain, real vote extensions) executes generated histories over every message type; after every block its total supply must equal the model's prediction from the documented events alone (tips, withdrawals, claims, dispute executions, dust) and the bank TotalSupply invariant must hold.",
        "level_note": "Trusted: Lean kernel; model Chain/Supply.lean; cosmos-sdk bank/gov/staking are real in the harness, not modelled; documented event amounts are derived by the harness from the submitted operations and tx results (dispute burn amount read from the dispute record, refund dust from the refund transaction's own burn event). Deposit claims need 2000-block windows and appear only in the dedicated C14 scenarios.",
        "trusted": ["model Chain/Supply.lean", "harness chain_test.go / hist_test.go (history runner)", "extract (mint/burn sites, maccPerms)"],
    },
    "C02": {
        "props_module": "LayerModel.Props.C02",
        "families": [("nohalt", 160, 2000, "chain"), ("nohaltlong", 8, 64, "chain")],
        "gen": ["facts", "formulas"],
        "rule": "nohalt: chain histories (real app, 2-4 validators, hostile values, all layer message types, governance cycle-list changes, gaps 1 ms .. 22 days) with >= 10 blocks; distinct = distinct operation sequences",
        "level_text": "Search-backed: the property quantifies over all transaction sequences of the whole application; it is decided by executing the REAL application on generated hostile histories and requiring every block to be produced (no FinalizeBlock error or panic, honest proposal accepted). Theorems cover each failure site found on the begin/end-block paths: the cycle-list pointer lookup is total over any sequence of rotations and governance replacements; every report value SubmitValue accepts parses at aggregation time; every mint output is positive for every positive provision; the dispute begin-blocker's tally is total; with counterexample theorems for the four pre-fix halts.",
        "level_note": "Partial: whole-path totality of Pre/Begin/EndBlock is NOT a theorem (cosmos-sdk modules and most keeper code are exercised, not modelled); environment assumptions: honest validators' vote extensions (produced by the real ExtendVoteHandler), at least one validator keeps power (the generator never disputes the last validator).",
        "level": "exploration",
        "trusted": ["harness chain_test.go / hist_test.go", "models Chain/OracleBlock.lean, Chain/Tally.lean"],
    },
    "C04": {
        "props_module": "LayerModel.Props.C04",
        "families": [("escrow", 64, 1500, "chain")],
        "gen": ["facts", "formulas"],
        "rule": "escrow: chain histories (real app; two reporters with commissions, selectors delegating to one or two validators, tips, cycle-list reports, tip withdrawals) of >= 10 blocks in which selector credits became non-zero; distinct = distinct operation sequences",
        "level_text": "Theorems (invariants by induction over every operation sequence): the oracle account equals the sum of unpaid tips over tips, round payouts, clean-ups and query creations; the tips escrow covers the selector credits up to 10^-18 loya per credit event over every sequence of reward payments (constrained exactly as C09 proves for DivvyingTips) and withdrawals; no WithdrawTip payout exceeds the escrow balance while fewer than 10^18 credit events have happened. Tied to the code by chain-mode runs of the real application: after every block the oracle balance must equal the sum of Query.Amount, the tips-escrow balance must cover the sum of SelectorTips, the bridge account must be empty.",
        "level_note": "Trusted: Lean kernel; models Chain/Escrow.lean (abstract ledgers; the link from DivvyingTips to validPay is C09_divvy_sum + C09_allocated_sum_exact); dispute-account cover is checked with C13 (not here). cosmos-sdk bank/staking are real in the harness.",
        "trusted": ["model Chain/Escrow.lean", "harness chain_test.go / hist_test.go"],
    },
    "C07": {
        "props_module": "LayerModel.Props.C07",
        "families": [("oracle7", 64, 1500, "chain")],
        "gen": ["facts", "formulas"],
        "rule": "oracle7: chain histories (real app; tips, reports by two reporters incl. hostile values, deposit and withdrawal query ids, unregistered types, governance changes of cycle list and report window, disputes/evidence) with >= 5 accepted oracle transactions and >= 2 aggregates; distinct = distinct operation sequences",
        "level_text": "Theorems about the oracle round state machine (Chain/Oracle.lean, ~330 lines mirroring tip / SubmitValue / SetValue / deposit reveal / SetAggregatedReport / RotateQueries / ClearOldqueries): bridge-withdrawal queries are never reportable; an accepted report implies sufficient unjailed stake, a decodable value, a registered non-withdrawal type and (unless a deposit) a current round with tip or cycle-list flag whose window has not closed; a later report of the same reporter in the round replaces the earlier one; aggregating a round adds exactly one aggregate (next sequence number, block time key) and removes exactly that round's query; the aggregation pass leaves rounds without reports (their tips included) untouched; rotation keeps the current query while its window is open and otherwise moves to the next entry with wrap-around. The model is tied to the code by executing the REAL application on generated histories: every tip/report accept-reject decision, the whole Query collection, the whole Aggregates collection and the cycle pointer after EVERY block must equal the model's.",
        "level_note": "Trusted: Lean kernel; hand-written model Chain/Oracle.lean; reporter stake, data-spec window/method and value validity enter the model as observed inputs (computed by the harness on the pre-block state with the real reporter/registry keepers); rewards are not part of this model (C09/C04). The tip-carries statement is proved for the aggregation pass (rotation's clean-up only removes zero-amount records by definition).",
        "trusted": ["model Chain/Oracle.lean", "harness chain_test.go / hist_test.go / fam_oracle_test.go", "env inputs: ReporterStake, registry spec, ValidateValue"],
    },
    "C08": {
        "props_module": "LayerModel.Props.C08",
        "families": [("oracle8", 64, 1500, "chain")],
        "gen": ["facts", "formulas"],
        "rule": "oracle8: same histories as oracle7 (they include bridge withdrawals, disputes and evidence, i.e. all three writers of aggregates) with >= 2 aggregates; distinct = distinct operation sequences",
        "level_text": "Theorems: storing under a fresh key appends to that query's chronological list and changes no other entry; sequence numbers grow by one; timestamps stay strictly increasing when block times do; flagging changes only the flag and never clears it; 'current' is the last entry, 'by index' the i-th, 'data before T' the latest unflagged entry strictly before T (maximality proved from the ordering invariant), 'timestamp before/after T' the greatest below / least above T. Tie: the oracle model must reproduce the real Aggregates collection after every block (incl. bridge withdrawals and flags from funded disputes and evidence); the real getters are probed at timestamps before/between/equal/after stored ones and at indexes in and out of range and compared with the model; an implementation-only monitor checks that consecutive dumps differ only by appended entries and raised flags.",
        "level_note": "Trusted: Lean kernel; model Chain/Oracle.lean; strictly increasing block time is an assumption (CometBFT); the bridge snapshot's prev/next timestamps use the same two getters (GetTimestampBefore/After) whose characterisation is C08_ts_before_after.",
        "trusted": ["model Chain/Oracle.lean", "harness fam_oracle_test.go (dumps, getter probes)"],
    },
    "C13": {
        "props_module": "LayerModel.Props.C13",
        "families": [("settle", 64, 1500, "chain")],
        "gen": ["facts", "formulas"],
        "rule": "settle: histories (real app, one transaction per block, one disputed report) in which the dispute was executed and at least one refund or reward was paid; distinct = distinct histories",
        "level_text": "Theorems for all amounts: LegacyDec division of whole numbers followed by truncation is integer division (divisors up to 10^18), so the burn amount is floor(fee/20) and its half floor(burn/2); execution conserves the escrow for every outcome (burn + returned to the reporter's side + refund pot + bond pot + voter reward = fees + escrowed stake, up to the one odd loya of the burn amount); a refund is exactly floor(fee*pot/feeTotal) with its 10^-6 remainder, never more than the pro-rata part; for payers whose recorded fees add up to the fee total the refunds add up to at most the pot and fall short of it by less than the number of payers; a payer record is consumed by its refund (second request finds none); a sole voter of every voting group receives the whole voter reward. Tie: the real app runs generated settlements (every category, fee paid at once / in parts / by several payers / repeatedly by one payer / from bond, votes of any subset of reporters, tippers, token holders and the team, up to three rounds, execution through the begin blocker, claims in any order, repeated and by non-parties); the model's burn amount, voter reward, refund and bond share are compared with the implementation's holdings changes, and monitors on the implementation's data check: burned at execution = supply drop, escrow outflow at execution = burn + return, refunds pro rata within two loya and never for disputes decided against, records consumed, rewards equal the pro-rata formula over the voter's recorded powers (tips at the dispute's block) and add up to at most the pot, no claim rejected for lack of funds, at most dust left in escrow after all parties claimed.",
        "level_note": "Trusted: Lean kernel; model Chain/Settle.lean. Multi-round disputes are checked for conservation and leftover only (the refund formula with round fees in the fee total is not modelled); failed (expired, under-funded) disputes are excluded from the leftover monitor: their refund pot is FeeTotal/20 (see DESIGN.md). Payments of one payer from both balance and bond keep one record whose source flag is the last payment's.",
        "trusted": ["model Chain/Settle.lean", "harness chain_test.go, fam_settle_test.go"],
    },
    "C14": {
        "props_module": "LayerModel.Props.C14",
        "families": [("claim", 6000, 200000), ("deposit", 8, 96, "chain"), ("wvalue", 1500, 40000), ("qid", 500, 20000)],
        "gen": ["facts", "formulas"],
        "rule": "claim: generated claim attempts that succeed on the real ClaimDeposit; deposit: long chain histories (2000-block report window, 12 h delay) with at least one accepted claim; wvalue/qid: every case; distinct = distinct input lines",
        "level_text": "Theorems: a claim succeeds only if the aggregate exists, is unflagged, the id is unclaimed, a checkpoint strictly older than the aggregate exists whose threshold the aggregate's power reaches, the aggregate is at least 12 h old and the value decodes with a valid recipient; once an id is in the claimed set it stays there and EVERY later transaction containing a claim of it (alone or anywhere in a batch) is rejected as a whole, a successful batch has pairwise distinct new ids — so over every history an id is claimed at most once; minted = floor(amount/10^12), claimer gets floor(tip/10^12), recipient the rest (under floor(amount/10^12) < 2^63, with a counterexample theorem for the recorded Int64 wrap); a withdrawal burns exactly the amount and takes the next id (first 1); withdrawal queries are never reportable (from C07). Tie: the real ClaimDeposit on a real store with mocked oracle/bank over generated aggregates, checkpoints, ages, values (wraps, tip > amount, malformed); end-to-end long histories on the real app (reports by two reporters at different heights, 2000-block window, 12 h delay, repeated/batched claims, withdrawals) with per-claim balance monitors; withdrawal value round trip and query ids from C15's families.",
        "level_note": "Trusted: Lean kernel; model Chain/BridgeClaim.lean; the ABI decoding of the report value and the bech32 check enter the model as inputs computed by the harness with go-ethereum / the SDK directly; aggregate/flag bookkeeping is the oracle model's (C07/C08).",
        "trusted": ["model Chain/BridgeClaim.lean", "harness fam_claim_test.go (mock oracle/bank), fam_deposit_test.go (real app)"],
    },
    "C16": {
        "props_module": "LayerModel.Props.C16",
        "families": [("valsetchain", 64, 1500, "chain")],
        "gen": ["facts", "formulas", "sol:scan"],
        "rule": "valsetchain: staking histories (real app, 1-5 genesis validators, joins, exits, delegations at the 5 % line, silent validators, gaps to 15 days) in which at least one checkpoint was created by a power shift and at least one step was accepted by the contract model with the stored signatures; distinct = distinct histories",
        "level_text": "Theorems for every staking validator list, block time and history: the bridge set is a permutation of the validators with a registered EVM address and non-zero consensus power, ordered by descending power then address (total order proved), never empty; the end blocker adds a checkpoint exactly when none is saved, the last one is stale (two weeks, both sides offset by 1 s) or the set changed with PowerDiff >= 5 % and never alters earlier ones; PowerDiff is the relative sum of absolute power changes; by induction over end blocks: indexes contiguous, timestamps strictly increasing, threshold = floor(2*total/3), slot count = size of the previous set; for consecutive checkpoints and ANY hash functions the contract's update rule accepts whenever one slot per previous member is supplied, present signatures verify and signers hold > 2/3 of the previous power, ending exactly in the next checkpoint's state. The contract model is tied to BlobstreamO.sol by a regenerated condition/flow table proved equal to the modelled one. Tie to the chain: the real app runs generated staking histories; after every block the bridge collections are compared with the model's end blocker fed with the staking validators, and the statement runs as monitor on the implementation's data (real keccak/ABI hashes recomputed by the Lean model, every stored signature ecrecovered against its slot's member, acceptance by the contract model with the stored signatures).",
        "level_note": "Trusted: Lean kernel; model Chain/BridgeValset.lean; the Solidity scanner (regex skeleton of the two functions); secp256k1 recovery in the harness (go-ethereum) for the validity marks; the EVM-clock staleness guard of _checkValidatorSignatures (relayer liveness) and the 100-validator upper range are outside the explored space (theorems are size-independent, histories use up to 8 validators).",
        "trusted": ["model Chain/BridgeValset.lean", "extract/sol_scan.py", "harness chain_test.go, fam_valset_test.go"],
    },
    "C19": {
        "props_module": "LayerModel.Props.C19",
        "families": [("authz", 64, 1500, "chain")],
        "gen": ["facts", "formulas", "proto:scan"],
        "rule": "authz: histories (real app, one transaction per block) with at least two privileged messages signed by ordinary accounts and at least ten executed ordinary transactions; distinct = distinct histories",
        "level_text": "Theorems for every sequence of transactions (any message, any value in the authority field, any order): a privileged message (parameter updates of the two parameterised modules, cycle-list replacement, data-spec update, start of minting, snapshot-limit change) is executed only when signed by the governance authority; the team address changes only at the request of the current team address; as long as neither signs, parameters, cycle list, minting flag, snapshot limit and team stay as they are and every registered data spec keeps its content; re-registration of an existing type is never executed. The model's assumptions are proved equal to tables regenerated from /repo on every run: the handlers with a leading guard are exactly the six authority-guarded ones (guard is statement 0, no store write before it), UpdateTeam and RegisterSpec; every function writing a governed collection is one of these or genesis/block code; the proto files declare exactly one signer field per message (25 messages), `authority` for the six privileged ones. Tie to the application and the frame half of the statement: the real app runs generated histories, one transaction per block, covering every message type of every module with signers different from every other named account, privileged messages signed by ordinary accounts (own or governance address in the authority field), the same changes through real governance proposals, team hand-overs; the model's accept/reject decisions and tracked state are compared with the implementation's, and monitors on the implementation's own data check that governed items change only in blocks with an executed proposal (team: only by the team; specs: never replaced) and that no account other than the signer loses liquid balance, delegated stake, reward credit or its reporter selection, except the three listed exceptions (funded dispute -> disputed reporter and its selectors; fee from bond -> the paying reporter's selectors; removal of a selector below the minimum of a full reporter).",
        "level_note": "Trusted: Lean kernel; model Chain/Authz.lean (the SDK's signer check and store branching are modelled as: a transaction not signed by the declared signer, or whose handler fails, leaves no trace); extractor (go/ast guard recognition) and proto scanner; the frame half is decided by monitors over generated histories (exploration), not by a theorem about the handlers' code.",
        "trusted": ["model Chain/Authz.lean", "extract/main.go (guards, governed writes), extract/proto_scan.py", "harness chain_test.go, fam_authz_test.go"],
    },
    "C17": {
        "props_module": "LayerModel.Props.C17",
        "families": [("proposal", 96, 2500, "chain")],
        "gen": ["facts", "formulas"],
        "rule": "proposal: chain histories (real app, 1-5 validators) with hostile vote-extension payloads from >= 2 blocks or at least one content-changing mutation of the injected transaction; distinct = distinct step sequences",
        "level_text": "Theorems over all extended commits and injected transactions: an honest proposal (derive, inject) is accepted whenever the commit validates; an accepted proposal's registrations, validator-set signatures and attestations are exactly the derivation from its own commit (nil-vs-empty slice shape included), so any differing element is rejected; the parallel lists PreBlocker indexes are aligned; registrations come only from commit votes of operators WITHOUT an address whose two signatures recover to one address (registered once, from own signatures); address recovery is only reached with signatures of >= 64 bytes (counterexample theorem for the pre-fix panic); an attestation changes only the slot(s) of its sender in the layout set and reaches it (counterexample theorem for the pre-fix layout by the last saved set). Tie: the REAL handlers (PrepareProposal, ProcessProposal, ExtendVote with per-validator keyrings, VerifyVoteExtension, PreBlocker) run on generated histories with 22 kinds of hostile payloads, absent voters, bursts of attestation requests, checkpoint changes and 16 kinds of single-field mutations; for EVERY block the lists injected by the real PrepareProposal are compared with the Lean model's derivation from the same commit (operators, addresses, timestamps as int64, signatures, attestations, snapshots, nil/empty shape); monitors: honest proposals accepted and executed, content-changing mutations rejected, no panic anywhere, registered EVM addresses stable and equal to the operator key's address, every stored validator-set signature and every stored oracle attestation sent by the owner of its slot (slot = position in the set of the snapshot's checkpoint), every attestation carried by a commit vote stored after the next block.",
        "level_note": "Trusted: Lean kernel; model Chain/Proposal.lean (JSON modelled only as nil/empty-preserving round trip; ECDSA recovery and baseapp.ValidateVoteExtensions are parameters); the harness never lets fewer than 2/3+ of the power carry verified extensions (CometBFT would not decide such a height). ExtendVoteHandler is the real one (verif hook injects an in-memory keyring).",
        "trusted": ["model Chain/Proposal.lean", "harness chain_test.go (commit construction as CometBFT would), fam_proposal_test.go"],
    },
}
