import sys, os, json, time, subprocess, re, fcntl, hashlib, shutil, glob

VERIF = os.path.dirname(os.path.dirname(os.path.abspath(__file__)))
REPO = os.environ.get("REPO", "/repo")
WORK = os.path.join(VERIF, "work")
LEAN = os.path.join(VERIF, "lean")
HARNESS = os.path.join(VERIF, "harness")
EXTRACT = os.path.join(VERIF, "extract")
DRIVER = os.path.join(LEAN, ".lake", "build", "bin", "driver")
HBIN = os.path.join(HARNESS, "bin", "harness.test")
ALLOWED_AXIOMS = {"propext", "Classical.choice", "Quot.sound"}
FORBIDDEN = re.compile(r"\b(sorry|admit|native_decide|bv_decide|implemented_by)\b|^\s*axiom\s|\bunsafe\s|maxHeartbeats\s+0")

GOENV = dict(os.environ, GOFLAGS="-mod=mod", GOPROXY="off", GOSUMDB="off", GOTOOLCHAIN="local",
             CGO_ENABLED=os.environ.get("CGO_ENABLED", "1"))

from props import PROPS


def log(*a):
    print(*a, flush=True)


def run(cmd, cwd=None, env=None, timeout=None, stdin=None):
    t0 = time.time()
    try:
        p = subprocess.run(cmd, cwd=cwd, env=env, timeout=timeout, stdin=stdin,
                           stdout=subprocess.PIPE, stderr=subprocess.STDOUT, text=True, errors="replace")
        return p.returncode, p.stdout, time.time() - t0
    except subprocess.TimeoutExpired as e:
        out = e.stdout if isinstance(e.stdout, str) else (e.stdout or b"").decode(errors="replace")
        return 124, out + "\n[timeout]", time.time() - t0


class Lock:
    def __init__(self, path):
        self.path = path

    def __enter__(self):
        os.makedirs(os.path.dirname(self.path), exist_ok=True)
        self.f = open(self.path, "w")
        fcntl.flock(self.f, fcntl.LOCK_EX)
        return self

    def __exit__(self, *a):
        fcntl.flock(self.f, fcntl.LOCK_UN)
        self.f.close()


# ---------------------------------------------------------------------------------------------
# builds

def build_harness():
    """(re)build the harness test binary from /repo's current working tree with -tags verif"""
    rc, out, _ = run([os.path.join(VERIF, "tools", "gen_gomod.sh")], env=dict(os.environ, REPO=REPO))
    if rc != 0:
        return False, out
    os.makedirs(os.path.join(HARNESS, "bin"), exist_ok=True)
    rc, out, dt = run(["go", "test", "-c", "-tags", "verif", "-o", HBIN, "."], cwd=HARNESS, env=GOENV, timeout=1800)
    return rc == 0, out


def build_extract():
    os.makedirs(os.path.join(EXTRACT, "bin"), exist_ok=True)
    if not os.path.exists(os.path.join(EXTRACT, "go.mod")):
        return True, "no extractor"
    rc, out, dt = run(["go", "build", "-o", os.path.join(EXTRACT, "bin", "extract"), "."], cwd=EXTRACT, env=GOENV, timeout=900)
    return rc == 0, out


def regenerate(steps):
    """run the translators against /repo's working tree; (ok, log, items)"""
    if not steps:
        return True, "", []
    ok, out = build_extract()
    if not ok:
        return False, out, []
    gen_dir = os.path.join(LEAN, "LayerModel", "Gen")
    tmp = os.path.join(WORK, "gen_tmp")
    shutil.rmtree(tmp, ignore_errors=True)
    os.makedirs(tmp)
    logs, items, allok = [], [], True
    for step in steps:
        if step.startswith("sol:"):
            cmd = ["python3", os.path.join(EXTRACT, "sol_scan.py"), REPO, tmp]
        elif step.startswith("proto:"):
            cmd = ["python3", os.path.join(EXTRACT, "proto_scan.py"), REPO, tmp]
        else:
            cmd = [os.path.join(EXTRACT, "bin", "extract"), "-repo", REPO, "-out", tmp, "-step", step]
        rc, out, dt = run(cmd, cwd=EXTRACT, env=GOENV, timeout=900)
        logs.append(f"[{step}] rc={rc} {dt:.1f}s\n{out[-4000:]}")
        if rc != 0:
            allok = False
    # move-if-different (stale generated files cannot survive: anything the step should have produced and did
    # not is removed)
    produced = set(os.listdir(tmp))
    for f in produced:
        src, dst = os.path.join(tmp, f), os.path.join(gen_dir, f)
        new = open(src).read()
        old = open(dst).read() if os.path.exists(dst) else None
        if new != old:
            with open(dst, "w") as fh:
                fh.write(new)
        items.append(f)
    return allok, "\n".join(logs), sorted(items)


def lake_build(targets):
    rc, out, dt = run(["lake", "build"] + targets, cwd=LEAN, timeout=3600)
    return rc == 0, out, dt


# ---------------------------------------------------------------------------------------------
# audit

def theorems_of(module):
    """enumerate (fully qualified) theorem names in a Props module by reading its source"""
    path = os.path.join(LEAN, module.replace(".", "/") + ".lean")
    names, ns = [], []
    if not os.path.exists(path):
        return names
    for line in open(path):
        m = re.match(r"^namespace\s+(\S+)", line)
        if m:
            ns.append(m.group(1)); continue
        m = re.match(r"^end\s+(\S+)", line)
        if m and ns and ns[-1] == m.group(1):
            ns.pop(); continue
        m = re.match(r"^(?:private\s+|protected\s+)?theorem\s+(\S+)", line)
        if m:
            names.append(".".join(ns + [m.group(1)]))
    return names


def audit(prop, module):
    names = theorems_of(module)
    src = f"import {module}\n" + "".join(f"#print axioms {n}\n" for n in names)
    path = os.path.join(WORK, f"Audit_{prop}.lean")
    with open(path, "w") as f:
        f.write(src)
    rc, out, dt = run(["lake", "env", "lean", path], cwd=LEAN, timeout=1800)
    res = {}
    # output: "'name' depends on axioms: [a, b]" or "'name' does not depend on any axioms"
    for m in re.finditer(r"'([^']+)' depends on axioms: \[([^\]]*)\]", out.replace("\n", " ")):
        res[m.group(1)] = [a.strip() for a in m.group(2).split(",") if a.strip()]
    for m in re.finditer(r"'([^']+)' does not depend on any axioms", out):
        res[m.group(1)] = []
    report = []
    for n in names:
        ax = res.get(n)
        ok = ax is not None and set(ax) <= ALLOWED_AXIOMS
        report.append({"theorem": n, "axioms": ax, "ok": ok})
    return report, out if rc != 0 else ""


def forbidden_tokens():
    hits = []
    for path in glob.glob(os.path.join(LEAN, "**", "*.lean"), recursive=True):
        if "/.lake/" in path:
            continue
        in_block = 0
        for i, line in enumerate(open(path, errors="replace"), 1):
            # strip comments (block comments tracked roughly, line comments exactly)
            s = line
            out = ""
            j = 0
            while j < len(s):
                if s.startswith("/-", j):
                    in_block += 1; j += 2; continue
                if s.startswith("-/", j) and in_block:
                    in_block -= 1; j += 2; continue
                if in_block:
                    j += 1; continue
                if s.startswith("--", j):
                    break
                out += s[j]; j += 1
            out = re.sub(r'"(?:[^"\\]|\\.)*"', '""', out)   # string literals are not code
            if FORBIDDEN.search(out):
                hits.append(f"{os.path.relpath(path, LEAN)}:{i}: {line.strip()[:100]}")
    return hits


# ---------------------------------------------------------------------------------------------
# correspondence + monitor

def shard_counts(n, shards):
    base = n // shards
    return [base + (1 if i < n % shards else 0) for i in range(shards)]


def run_family(prop, fam, n, seed, tier, inputs=None, shards=1, timeout=3000):
    """returns dict(lines=[(input_line, driver_line)], errors=[...])"""
    procs = []
    os.makedirs(WORK, exist_ok=True)
    counts = shard_counts(n, shards) if n > 0 else [0]
    for sh, cnt in enumerate(counts):
        outp = os.path.join(WORK, f"{prop}.{fam}.{sh}.impl")
        env = dict(GOENV, HARNESS_FAMILY=fam, HARNESS_OUT=outp, HARNESS_N=str(cnt),
                   VERIF_SEED=str(seed * 1000 + sh if shards > 1 else seed), VERIF_TIER=tier,
                   GOMEMLIMIT="6GiB")
        if inputs and sh == 0:
            env["HARNESS_INPUT"] = ":".join(inputs)
        elif "HARNESS_INPUT" in env:
            del env["HARNESS_INPUT"]
        p = subprocess.Popen([HBIN, "-test.run", "^TestHarness$", "-test.timeout", "0"], cwd=HARNESS, env=env,
                             stdout=subprocess.PIPE, stderr=subprocess.STDOUT, text=True, errors="replace")
        procs.append((p, outp))
    pairs, errors = [], []
    for p, outp in procs:
        try:
            out, _ = p.communicate(timeout=timeout)
        except subprocess.TimeoutExpired:
            p.kill(); out = "[harness timeout]"
            errors.append(out)
        if p.returncode != 0:
            errors.append(f"harness rc={p.returncode}: {out[-2000:]}")
        if not os.path.exists(outp):
            continue
        with open(outp) as fh:
            rc, dout, _ = run([DRIVER], stdin=fh, timeout=timeout)
        ilines = open(outp).read().splitlines()
        dlines = dout.splitlines()
        if rc != 0 or len(dlines) != len(ilines):
            errors.append(f"driver rc={rc} lines {len(dlines)} vs {len(ilines)}: {dout[-500:]}")
        pairs.extend(zip(ilines, dlines))
    return {"pairs": pairs, "errors": errors}


def load_known():
    known, fixed = {}, []
    path = os.path.join(VERIF, "known_findings.txt")
    if os.path.exists(path):
        for line in open(path):
            line = line.strip()
            m = re.match(r"finding:\s+property=(\S+)\s+id=(\S+)\s+(.*)", line)
            if m:
                known[(m.group(1), m.group(2))] = m.group(3)
            elif line.startswith("fixed:"):
                fixed.append(line)
    return known, fixed


def write_replay(prop, seed, tier, kind, payload):
    d = os.path.join(WORK, "replays")
    os.makedirs(d, exist_ok=True)
    path = os.path.join(d, f"{prop}-{tier}-{seed}-{kind}.json")
    with open(path, "w") as f:
        json.dump(payload, f, indent=1)
    return path


# ---------------------------------------------------------------------------------------------

def main(argv):
    if not argv:
        print(__doc__ if __doc__ else "usage: check Cnn [--tier quick|thorough] [--replay f]"); return 2
    prop = argv[0]
    tier = os.environ.get("VERIF_TIER", "quick")
    replay = None
    i = 1
    while i < len(argv):
        if argv[i] == "--tier":
            tier = argv[i + 1]; i += 2
        elif argv[i] == "--replay":
            replay = argv[i + 1]; i += 2
        else:
            i += 1
    seed = int(os.environ.get("VERIF_SEED", "1") or "1")
    if prop not in PROPS:
        print(f"unknown property {prop}"); return 2
    with Lock(os.path.join(WORK, ".lock")):
        return check(prop, tier, seed, replay)


def check(prop, tier, seed, replay):
    cfg = PROPS[prop]
    t0 = time.time()
    known, fixed = load_known()
    broken = []          # broken obligations / correspondence streams (names)
    notes = []
    evidence_cov = {}

    # 1. translators
    gen_ok, gen_log, gen_items = regenerate(cfg.get("gen", []))
    if not gen_ok:
        broken.append({"kind": "translator", "name": "extract", "detail": gen_log[-3000:]})

    # 2. Lean: model, theorems, driver
    module = cfg["props_module"]
    ok_driver, out_d, dt_d = lake_build(["driver"])
    if not ok_driver:
        print(out_d[-6000:])
        print(f"ERROR: the Lean driver does not build; cannot run {prop}")
        return 2
    ok_props, out_p, dt_p = lake_build([module])
    checker_cmd = f"cd lean && lake build driver {module}"
    if not ok_props:
        # name the first failing declaration(s)
        errs = re.findall(r"error: ([^\n]*)", out_p)
        broken.append({"kind": "theorem", "name": module, "detail": "\n".join(errs[:10]) or out_p[-3000:]})
    audit_report, audit_err = ([], "")
    if ok_props:
        audit_report, audit_err = audit(prop, module)
        for r in audit_report:
            if not r["ok"]:
                broken.append({"kind": "axioms", "name": r["theorem"], "detail": str(r["axioms"])})
    forb = forbidden_tokens()
    for h in forb:
        broken.append({"kind": "forbidden-token", "name": h, "detail": ""})
    if tier == "thorough" and ok_props:
        rc, out, dt = run(["lake", "env", "leanchecker", module], cwd=LEAN, timeout=3600)
        checker_cmd += f" && lake env leanchecker {module}"
        if rc != 0:
            broken.append({"kind": "leanchecker", "name": module, "detail": out[-2000:]})

    # 3. harness
    ok_h, out_h = build_harness()
    if not ok_h:
        print(out_h[-6000:])
        print("ERROR: the harness does not build against /repo's working tree")
        return 2

    # 4. correspondence + monitors
    shards = 12 if tier == "thorough" else 4
    fam_stats = {}
    monfails, diffs, knowns, errors = [], [], {}, []
    samples = []
    distinct_nt = set()
    evaluations = 0
    corpus = sorted(glob.glob(os.path.join(VERIF, "corpus", prop, "*.txt")))
    inputs = list(corpus)
    if replay:
        rp = json.load(open(replay))
        rpath = os.path.join(WORK, f"{prop}.replay.txt")
        with open(rpath, "w") as f:
            f.write("\n".join(rp.get("lines", [])) + "\n")
        inputs = [rpath]
    for famspec in cfg.get("families", []):
        fam, nq, nt = famspec[:3]
        heavy = len(famspec) > 3 and famspec[3] == "chain"
        n = 0 if replay else (nt if tier == "thorough" else nq)
        nsh = shards if n >= 1000 else 1
        if heavy and n >= 16:
            nsh = 14 if tier == "thorough" else 8
        res = run_family(prop, fam, n, seed, tier, inputs=inputs, shards=nsh)
        errors.extend(res["errors"])
        st = {"cases": 0, "ok": 0, "diff": 0, "monfail": 0, "known": 0, "nontrivial": 0, "outcomes": {}}
        for il, dl in res["pairs"]:
            evaluations += 1
            st["cases"] += 1
            parts = dl.split("|")
            status = parts[0]
            nt_flag = len(parts) > 1 and parts[1] == "1"
            if nt_flag:
                st["nontrivial"] += 1
                distinct_nt.add(hashlib.md5(il.split("|=>|")[0].encode()).digest()[:8])
            out_class = il.split("|=>|")[-1][:24] if "|=>|" in il else ""
            out_class = re.sub(r"[0-9a-f]{6,}|\d+", "#", out_class)[:24]
            st["outcomes"][out_class] = st["outcomes"].get(out_class, 0) + 1
            if len(samples) < 6 and nt_flag and st["cases"] % 97 == 1:
                samples.append(il[:600])
            if status == "ok":
                st["ok"] += 1
            elif status.startswith("known:"):
                st["known"] += 1
                knowns.setdefault(status[6:], []).append(il)
            elif status == "diff":
                st["diff"] += 1; diffs.append((il, dl))
            elif status in ("monfail", "both"):
                st["monfail"] += 1; monfails.append((il, dl))
                if status == "both":
                    st["diff"] += 1
            else:
                errors.append(f"driver: {dl[:200]} for {il[:200]}")
        if len(st["outcomes"]) > 12:
            top = sorted(st["outcomes"].items(), key=lambda kv: -kv[1])[:12]
            st["outcomes"] = dict(top)
        fam_stats[fam] = st
        if not samples and res["pairs"]:
            samples.append(res["pairs"][0][0][:600])

    # extra steps registered by the property (chain-mode etc.)
    for hook in cfg.get("extra", []):
        r = hook(prop=prop, tier=tier, seed=seed, replay=replay, run=run, work=WORK, verif=VERIF, repo=REPO,
                 goenv=GOENV, hbin=HBIN, driver=DRIVER)
        evaluations += r.get("evaluations", 0)
        for k in r.get("distinct", []):
            distinct_nt.add(k)
        monfails.extend(r.get("monfails", []))
        diffs.extend(r.get("diffs", []))
        errors.extend(r.get("errors", []))
        for k, v in r.get("knowns", {}).items():
            knowns.setdefault(k, []).extend(v)
        samples.extend(r.get("samples", [])[:4])
        fam_stats.update(r.get("stats", {}))
        broken.extend(r.get("broken", []))

    # 5. verdict
    violations = 0
    out_lines = []
    for slug, items in sorted(knowns.items()):
        if (prop, slug) in known:
            out_lines.append(f"KNOWN-FINDING: property={prop} {slug}: {known[(prop, slug)]} ({len(items)} cases this run)")
        else:
            path = write_replay(prop, seed, tier, "unlisted-" + slug, {"property": prop, "seed": seed, "tier": tier,
                                "lines": [items[0]], "note": f"trigger {slug} fired but is not listed in known_findings.txt"})
            out_lines.append(f"VIOLATION property={prop} replay={path}")
            violations += 1
    if monfails:
        il, dl = min(monfails, key=lambda p: len(p[0]))
        path = write_replay(prop, seed, tier, "monitor", {
            "property": prop, "seed": seed, "tier": tier, "lines": [il],
            "driver": dl, "count": len(monfails),
            "note": "the property's monitor fails on the implementation's own observation for this input",
            "broken": broken})
        out_lines.append(f"VIOLATION property={prop} replay={path}")
        violations += len(monfails)
    elif diffs or broken or errors:
        il = diffs[0][0] if diffs else None
        path = write_replay(prop, seed, tier, "unproved", {
            "property": prop, "seed": seed, "tier": tier, "lines": [il] if il else [],
            "driver": diffs[0][1] if diffs else None,
            "broken": broken, "correspondence_differences": len(diffs), "errors": errors[:5],
            "note": "a proof obligation or the model/implementation correspondence no longer checks; the search "
                    "evaluated the property's monitor on every generated input of this run and found no failing input"})
        out_lines.append(f"VIOLATION property={prop} replay={path} no-failing-input-found")
        violations += 1

    # 6. evidence
    n_obl = len(audit_report) if audit_report else len(theorems_of(module))
    n_dis = sum(1 for r in audit_report if r["ok"]) if ok_props else 0
    cov = {
        "obligations": n_obl,
        "discharged": n_dis,
        "checker_cmd": checker_cmd,
        "trusted_base": ["Lean 4.33.0 kernel" + (" + leanchecker" if tier == "thorough" else ""),
                         "axioms allowed: propext, Classical.choice, Quot.sound (audited with #print axioms per theorem)",
                         "tools/orchestrator.py, harness/ (generators, canonicalisation), lean/Driver (line protocol)"]
                        + cfg.get("trusted", []),
        "theorems": [{"name": r["theorem"], "axioms": r["axioms"]} for r in audit_report],
        "evaluations": evaluations,
        "distinct_nontrivial": len(distinct_nt),
        "rule": cfg.get("rule", ""),
        "samples": samples[:8] or ["(no generated cases: proof obligations only)"],
        "traces_validated_against_impl": evaluations,
        "families": fam_stats,
        "regenerated": gen_items,
        "broken_obligations": broken,
        "correspondence_differences": len(diffs),
        "monitor_failures": len(monfails),
        "known_findings_replayed": {k: len(v) for k, v in knowns.items()},
        "corpus_files": [os.path.relpath(c, VERIF) for c in corpus],
        "lean_build_s": round(dt_d + dt_p, 1),
    }
    cov.update(evidence_cov)
    ev = {
        "property_id": prop, "tier": tier, "seed": seed, "level": cfg.get("level", "proof"),
        "coverage": cov,
        "assumptions": cfg.get("assumptions", []) + cfg.get("trusted", []),
        "wall_s": round(time.time() - t0, 1),
        "violations": violations,
    }
    os.makedirs(os.path.join(VERIF, "evidence"), exist_ok=True)
    with open(os.path.join(VERIF, "evidence", f"{prop}.json"), "w") as f:
        json.dump(ev, f, indent=1)
    for l in out_lines:
        print(l)
    st = "; ".join(f"{k}: {v['cases']} cases, {v['diff']} diff, {v['monfail']} monfail" for k, v in fam_stats.items())
    print(f"[{prop}] tier={tier} seed={seed} theorems {n_dis}/{n_obl} ok; {st}; {ev['wall_s']}s")
    if errors:
        print("errors:", errors[:3])
    return 1 if violations else 0
