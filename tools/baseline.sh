#!/bin/bash
# Runs the repository's baseline (guard off) and compares with BASELINE.json's stable_pass list.
mkdir -p /verif/work/baseline
for m in . ./e2e; do (cd /repo/$m && GOFLAGS=-mod=mod GOPROXY=off GOSUMDB=off go test -json -vet=off -count=1 -timeout 25m ./... ); done > /verif/work/baseline/run.json 2>/verif/work/baseline/run.err
python3 - <<'PY'
import json
b=json.load(open('/root/.vp/BASELINE.json'))
stable=set(b['stable_pass']); res={}
for l in open('/verif/work/baseline/run.json'):
    try: e=json.loads(l)
    except: continue
    if e.get('Action') in ('pass','fail','skip') and e.get('Test'):
        res[e['Package']+'::'+e['Test']]=e['Action']
missing=[t for t in stable if res.get(t)!='pass']
print("stable:",len(stable),"not passing:",len(missing)); print("\n".join(missing[:20]))
PY
