#!/bin/bash
# tools/try_mutation.sh <Cnn> <patch.diff> [tier] : apply a patch to /repo, run the property's check, undo the patch.
id=$1; patch=$(readlink -f "$2"); tier=${3:-quick}
cd /verif
if [ -n "$(git -C /repo status --porcelain)" ]; then echo "/repo has uncommitted changes: refusing"; exit 2; fi
git -C /repo apply "$patch" || exit 2
(cd /repo && GOFLAGS=-mod=mod GOPROXY=off GOSUMDB=off go build ./... 2>&1 | head -3)
./check $id --tier $tier 2>&1 | grep -v "^KNOWN-FINDING" | tail -2 | cut -c1-300
git -C /repo checkout -- .
# evidence/ and the regenerated tables now describe the patched tree: put the committed ones back
git -C /verif checkout -- evidence lean/LayerModel/Gen 2>/dev/null
