#!/usr/bin/env python3
# Writes MANIFEST.json from tools/props.py (claimed checks) and properties.jsonl (everything else -> not_applicable).
import json, os, sys
HERE = os.path.dirname(os.path.abspath(__file__))
sys.path.insert(0, HERE)
from props import PROPS
VERIF = os.path.dirname(HERE)
ids = [json.loads(l)["id"] for l in open(os.path.join(VERIF, "properties.jsonl"))]
BASE_CMD = ("for m in . ./e2e; do (cd /repo/$m && GOFLAGS=-mod=mod go test -json -vet=off -count=1 -timeout 25m ./...); done")
checks = []
for pid in ids:
    if pid not in PROPS:
        continue
    c = PROPS[pid]
    checks.append({
        "property_id": pid,
        "quick_cmd": f"./check {pid} --tier quick",
        "thorough_cmd": f"./check {pid} --tier thorough",
        "evidence_file": f"/verif/evidence/{pid}.json",
        "replay_cmd_template": f"./check {pid} --replay {{path}}",
        "engine": "lean-proof+correspondence",
        "level_claimed": {"category": c.get("level", "proof"), "text": c["level_text"], "design_ref": c.get("design_ref", "DESIGN.md section 5 " + pid)},
        "level_note": c["level_note"],
        "technique": c.get("technique", "Lean 4 theorems about a model of the code; model tied to /repo by differential correspondence run (and regenerated facts where listed); monitor of the theorem statement evaluated on implementation observations as failing-input search"),
    })
na = [{"property_id": pid, "reason": NA.get(pid, "not yet covered by the machinery at this commit (work in progress; see DESIGN.md section 9 build order)")} for pid in ids if pid not in PROPS] if (NA := getattr(__import__("props"), "NOT_APPLICABLE", {})) is not None else []
m = {
    "version": 1,
    "setup_cmd": "./setup.sh",
    "hooks": {"guard": "verif", "enable": "go test -c -tags verif (harness module with replace github.com/tellor-io/layer => /repo)",
              "baseline_off_cmd": BASE_CMD, "source_commits": getattr(__import__("props"), "HOOK_COMMITS", []), "add_only": True},
    "engines": [{"name": "lean-proof+correspondence", "path": "/verif/check", "serves_properties": [c["property_id"] for c in checks],
                 "kind_free_text": "Lean 4 model + theorems (lean/), Go harness calling the real code in-process (harness/), Lean driver executing the model and the monitors on the same lines (lean/Driver), translators regenerating model facts from source (extract/)"}],
    "checks": checks,
    "not_applicable": na,
    "notes": "See DESIGN.md. known_findings.txt lists recorded findings and fixed defects.",
}
json.dump(m, open(os.path.join(VERIF, "MANIFEST.json"), "w"), indent=1)
print("checks:", [c["property_id"] for c in checks], "not claimed:", len(na))
