#!/bin/bash
# Regenerates harness/go.mod and go.sum from /repo's (same requirements and replacements, plus
# `replace github.com/tellor-io/layer => $REPO`).  Run by setup and by every check.
set -e
REPO=${REPO:-/repo}
HERE=$(cd "$(dirname "$0")/.." && pwd)
for d in harness; do
  out=$HERE/$d/go.mod
  tmp=$(mktemp)
  sed -e "s#^module github.com/tellor-io/layer#module verif/$d#" \
      -e "0,/^require (/s##require (\n\tgithub.com/tellor-io/layer v0.0.0#" \
      -e "0,/^replace (/s##replace (\n\tgithub.com/tellor-io/layer => $REPO#" \
      $REPO/go.mod > $tmp
  if ! cmp -s $tmp $out; then cp $tmp $out; fi
  rm -f $tmp
  if ! cmp -s $REPO/go.sum $HERE/$d/go.sum; then cp $REPO/go.sum $HERE/$d/go.sum; fi
done
