#!/bin/bash
# Re-runs every claimed quick check on the current tree (which must be unmodified) so that the committed evidence
# files describe clean runs.  Usage: tools/refresh_evidence.sh [ids…]
cd /verif
if [ -n "$(git -C /repo status --porcelain)" ]; then echo "/repo has uncommitted changes: refusing"; exit 2; fi
ids="$@"
[ -z "$ids" ] && ids=$(python3 -c "import json;print(' '.join(c['property_id'] for c in json.load(open('MANIFEST.json'))['checks']))")
rc=0
for id in $ids; do ./check $id > work/refresh_$id.log 2>&1 || rc=1; tail -1 work/refresh_$id.log | cut -c1-200; done
# every evidence file must describe a complete run (all obligations discharged)
python3 - <<'PY' || rc=1
import json,glob,sys
bad=[]
for f in sorted(glob.glob('/verif/evidence/*.json')):
    c=json.load(open(f))['coverage']
    if c['discharged']!=c['obligations'] or c['obligations']<1: bad.append((f,c['discharged'],c['obligations']))
for b in bad: print('INCOMPLETE EVIDENCE',b)
sys.exit(1 if bad else 0)
PY
exit $rc
