#!/bin/bash
# Re-runs every claimed quick check on the current tree (which must be unmodified) so that the committed evidence
# files describe clean runs.  Usage: tools/refresh_evidence.sh [ids…]
cd /verif
if [ -n "$(git -C /repo status --porcelain)" ]; then echo "/repo has uncommitted changes: refusing"; exit 2; fi
ids="$@"
[ -z "$ids" ] && ids=$(python3 -c "import json;print(' '.join(c['property_id'] for c in json.load(open('MANIFEST.json'))['checks']))")
rc=0
for id in $ids; do ./check $id > work/refresh_$id.log 2>&1 || rc=1; tail -1 work/refresh_$id.log | cut -c1-200; done
exit $rc
