#!/bin/bash
# Regression over the seeded changes: applies every seeded/<Cnn>-*/patch.diff to /repo in turn, runs that property's quick
# tier (tools/try_mutation.sh restores /repo afterwards) and prints which ones are reported.  Not a registered check.
# usage: tools/run_seeded.sh [pattern]     (e.g. tools/run_seeded.sh 'C13-*')
cd /verif
pat=${1:-*}
missed=0
for d in seeded/$pat; do
  [ -f "$d/patch.diff" ] || continue
  id=$(basename "$d" | cut -c1-3)
  out=$(tools/try_mutation.sh "$id" "/verif/$d/patch.diff" quick 2>&1)
  if echo "$out" | grep -q "patch does not apply\|^error:"; then echo "STALE     $d (patch does not apply)"; missed=$((missed+1)); elif echo "$out" | grep -q "^VIOLATION property=$id"; then echo "reported  $d"; else echo "MISSED    $d"; missed=$((missed+1)); fi
done
git -C /repo status --short
# every patched tree leaves its objects in the Go build cache (it reached 110 GB once and blocked sandbox snapshots): trim it
sz=$(du -sm /root/.cache/go-build 2>/dev/null | cut -f1); if [ "${sz:-0}" -gt 20000 ]; then GOFLAGS=-mod=mod go clean -cache; fi
# the runs above rewrote evidence/ and the regenerated tables from patched trees: put the committed ones back
git -C /verif checkout -- evidence lean/LayerModel/Gen 2>/dev/null
echo "missed: $missed"
exit $missed
