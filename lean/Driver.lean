import Driver.Main
