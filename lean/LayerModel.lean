import LayerModel.Base.Dec
import LayerModel.Chain.Ante
import LayerModel.Props.C18
