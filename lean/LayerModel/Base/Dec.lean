/-
  LegacyDec of cosmossdk.io/math v1.3.0, modelled exactly: a `Dec` is the raw big integer `i`
  (value = i / 10^18).  `Int.tdiv`/`Int.tmod` are Go's `big.Int.Quo`/`Rem` (truncation toward zero).
  Overflow panics (`BitLen > 315`) are outside the model: all uses stay far below.
-/
namespace Layer

-- (a `Dec` is just an `Int`: the raw value; no type alias, so that `omega` sees through)

namespace Dec

def prec : Int := 1000000000000000000
def half : Int := 500000000000000000

/-- `chopPrecisionAndRound`: divide by 10^18 with banker's rounding (half to even), sign-symmetric. -/
def chopRoundNonneg (d : Int) : Int :=
  let q := d / prec
  let r := d % prec
  if r = 0 then q
  else if r < half then q
  else if r > half then q + 1
  else if q % 2 = 0 then q else q + 1

def chopRound (d : Int) : Int :=
  if d < 0 then - chopRoundNonneg (-d) else chopRoundNonneg d

def ofInt (n : Int) : Int := n * prec

/-- `LegacyDec.Mul` -/
def mul (a b : Int) : Int := chopRound (a * b)

/-- `LegacyDec.Quo` (caller guarantees `b ≠ 0`; Go panics on zero) -/
def quo (a b : Int) : Int := chopRound (Int.tdiv (a * prec * prec) b)

/-- `LegacyDec.MulTruncate` -/
def mulTruncate (a b : Int) : Int := Int.tdiv (a * b) prec

/-- `LegacyDec.QuoTruncate` -/
def quoTruncate (a b : Int) : Int := Int.tdiv (Int.tdiv (a * prec * prec) b) prec

/-- `LegacyDec.TruncateInt` -/
def truncateInt (a : Int) : Int := Int.tdiv a prec

/-- `LegacyDec.RoundInt` -/
def roundInt (a : Int) : Int := chopRound a

/-- `LegacyDec.MulInt` -/
def mulInt (a : Int) (n : Int) : Int := a * n

/-- `LegacyDec.QuoInt` -/
def quoInt (a : Int) (n : Int) : Int := Int.tdiv a n

end Dec

/-- `math.Int.Quo` / `QuoRaw`: truncated division. -/
def iquo (a b : Int) : Int := Int.tdiv a b

end Layer
