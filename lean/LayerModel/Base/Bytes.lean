/-! Byte strings as `List UInt8`: hex, big-endian words, padding. -/
namespace Layer

abbrev Bytes := List UInt8

namespace Bytes

def hexDigit (n : Nat) : Char :=
  if n < 10 then Char.ofNat (48 + n) else Char.ofNat (87 + n)

def toHex (b : Bytes) : String :=
  String.ofList (b.flatMap (fun x => [hexDigit (x.toNat / 16), hexDigit (x.toNat % 16)]))

def nibble? (c : Char) : Option Nat :=
  if '0' ≤ c ∧ c ≤ '9' then some (c.toNat - 48)
  else if 'a' ≤ c ∧ c ≤ 'f' then some (c.toNat - 87)
  else if 'A' ≤ c ∧ c ≤ 'F' then some (c.toNat - 55)
  else none

/-- Go `hex.DecodeString`: even length, hex digits only (upper or lower case) -/
def ofHexChars : List Char → Option Bytes
  | [] => some []
  | [_] => none
  | a :: b :: rest => do
    let x ← nibble? a
    let y ← nibble? b
    let r ← ofHexChars rest
    pure (UInt8.ofNat (x * 16 + y) :: r)

def ofHex? (s : String) : Option Bytes := ofHexChars s.toList

/-- big-endian encoding of `n` in exactly `len` bytes (high bytes dropped if `n` does not fit) -/
def beBytes : (len : Nat) → Nat → Bytes
  | 0, _ => []
  | len + 1, n => beBytes len (n / 256) ++ [UInt8.ofNat (n % 256)]

/-- a uint256 word -/
def u256 (n : Nat) : Bytes := beBytes 32 n

def zeros (n : Nat) : Bytes := List.replicate n 0

/-- Go `copy(dst[:32], src)`: first 32 bytes, zero-padded on the right -/
def copy32 (b : Bytes) : Bytes := (b.take 32) ++ zeros (32 - (b.take 32).length)

/-- Go `common.BytesToAddress`: the LAST 20 bytes, zero-padded on the left -/
def toAddress (b : Bytes) : Bytes :=
  let t := b.drop (b.length - 20)
  zeros (20 - t.length) ++ t

/-- pad on the right to a multiple of 32 -/
def padRight32 (b : Bytes) : Bytes := b ++ zeros ((32 - b.length % 32) % 32)

def ofString (s : String) : Bytes := s.toUTF8.toList

end Bytes
end Layer
