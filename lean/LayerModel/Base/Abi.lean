import LayerModel.Base.Bytes
/-!
  The Solidity contract ABI (head/tail encoding) for the argument shapes that occur in the bridge:
  static 32-byte words (uint256, bytes32, address, bool), dynamic byte strings (bytes, string) and a
  dynamic array of static (address, uint256) tuples (`Validator[]`).

  Specification (Solidity docs, "Formal Specification of the Encoding"): for a tuple X = (X₁ … X_k)
    enc(X) = head(X₁) … head(X_k) tail(X₁) … tail(X_k)
    static X_i : head = enc(X_i), tail = empty
    dynamic X_i: head = uint256(offset of tail(X_i) from the start of enc(X)), tail = enc(X_i)
    enc(bytes b)   = uint256(len b) ‖ b right-padded to a multiple of 32
    enc(T[] a)     = uint256(len a) ‖ enc of the elements as a tuple (static elements: concatenation)
-/
namespace Layer.Abi
open Layer Layer.Bytes

inductive Arg where
  | word (w : Bytes)                      -- one static 32-byte word, already formed
  | dyn (b : Bytes)                       -- bytes / string
  | vals (vs : List (Bytes × Nat))        -- Validator[] : (address bytes, power)
  deriving Repr, DecidableEq

def addressWord (a : Bytes) : Bytes := zeros 12 ++ toAddress a
def boolWord (b : Bool) : Bytes := u256 (if b then 1 else 0)

def valTuple (v : Bytes × Nat) : Bytes := addressWord v.1 ++ u256 v.2

/-- enc of a dynamic argument (its tail) -/
def tailOf : Arg → Bytes
  | .word _ => []
  | .dyn b => u256 b.length ++ padRight32 b
  | .vals vs => u256 vs.length ++ vs.flatMap valTuple

def isDyn : Arg → Bool
  | .word _ => false
  | _ => true

/-- heads with running tail offset -/
def heads : (off : Nat) → List Arg → Bytes
  | _, [] => []
  | off, .word w :: rest => w ++ heads off rest
  | off, a :: rest => u256 off ++ heads (off + (tailOf a).length) rest

/-- `abi.encode(args…)` -/
def enc (args : List Arg) : Bytes :=
  heads (32 * args.length) args ++ args.flatMap tailOf

/-! ### what the keeper builds -/

/-- `EncodeAndHashValidatorSet`: hand-rolled `offset(32) ‖ length ‖ Pack(address,uint256)…`
(each element through the library packer with two static arguments) -/
def goValsetBytes (vs : List (Bytes × Nat)) : Bytes :=
  u256 32 ++ u256 vs.length ++ vs.flatMap (fun v => enc [.word (addressWord v.1), .word (u256 v.2)])

/-- the ASCII bytes of "checkpoint" and "TRBBridge" as literals (kernel-reducible) -/
def checkpointTag : Bytes := [0x63, 0x68, 0x65, 0x63, 0x6b, 0x70, 0x6f, 0x69, 0x6e, 0x74]
def trbBridgeTag : Bytes := [0x54, 0x52, 0x42, 0x42, 0x72, 0x69, 0x64, 0x67, 0x65]

/-- checkpoint pre-image: Pack(bytes32 "checkpoint", uint256 threshold, uint256 timestamp, bytes32 valsetHash) -/
def goCheckpointPre (threshold ts : Nat) (valsetHash : Bytes) : Bytes :=
  enc [.word (copy32 checkpointTag), .word (u256 threshold), .word (u256 ts), .word (copy32 valsetHash)]

/-- 0x74656c6c6f7243757272656e744174746573746174696f6e0000000000000000 ("tellorCurrentAttestation") -/
def attestDomainSep : Bytes :=
  [0x74, 0x65, 0x6c, 0x6c, 0x6f, 0x72, 0x43, 0x75, 0x72, 0x72, 0x65, 0x6e, 0x74, 0x41, 0x74, 0x74,
   0x65, 0x73, 0x74, 0x61, 0x74, 0x69, 0x6f, 0x6e, 0, 0, 0, 0, 0, 0, 0, 0]

/-- attestation pre-image (9 arguments, one dynamic) -/
def goAttestPre (queryId value : Bytes) (ts power prev next : Nat) (checkpoint : Bytes) (attestTs : Nat) : Bytes :=
  enc [.word (copy32 attestDomainSep), .word (copy32 queryId), .dyn value, .word (u256 ts), .word (u256 power),
       .word (u256 prev), .word (u256 next), .word (copy32 checkpoint), .word (u256 attestTs)]

/-- TRBBridge query data: Pack(string "TRBBridge", bytes Pack(bool toLayer, uint256 id)) -/
def goQueryData (toLayer : Bool) (id : Nat) : Bytes :=
  enc [.dyn trbBridgeTag, .dyn (enc [.word (boolWord toLayer), .word (u256 id)])]

/-- withdrawal report value: Pack(address recipient, string sender, uint256 amount, uint256 0) -/
def goWithdrawValue (recipient : Bytes) (sender : String) (amount : Nat) : Bytes :=
  enc [.word (addressWord recipient), .dyn (ofString sender), .word (u256 amount), .word (u256 0)]

end Layer.Abi
