import LayerModel.Base.Bytes
/-! Executable Keccak-256 (Ethereum's keccak256: rate 136, padding 0x01…0x80), used only by the driver to
compare 32-byte digests with the implementation.  Theorems never reason about it: hashes are parameters. -/
namespace Layer.Keccak

def rc : Array UInt64 := #[
  0x0000000000000001, 0x0000000000008082, 0x800000000000808A, 0x8000000080008000,
  0x000000000000808B, 0x0000000080000001, 0x8000000080008081, 0x8000000000008009,
  0x000000000000008A, 0x0000000000000088, 0x0000000080008009, 0x000000008000000A,
  0x000000008000808B, 0x800000000000008B, 0x8000000000008089, 0x8000000000008003,
  0x8000000000008002, 0x8000000000000080, 0x000000000000800A, 0x800000008000000A,
  0x8000000080008081, 0x8000000000008080, 0x0000000080000001, 0x8000000080008008]

def rotc : Array Nat := #[1, 3, 6, 10, 15, 21, 28, 36, 45, 55, 2, 14, 27, 41, 56, 8, 25, 43, 62, 18, 39, 61, 20, 44]
def piln : Array Nat := #[10, 7, 11, 17, 18, 3, 5, 16, 8, 21, 24, 4, 15, 23, 19, 13, 12, 2, 20, 14, 22, 9, 6, 1]

def rotl (x : UInt64) (n : Nat) : UInt64 :=
  if n % 64 == 0 then x else (x <<< (UInt64.ofNat (n % 64))) ||| (x >>> (UInt64.ofNat (64 - n % 64)))

def round (st : Array UInt64) (r : Nat) : Array UInt64 := Id.run do
  let mut st := st
  -- theta
  let mut bc : Array UInt64 := Array.replicate 5 0
  for i in [0:5] do
    bc := bc.set! i (st[i]! ^^^ st[i+5]! ^^^ st[i+10]! ^^^ st[i+15]! ^^^ st[i+20]!)
  for i in [0:5] do
    let t := bc[(i + 4) % 5]! ^^^ rotl bc[(i + 1) % 5]! 1
    for j in [0:5] do
      st := st.set! (j * 5 + i) (st[j * 5 + i]! ^^^ t)
  -- rho, pi
  let mut t := st[1]!
  for i in [0:24] do
    let j := piln[i]!
    let b := st[j]!
    st := st.set! j (rotl t rotc[i]!)
    t := b
  -- chi
  for j in [0:5] do
    let row := #[st[j*5]!, st[j*5+1]!, st[j*5+2]!, st[j*5+3]!, st[j*5+4]!]
    for i in [0:5] do
      st := st.set! (j*5+i) (row[i]! ^^^ ((~~~ row[(i+1)%5]!) &&& row[(i+2)%5]!))
  -- iota
  st := st.set! 0 (st[0]! ^^^ rc[r]!)
  return st

def keccakF (st : Array UInt64) : Array UInt64 := Id.run do
  let mut st := st
  for r in [0:24] do
    st := round st r
  return st

def leWord (bs : Array UInt8) (off : Nat) : UInt64 := Id.run do
  let mut w : UInt64 := 0
  for k in [0:8] do
    w := w ||| ((bs[off + k]!).toUInt64 <<< (UInt64.ofNat (8 * k)))
  return w

def absorbBlock (st : Array UInt64) (block : Array UInt8) : Array UInt64 := Id.run do
  let mut st := st
  for i in [0:17] do
    st := st.set! i (st[i]! ^^^ leWord block (8 * i))
  return keccakF st

def keccak256 (msg : Bytes) : Bytes := Id.run do
  let rate := 136
  let m := msg.toArray
  let padLen := rate - (m.size % rate)
  let mut padded := m
  for k in [0:padLen] do
    let b : UInt8 := (if k == 0 then 0x01 else 0x00) ||| (if k == padLen - 1 then 0x80 else 0x00)
    padded := padded.push b
  let mut st : Array UInt64 := Array.replicate 25 0
  for blk in [0:padded.size / rate] do
    st := absorbBlock st (padded.extract (blk * rate) ((blk + 1) * rate))
  let mut out : Bytes := []
  for i in [0:4] do
    for k in [0:8] do
      out := out ++ [(st[i]! >>> (UInt64.ofNat (8 * k))).toUInt8]
  return out

end Layer.Keccak
