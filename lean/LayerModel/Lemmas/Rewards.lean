import LayerModel.Chain.Rewards

namespace Layer.Dec

theorem chopRound_nonneg {d : Int} (h : 0 ≤ d) : 0 ≤ chopRound d := by
  unfold chopRound chopRoundNonneg prec half
  simp only []
  repeat' split
  all_goals omega

/-- `x ≤ y·10^18 → round(x / 10^18) ≤ y` -/
theorem chopRound_le_of_le_mul {x y : Int} (hx : 0 ≤ x) (h : x ≤ y * prec) : chopRound x ≤ y := by
  unfold chopRound chopRoundNonneg prec half at *
  simp only []
  repeat' split
  all_goals omega

theorem chopRound_mul_prec (k : Int) : chopRound (k * prec) = k := by
  unfold chopRound chopRoundNonneg prec half
  simp only []
  repeat' split
  all_goals omega

/-- rounding error of `chopRound`: at most half a unit -/
theorem chopRound_err (d : Int) : 2 * (chopRound d * prec - d) ≤ prec ∧ 2 * (d - chopRound d * prec) ≤ prec := by
  unfold chopRound chopRoundNonneg prec half
  simp only []
  repeat' split
  all_goals omega

end Layer.Dec

namespace Layer.Rewards
open Layer Layer.Agg

def amountSum (cs : List (RepInfo × Int)) : Int := (cs.map (·.2)).sum

/-- the amounts of the payout loop telescope: together they are `reward − dist` -/
theorem payLoop_sum (total : Nat) (reward : Int) : ∀ (rs : List RepInfo) (dist : Int), rs ≠ [] →
    amountSum (payLoop total reward dist rs) = Dec.ofInt reward - dist
  | [], _, h => absurd rfl h
  | [r], dist, _ => by simp [payLoop, amountSum]; omega
  | r :: r' :: rs, dist, _ => by
    have ih := payLoop_sum total reward (r' :: rs) (dist + calculateRewardAmount r.power 1 total reward) (by simp)
    simp only [payLoop, amountSum, List.map_cons, List.sum_cons] at *
    omega

theorem shareSum_def (net total : Int) (os : List Origin) : True := trivial

/-- Σ of the pro-rata shares of a list of origins -/
def shareSum (net : Int) (total : Int) (os : List Origin) : Int :=
  (os.map (fun o => Dec.quo (Dec.mul net (Dec.ofInt o.amount)) (Dec.ofInt total))).sum

theorem divvyLoop_paid_mono (reporter : String) (commission net : Int) (total : Int) :
    ∀ (os : List Origin) (paid : Bool), paid = true → (divvyLoop reporter commission net total paid os).2 = true
  | [], _, h => by simpa [divvyLoop] using h
  | o :: os, paid, h => by
    simp only [divvyLoop]
    exact divvyLoop_paid_mono reporter commission net total os _ (by simp [h])

theorem divvyLoop_sum (reporter : String) (commission net : Int) (total : Int) :
    ∀ (os : List Origin) (paid : Bool),
      creditSum (divvyLoop reporter commission net total paid os).1 =
        shareSum net total os +
          (if !paid && (divvyLoop reporter commission net total paid os).2 then commission else 0)
  | [], paid => by cases paid <;> simp [divvyLoop, creditSum, shareSum]
  | o :: os, paid => by
    cases hown : (o.delegator == reporter && !paid) with
    | false =>
      have ih := divvyLoop_sum reporter commission net total os paid
      simp only [divvyLoop, hown, Bool.or_false, creditSum, shareSum, List.map_cons, List.sum_cons,
        Bool.false_eq_true, if_false] at *
      rw [ih]; omega
    | true =>
      have hp : paid = false := by cases paid <;> simp_all
      subst hp
      have hd : (o.delegator == reporter) = true := by simpa using hown
      have ih := divvyLoop_sum reporter commission net total os true
      have hm := divvyLoop_paid_mono reporter commission net total os true rfl
      simp only [divvyLoop, hd, creditSum, shareSum, List.map_cons, List.sum_cons, Bool.not_false, Bool.and_self,
        Bool.or_true, Bool.false_or, if_true, hm, Bool.not_true, Bool.false_and, Bool.false_eq_true, if_false] at *
      rw [ih]; omega

end Layer.Rewards

namespace Layer.Rewards
open Layer Layer.Agg

theorem share_nonneg {net amount total : Int} (hn : 0 ≤ net) (ha : 0 ≤ amount) (ht : 0 < total) :
    0 ≤ Dec.quo (Dec.mul net (Dec.ofInt amount)) (Dec.ofInt total) := by
  unfold Dec.quo Dec.mul Dec.ofInt
  apply Dec.chopRound_nonneg
  apply Int.tdiv_nonneg
  · have h1 : 0 ≤ Dec.chopRound (net * (amount * Dec.prec)) :=
      Dec.chopRound_nonneg (Int.mul_nonneg hn (Int.mul_nonneg ha (by unfold Dec.prec; omega)))
    exact Int.mul_nonneg (Int.mul_nonneg h1 (by unfold Dec.prec; omega)) (by unfold Dec.prec; omega)
  · exact Int.le_of_lt (Int.mul_pos ht (by unfold Dec.prec; omega))

theorem divvyLoop_nonneg (reporter : String) {commission net total : Int}
    (hc : 0 ≤ commission) (hn : 0 ≤ net) (ht : 0 < total) :
    ∀ (os : List Origin) (paid : Bool), (∀ o ∈ os, 0 ≤ o.amount) →
      ∀ c ∈ (divvyLoop reporter commission net total paid os).1, 0 ≤ c.2
  | [], _, _, c, h => by simp [divvyLoop] at h
  | o :: os, paid, ha, c, h => by
    simp only [divvyLoop, List.mem_cons] at h
    have hs := share_nonneg hn (ha o (by simp)) ht
    rcases h with rfl | h
    · simp only []; split <;> omega
    · exact divvyLoop_nonneg reporter hc hn ht os _ (fun x hx => ha x (by simp [hx])) c h

theorem collectOne_ne_nil (qid : String) (acc : List RepInfo × Nat) (r : AggReporter) :
    (collectOne qid acc r).1 ≠ [] := by
  unfold collectOne
  obtain ⟨m, tot⟩ := acc
  simp only []
  split
  · rename_i h
    intro hnil
    have : m = [] := by simpa using hnil
    subst this; simp at h
  · simp

theorem fold_collectOne_ne_nil (qid : String) : ∀ (rs : List AggReporter) (acc : List RepInfo × Nat),
    (rs ≠ [] ∨ acc.1 ≠ []) → (rs.foldl (collectOne qid) acc).1 ≠ []
  | [], acc, h => by simpa using h
  | r :: rs, acc, _ => by
    simp only [List.foldl_cons]
    exact fold_collectOne_ne_nil qid rs _ (Or.inr (collectOne_ne_nil qid acc r))

theorem collect_ne_nil : ∀ (aggs : List (String × List AggReporter)) (acc : List RepInfo × Nat),
    ((∃ a ∈ aggs, a.2 ≠ []) ∨ acc.1 ≠ []) →
    (aggs.foldl (fun acc a => a.2.foldl (collectOne a.1) acc) acc).1 ≠ []
  | [], acc, h => by
    rcases h with ⟨a, ha, _⟩ | h
    · simp at ha
    · simpa using h
  | a :: as, acc, h => by
    simp only [List.foldl_cons]
    apply collect_ne_nil as
    by_cases hne : a.2 ≠ []
    · exact Or.inr (fold_collectOne_ne_nil a.1 a.2 acc (Or.inl hne))
    · have hnil : a.2 = [] := by simpa using hne
      rcases h with ⟨b, hb, hb2⟩ | h
      · rcases List.mem_cons.mp hb with rfl | hb'
        · exact absurd hnil hb2
        · exact Or.inl ⟨b, hb', hb2⟩
      · right; simpa [hnil] using h

end Layer.Rewards
