import Mathlib.Tactic.Ring
import Mathlib.Tactic.Linarith
import Mathlib.Tactic.Positivity
import LayerModel.Chain.FeeStake

/-! Helper lemmas for the fee-from-stake model (`Layer.FeeStake`): truncation, the inner loop, and the arithmetic behind the bounds on
what a fee paid from stake moves. -/
namespace Layer.FeeStake
open Layer

theorem trunc_sub_ofInt (x n : Int) (hn : 0 ≤ n) (hx : Dec.ofInt n ≤ x) :
    Dec.truncateInt (x - Dec.ofInt n) = Dec.truncateInt x - n := by
  unfold Dec.truncateInt Dec.ofInt Dec.prec at *
  rw [Int.tdiv_eq_ediv_of_nonneg (by omega), Int.tdiv_eq_ediv_of_nonneg (by omega)]
  omega

theorem trunc_ofInt (n : Int) : Dec.truncateInt (Dec.ofInt n) = n := by
  unfold Dec.truncateInt Dec.ofInt Dec.prec
  exact Int.mul_tdiv_cancel n (by decide)

theorem trunc_nonneg (x : Int) (hx : 0 ≤ x) : 0 ≤ Dec.truncateInt x := by
  unfold Dec.truncateInt Dec.prec
  rw [Int.tdiv_eq_ediv_of_nonneg hx]; omega

theorem trunc_le_of_le_ofInt (x n : Int) (hx : 0 ≤ x) (h : x ≤ Dec.ofInt n) : Dec.truncateInt x ≤ n := by
  unfold Dec.truncateInt Dec.ofInt Dec.prec at *
  rw [Int.tdiv_eq_ediv_of_nonneg hx]; omega

theorem chopRound_nonneg (d : Int) (h : 0 ≤ d) : 0 ≤ Dec.chopRound d := by
  unfold Dec.chopRound Dec.chopRoundNonneg Dec.prec Dec.half
  have : ¬ d < 0 := by omega
  simp only [this, if_false]
  split
  · omega
  · split
    · omega
    · split
      · omega
      · split <;> omega

theorem share_nonneg (selTok total fee : Int) (h1 : 0 ≤ selTok) (h2 : 0 ≤ total) (h3 : 0 ≤ fee) : 0 ≤ share selTok total fee := by
  unfold share Dec.mul Dec.quo
  apply chopRound_nonneg
  apply Int.mul_nonneg
  · apply chopRound_nonneg
    apply Int.tdiv_nonneg
    · unfold Dec.ofInt Dec.prec; apply Int.mul_nonneg; apply Int.mul_nonneg; all_goals omega
    · unfold Dec.ofInt Dec.prec; omega
  · unfold Dec.ofInt Dec.prec; omega

/-- every record entry states exactly what was unbonded at that delegation -/
theorem takeFrom_recorded (who : String) (ds : List Deleg) (rest : Int) :
    ∀ o ∈ takeFrom who ds rest, o.recorded = o.taken := by
  induction ds generalizing rest with
  | nil => simp [takeFrom]
  | cons d ds ih =>
    intro o ho
    simp only [takeFrom] at ho
    split at ho
    · simp at ho; subst ho; rfl
    · simp only [List.mem_cons] at ho
      rcases ho with rfl | ho
      · rfl
      · split at ho
        · simp at ho
        · exact ih _ o ho

/-- nothing is taken from a delegation beyond what it holds, and never a negative amount -/
theorem takeFrom_within (who : String) (ds : List Deleg) (rest : Int) (hr : 0 ≤ rest) (hd : ∀ d ∈ ds, 0 ≤ d.tokens) :
    ∀ o ∈ takeFrom who ds rest, 0 ≤ o.taken ∧ o.del = who ∧ ∃ d ∈ ds, d.val = o.val ∧ o.taken ≤ d.tokens := by
  induction ds generalizing rest with
  | nil => simp [takeFrom]
  | cons d ds ih =>
    intro o ho
    simp only [takeFrom] at ho
    split at ho
    · rename_i hge
      simp at ho; subst ho
      exact ⟨trunc_nonneg _ hr, rfl, d, by simp, rfl, trunc_le_of_le_ofInt _ _ hr hge⟩
    · rename_i hlt
      simp only [List.mem_cons] at ho
      rcases ho with rfl | ho
      · exact ⟨hd d (by simp), rfl, d, by simp, rfl, Int.le_refl _⟩
      · split at ho
        · simp at ho
        · obtain ⟨a, b, d', hd', c⟩ := ih (rest - Dec.ofInt d.tokens) (by omega) (fun x hx => hd x (by simp [hx])) o ho
          exact ⟨a, b, d', by simp [hd'], c⟩

theorem tokens_sum_nonneg (ds : List Deleg) (h : ∀ d ∈ ds, 0 ≤ d.tokens) : 0 ≤ (ds.map (·.tokens)).sum := by
  induction ds with
  | nil => simp
  | cons d ds ih =>
    have := h d (by simp); have := ih (fun x hx => h x (by simp [hx]))
    simp only [List.map_cons, List.sum_cons]; omega

/-- what one selector gives: its share cut to whole loya when its delegations cover the share, everything it has otherwise -/
theorem takeFrom_sum (who : String) (ds : List Deleg) (rest : Int) (hr : 0 ≤ rest) (hd : ∀ d ∈ ds, 0 ≤ d.tokens) :
    moved (takeFrom who ds rest) =
      if rest ≤ Dec.ofInt ((ds.map (·.tokens)).sum) then Dec.truncateInt rest else (ds.map (·.tokens)).sum := by
  induction ds generalizing rest with
  | nil =>
    simp only [takeFrom, moved, List.map_nil, List.sum_nil]
    split
    · rename_i h
      have : rest = 0 := by unfold Dec.ofInt at h; omega
      subst this; simp [Dec.truncateInt]
    · rfl
  | cons d ds ih =>
    have hd0 : 0 ≤ d.tokens := hd d (by simp)
    have hds : ∀ x ∈ ds, 0 ≤ x.tokens := fun x hx => hd x (by simp [hx])
    have hsum : 0 ≤ (ds.map (·.tokens)).sum := tokens_sum_nonneg ds hds
    simp only [takeFrom]
    split
    · rename_i hge
      have : rest ≤ Dec.ofInt ((List.map (·.tokens) (d :: ds)).sum) := by
        simp only [List.map_cons, List.sum_cons]; unfold Dec.ofInt Dec.prec at *; omega
      rw [if_pos this]; simp [moved]
    · rename_i hlt
      have hlt' : Dec.ofInt d.tokens < rest := by omega
      split
      · rename_i h0; omega
      · have ih' := ih (rest - Dec.ofInt d.tokens) (by omega) hds
        simp only [moved, List.map_cons, List.sum_cons] at ih' ⊢
        rw [ih']
        have e : Dec.ofInt (d.tokens + (ds.map (·.tokens)).sum) = Dec.ofInt d.tokens + Dec.ofInt ((ds.map (·.tokens)).sum) := by
          unfold Dec.ofInt; rw [Int.add_mul]
        rw [e]
        by_cases hc : rest - Dec.ofInt d.tokens ≤ Dec.ofInt ((ds.map (·.tokens)).sum)
        · have hc' : rest ≤ Dec.ofInt d.tokens + Dec.ofInt ((ds.map (·.tokens)).sum) := by omega
          rw [if_pos hc, if_pos hc', trunc_sub_ofInt _ _ hd0 (by omega)]; omega
        · have hc' : ¬ rest ≤ Dec.ofInt d.tokens + Dec.ofInt ((ds.map (·.tokens)).sum) := by omega
          rw [if_neg hc, if_neg hc']

/-! ### rounding bounds -/

theorem core_lower (P T t f A r s m : Int) (hP : 0 < P) (hT : 0 < T) (_ht : 0 ≤ t) (hf0 : 0 ≤ f) (hfP : f < P)
    (hA2 : t * P * P < (A + 1) * T) (hr1 : 2 * A ≤ 2 * r * P + P) (hs : s = r * f) (hm : s < m * P + P) :
    t * f - 2 * T < m * T := by
  subst hs
  -- 2 m P² T ≥ 2 r f P T − 2P²T + 2PT
  have e1 : 2 * (r * f) * P * T + 2 * P * T ≤ 2 * m * P * P * T + 2 * P * P * T := by
    have : r * f + 1 ≤ m * P + P := by omega
    have h2 : 0 ≤ 2 * P * T := by positivity
    nlinarith [mul_le_mul_of_nonneg_right this h2]
  have e2 : 2 * A * (f * T) ≤ (2 * r * P + P) * (f * T) := by
    have : 0 ≤ f * T := by positivity
    exact mul_le_mul_of_nonneg_right hr1 this
  have e3 : (t * P * P + 1) * (2 * f) ≤ (A + 1) * T * (2 * f) := by
    have : t * P * P + 1 ≤ (A + 1) * T := by omega
    have h2 : 0 ≤ 2 * f := by positivity
    exact mul_le_mul_of_nonneg_right this h2
  have e4 : 2 * f * T + P * f * T < 2 * T * P * P + 2 * P * T := by
    have h1 : f + 1 ≤ P := by omega
    have : (f + 1) * (T * (P + 2)) ≤ P * (T * (P + 2)) := mul_le_mul_of_nonneg_right h1 (by positivity)
    nlinarith [mul_pos hT hP]
  have key : 2 * P * P * (t * f - 2 * T) < 2 * P * P * (m * T) := by nlinarith
  have hpp : 0 < 2 * P * P := by positivity
  exact lt_of_mul_lt_mul_left key (le_of_lt hpp)

theorem core_upper (P T t f A r s m : Int) (hP : 0 < P) (hT : 0 < T) (_ht : 0 ≤ t) (hf0 : 0 ≤ f) (hfP : f < P)
    (hA1 : A * T ≤ t * P * P) (hr2 : 2 * r * P ≤ 2 * A + P) (hs : s = r * f) (hm : m * P ≤ s) :
    m * T < t * f + T := by
  subst hs
  have e1 : 2 * m * P * P * T ≤ 2 * (r * f) * P * T := by
    have h2 : 0 ≤ 2 * P * T := by positivity
    nlinarith [mul_le_mul_of_nonneg_right hm h2]
  have e2 : (2 * r * P) * (f * T) ≤ (2 * A + P) * (f * T) := mul_le_mul_of_nonneg_right hr2 (by positivity)
  have e3 : A * T * (2 * f) ≤ t * P * P * (2 * f) := mul_le_mul_of_nonneg_right hA1 (by positivity)
  have e4 : P * f * T < 2 * P * P * T := by
    have : f * (P * T) < (2 * P) * (P * T) := by
      apply mul_lt_mul_of_pos_right (by omega) (by positivity)
    nlinarith
  have key : 2 * P * P * (m * T) < 2 * P * P * (t * f + T) := by nlinarith
  exact lt_of_mul_lt_mul_left key (le_of_lt (by positivity))

/-- the share exceeds what the selector holds (only through rounding): it gives everything, which is still within the bounds -/
theorem core_all (P T t f A r : Int) (hP : 0 < P) (hT : 0 < T) (ht : 0 ≤ t) (hf0 : 0 ≤ f) (hfP : f < P) (hfT : f ≤ T)
    (hA1 : A * T ≤ t * P * P) (hr2 : 2 * r * P ≤ 2 * A + P) (hover : t * P < r * f) :
    t * f - 2 * T < t * T ∧ t * T < t * f + T := by
  constructor
  · have : t * f ≤ t * T := mul_le_mul_of_nonneg_left hfT ht
    omega
  · have e1 : (t * P + 1) * (2 * P * T) ≤ (r * f) * (2 * P * T) := mul_le_mul_of_nonneg_right (by omega) (by positivity)
    have e2 : (2 * r * P) * (f * T) ≤ (2 * A + P) * (f * T) := mul_le_mul_of_nonneg_right hr2 (by positivity)
    have e3 : A * T * (2 * f) ≤ t * P * P * (2 * f) := mul_le_mul_of_nonneg_right hA1 (by positivity)
    have e4 : P * f * T < P * P * T := by
      have : f * (P * T) < P * (P * T) := mul_lt_mul_of_pos_right hfP (by positivity)
      nlinarith
    have key : 2 * P * P * (t * T) < 2 * P * P * (t * f + T) := by nlinarith [mul_pos hP hT]
    exact lt_of_mul_lt_mul_left key (le_of_lt (by positivity))


/-! ### from the `LegacyDec` operations to the arithmetic facts -/

theorem chopRound_bounds (d : Int) (hd : 0 ≤ d) :
    2 * Dec.chopRound d * Dec.prec ≤ 2 * d + Dec.prec ∧ 2 * d ≤ 2 * Dec.chopRound d * Dec.prec + Dec.prec := by
  unfold Dec.chopRound Dec.chopRoundNonneg Dec.prec Dec.half
  have : ¬ d < 0 := by omega
  simp only [this, if_false]
  split
  · omega
  · split
    · omega
    · split
      · omega
      · split <;> omega

theorem chopRound_mul_prec (k : Int) (hk : 0 ≤ k) : Dec.chopRound (k * Dec.prec) = k := by
  unfold Dec.chopRound Dec.chopRoundNonneg Dec.prec Dec.half
  have : ¬ k * 1000000000000000000 < 0 := by omega
  simp only [this, if_false]
  have h1 : k * 1000000000000000000 % 1000000000000000000 = 0 := by omega
  have h2 : k * 1000000000000000000 / 1000000000000000000 = k := by omega
  simp [h1, h2]

/-- the rounded quotient `selTokens / total` -/
def ratio (t T : Int) : Int := Dec.quo (Dec.ofInt t) (Dec.ofInt T)

theorem ratio_nonneg (t T : Int) (ht : 0 ≤ t) (hT : 0 ≤ T) : 0 ≤ ratio t T := by
  unfold ratio Dec.quo
  apply chopRound_nonneg
  apply Int.tdiv_nonneg
  · unfold Dec.ofInt Dec.prec; apply Int.mul_nonneg; apply Int.mul_nonneg; all_goals omega
  · unfold Dec.ofInt Dec.prec; omega

/-- multiplying a `LegacyDec` by a whole number is exact -/
theorem share_eq (t T f : Int) (ht : 0 ≤ t) (hT : 0 ≤ T) (hf : 0 ≤ f) : share t T f = ratio t T * f := by
  unfold share Dec.mul
  have e : Dec.quo (Dec.ofInt t) (Dec.ofInt T) * Dec.ofInt f = (ratio t T * f) * Dec.prec := by
    unfold ratio Dec.ofInt; ring
  rw [e, chopRound_mul_prec _ (Int.mul_nonneg (ratio_nonneg t T ht hT) hf)]

/-- the rounded quotient against the exact one: with `A = ⌊t·P²/T⌋`, `|2·ratio·P − 2A| ≤ P` -/
theorem ratio_bounds (t T : Int) (ht : 0 ≤ t) (hT : 0 < T) :
    ∃ A : Int, A * T ≤ t * Dec.prec * Dec.prec ∧ t * Dec.prec * Dec.prec < (A + 1) * T ∧
      2 * ratio t T * Dec.prec ≤ 2 * A + Dec.prec ∧ 2 * A ≤ 2 * ratio t T * Dec.prec + Dec.prec := by
  have hP : (0 : Int) < Dec.prec := by unfold Dec.prec; omega
  refine ⟨(t * Dec.prec * Dec.prec) / T, Int.ediv_mul_le _ (by omega), Int.lt_ediv_add_one_mul_self _ hT, ?_⟩
  have hnum : 0 ≤ Dec.ofInt t * Dec.prec * Dec.prec := by
    unfold Dec.ofInt; apply Int.mul_nonneg; apply Int.mul_nonneg; apply Int.mul_nonneg; all_goals omega
  have hq : Int.tdiv (Dec.ofInt t * Dec.prec * Dec.prec) (Dec.ofInt T) = (t * Dec.prec * Dec.prec) / T := by
    rw [Int.tdiv_eq_ediv_of_nonneg hnum]
    unfold Dec.ofInt
    have : t * Dec.prec * Dec.prec * Dec.prec = (t * Dec.prec * Dec.prec) * Dec.prec := by ring
    rw [this, Int.mul_ediv_mul_of_pos_left _ _ hP]
  have hA : 0 ≤ (t * Dec.prec * Dec.prec) / T := Int.ediv_nonneg (by apply Int.mul_nonneg; apply Int.mul_nonneg; all_goals omega) (by omega)
  have := chopRound_bounds _ hA
  unfold ratio Dec.quo
  rw [hq]
  exact this

/-- what one selector gives, against its exact proportional part `t·f/T`: less than two loya below, less than one above -/
theorem sel_bounds (t T f : Int) (ht : 0 ≤ t) (hT : 0 < T) (hf : 0 ≤ f) (hfP : f < Dec.prec) (hfT : f ≤ T) :
    let m := if share t T f ≤ Dec.ofInt t then Dec.truncateInt (share t T f) else t
    t * f - 2 * T < m * T ∧ m * T < t * f + T := by
  have hP : (0 : Int) < Dec.prec := by unfold Dec.prec; omega
  obtain ⟨A, hA1, hA2, hr2, hr1⟩ := ratio_bounds t T ht hT
  have hs := share_eq t T f ht (by omega) hf
  have hs0 : 0 ≤ share t T f := share_nonneg t T f ht (by omega) hf
  intro m
  by_cases hc : share t T f ≤ Dec.ofInt t
  · have hm : m = Dec.truncateInt (share t T f) := by simp [m, hc]
    have tb : m * Dec.prec ≤ share t T f ∧ share t T f < m * Dec.prec + Dec.prec := by
      rw [hm]; unfold Dec.truncateInt
      rw [Int.tdiv_eq_ediv_of_nonneg hs0]
      constructor
      · exact Int.ediv_mul_le _ (by omega)
      · have := Int.lt_ediv_add_one_mul_self (share t T f) hP
        rw [Int.add_mul] at this; omega
    exact ⟨core_lower Dec.prec T t f A (ratio t T) _ m hP hT ht hf hfP hA2 hr1 hs tb.2,
           core_upper Dec.prec T t f A (ratio t T) _ m hP hT ht hf hfP hA1 hr2 hs tb.1⟩
  · have hm : m = t := by simp [m, hc]
    rw [hm]
    have hover : t * Dec.prec < ratio t T * f := by rw [← hs]; unfold Dec.ofInt at hc; omega
    exact core_all Dec.prec T t f A (ratio t T) hP hT ht hf hfP hfT hA1 hr2 hover

theorem moved_flatMap (l : List Selector) (g : Selector → List Origin) :
    moved (l.flatMap g) = (l.map (fun s => moved (g s))).sum := by
  induction l with
  | nil => simp [moved]
  | cons x xs ih =>
    simp only [List.flatMap_cons, List.map_cons, List.sum_cons]
    rw [← ih]
    simp [moved, List.sum_append]

theorem selTokens_le_total (l : List Selector) (h : ∀ s ∈ l, ∀ d ∈ s.dels, 0 ≤ d.tokens) :
    0 ≤ totalTokens l ∧ ∀ s ∈ l, selTokens s ≤ totalTokens l := by
  induction l with
  | nil => simp [totalTokens]
  | cons x xs ih =>
    obtain ⟨h0, hle⟩ := ih (fun s hs => h s (by simp [hs]))
    have hx : 0 ≤ selTokens x := tokens_sum_nonneg _ (h x (by simp))
    have e : totalTokens (x :: xs) = selTokens x + totalTokens xs := by simp [totalTokens]
    refine ⟨by omega, ?_⟩
    intro s hs
    rcases List.mem_cons.mp hs with rfl | hs
    · omega
    · have := hle s hs; omega

/-- summing the per-selector bounds -/
theorem sum_bounds (T f : Int) (l : List Selector) (g : Selector → Int)
    (h : ∀ s ∈ l, selTokens s * f - 2 * T < g s * T ∧ g s * T < selTokens s * f + T) :
    totalTokens l * f - 2 * T * l.length + l.length ≤ (l.map g).sum * T ∧
    (l.map g).sum * T + l.length ≤ totalTokens l * f + T * l.length := by
  induction l with
  | nil => simp [totalTokens]
  | cons x xs ih =>
    obtain ⟨a, b⟩ := ih (fun s hs => h s (by simp [hs]))
    obtain ⟨c, d⟩ := h x (by simp)
    have e : totalTokens (x :: xs) = selTokens x + totalTokens xs := by simp [totalTokens]
    simp only [List.map_cons, List.sum_cons, List.length_cons, e]
    push_cast
    constructor <;> nlinarith

end Layer.FeeStake
