import LayerModel.Base.Abi

namespace Layer.Abi
open Layer Layer.Bytes

/-- the library packer on two static words is plain concatenation -/
theorem enc_two_words (a b : Bytes) : enc [.word a, .word b] = a ++ b := by
  simp [enc, heads, tailOf]

/-- look up a row of a generated table by its first `k` columns -/
def lookup (tbl : List (List String)) (key : List String) : Option String :=
  (tbl.find? (fun r => r.take key.length == key)).bind (fun r => r[key.length]?)

end Layer.Abi
