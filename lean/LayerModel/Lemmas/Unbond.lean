import Mathlib.Tactic.Ring
import Mathlib.Tactic.Linarith
import Mathlib.Tactic.Positivity
import LayerModel.Chain.Unbond
import LayerModel.Lemmas.FeeStake

/-! Helper lemmas for `Layer.Unbond`: monotonicity of the `LegacyDec` rounding and the two-sided estimate of what `Unbond` hands out. -/
namespace Layer.Unbond
open Layer Layer.FeeStake

theorem chopRound_mono (a b : Int) (ha : 0 ≤ a) (h : a ≤ b) : Dec.chopRound a ≤ Dec.chopRound b := by
  unfold Dec.chopRound Dec.chopRoundNonneg Dec.prec Dec.half
  have h1 : ¬ a < 0 := by omega
  have h2 : ¬ b < 0 := by omega
  simp only [h1, h2, if_false]
  split <;> split <;> (try split) <;> (try split) <;> (try split) <;> (try split) <;> (try split) <;> (try split) <;> omega

/-- what `Unbond` hands out for `s ≥ 0` shares, written with floor division -/
theorem unbondTokens_eq (v : Val) (s : Int) (hs : 0 ≤ s) (hT : 0 ≤ v.tokens) (hS : 0 < v.shares) :
    unbondTokens v s = Dec.chopRound ((s * v.tokens * Dec.prec * Dec.prec) / v.shares) / Dec.prec := by
  have hP : (0 : Int) < Dec.prec := by unfold Dec.prec; omega
  have hx : 0 ≤ s * v.tokens * Dec.prec * Dec.prec := by positivity
  unfold unbondTokens tokensFromShares Dec.quo Dec.truncateInt
  rw [Int.tdiv_eq_ediv_of_nonneg hx]
  rw [Int.tdiv_eq_ediv_of_nonneg (chopRound_nonneg _ (Int.ediv_nonneg hx (by omega)))]

/-- shares worth at most `a` tokens give at most `a` -/
theorem unbond_le (v : Val) (s a : Int) (hs : 0 ≤ s) (hT : 0 ≤ v.tokens) (hS : 0 < v.shares) (ha : 0 ≤ a)
    (h : s * v.tokens ≤ v.shares * a) : unbondTokens v s ≤ a := by
  have hP : (0 : Int) < Dec.prec := by unfold Dec.prec; omega
  rw [unbondTokens_eq v s hs hT hS]
  have hx : 0 ≤ s * v.tokens * Dec.prec * Dec.prec := by positivity
  have h1 : (s * v.tokens * Dec.prec * Dec.prec) / v.shares ≤ a * Dec.prec * Dec.prec := by
    apply Int.ediv_le_of_le_mul hS
    nlinarith [mul_le_mul_of_nonneg_right h (show (0:Int) ≤ Dec.prec * Dec.prec by positivity)]
  have h2 := chopRound_mono _ _ (Int.ediv_nonneg hx (by omega)) h1
  have h3 : Dec.chopRound (a * Dec.prec * Dec.prec) = a * Dec.prec := by
    have : a * Dec.prec * Dec.prec = (a * Dec.prec) * Dec.prec := by ring
    rw [this, chopRound_mul_prec _ (by positivity)]
  rw [h3] at h2
  exact Int.ediv_le_of_le_mul hP h2

/-- shares worth at least `a` tokens give at least `a` -/
theorem unbond_ge (v : Val) (s a : Int) (hs : 0 ≤ s) (hT : 0 ≤ v.tokens) (hS : 0 < v.shares) (ha : 0 ≤ a)
    (h : v.shares * a ≤ s * v.tokens) : a ≤ unbondTokens v s := by
  have hP : (0 : Int) < Dec.prec := by unfold Dec.prec; omega
  rw [unbondTokens_eq v s hs hT hS]
  have h1 : a * Dec.prec * Dec.prec ≤ (s * v.tokens * Dec.prec * Dec.prec) / v.shares := by
    apply Int.le_ediv_of_mul_le hS
    nlinarith [mul_le_mul_of_nonneg_right h (show (0:Int) ≤ Dec.prec * Dec.prec by positivity)]
  have h2 := chopRound_mono _ _ (by positivity) h1
  have h3 : Dec.chopRound (a * Dec.prec * Dec.prec) = a * Dec.prec := by
    have : a * Dec.prec * Dec.prec = (a * Dec.prec) * Dec.prec := by ring
    rw [this, chopRound_mul_prec _ (by positivity)]
  rw [h3] at h2
  exact Int.le_ediv_of_mul_le hP h2

/-- shares worth less than `a` tokens plus half a share-unit's precision give at most `a` (the bumped case) -/
theorem unbond_le_bumped (v : Val) (s a : Int) (hs : 0 ≤ s) (hT : 0 ≤ v.tokens) (hS : 0 < v.shares) (ha : 0 ≤ a)
    (h2T : 2 * v.tokens ≤ v.shares) (h : s * v.tokens ≤ v.shares * a + v.tokens) : unbondTokens v s ≤ a := by
  have hP : (0 : Int) < Dec.prec := by unfold Dec.prec; omega
  rw [unbondTokens_eq v s hs hT hS]
  have hx : 0 ≤ s * v.tokens * Dec.prec * Dec.prec := by positivity
  -- 2·y ≤ (2·a·P + P)·P
  have h1 : (s * v.tokens * Dec.prec * Dec.prec) / v.shares ≤ (a * Dec.prec + Dec.half) * Dec.prec := by
    apply Int.ediv_le_of_le_mul hS
    have hh : Dec.prec = 2 * Dec.half := by unfold Dec.half Dec.prec; omega
    have e1 := mul_le_mul_of_nonneg_right h (show (0:Int) ≤ Dec.prec * Dec.prec by positivity)
    have e2 := mul_le_mul_of_nonneg_right h2T (show (0:Int) ≤ Dec.half * Dec.prec by unfold Dec.half Dec.prec; omega)
    have e3 : v.tokens * (Dec.prec * Dec.prec) = 2 * v.tokens * (Dec.half * Dec.prec) := by
      conv_lhs => rw [hh]
      conv_rhs => rw [hh]
      ring
    have e4 : (a * Dec.prec + Dec.half) * Dec.prec * v.shares = v.shares * a * (Dec.prec * Dec.prec) + v.shares * (Dec.half * Dec.prec) := by ring
    have e5 : s * v.tokens * Dec.prec * Dec.prec = s * v.tokens * (Dec.prec * Dec.prec) := by ring
    have e6 : (v.shares * a + v.tokens) * (Dec.prec * Dec.prec) = v.shares * a * (Dec.prec * Dec.prec) + v.tokens * (Dec.prec * Dec.prec) := by ring
    rw [e4, e5]
    linarith
  have h2 := chopRound_mono _ _ (Int.ediv_nonneg hx (by omega)) h1
  have h3 : Dec.chopRound ((a * Dec.prec + Dec.half) * Dec.prec) = a * Dec.prec + Dec.half := by
    rw [chopRound_mul_prec _ (by unfold Dec.half; positivity)]
  rw [h3] at h2
  have hlt : Dec.chopRound ((s * v.tokens * Dec.prec * Dec.prec) / v.shares) < (a + 1) * Dec.prec := by
    have : Dec.half < Dec.prec := by unfold Dec.half Dec.prec; omega
    have : (a + 1) * Dec.prec = a * Dec.prec + Dec.prec := by ring
    omega
  have := Int.ediv_lt_of_lt_mul hP hlt
  omega

end Layer.Unbond
