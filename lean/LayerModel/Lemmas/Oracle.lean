import LayerModel.Chain.Oracle

namespace Layer.Oracle
open Layer

theorem setReport_key_unique (rs : List Rep) (r : Rep) :
    ((setReport rs r).filter (fun x => x.qid == r.qid && x.reporter == r.reporter && x.metaId == r.metaId)) = [r] := by
  unfold setReport
  rw [List.filter_append, List.filter_filter]
  have h1 : (rs.filter (fun x => (x.qid == r.qid && x.reporter == r.reporter && x.metaId == r.metaId) &&
      !(x.qid == r.qid && x.reporter == r.reporter && x.metaId == r.metaId))) = [] := by
    apply List.filter_eq_nil_iff.mpr
    intro x _; simp
  rw [h1]
  simp

theorem setReport_others (rs : List Rep) (r x : Rep)
    (hk : (x.qid == r.qid && x.reporter == r.reporter && x.metaId == r.metaId) = false) :
    x ∈ setReport rs r ↔ x ∈ rs := by
  unfold setReport
  simp only [List.mem_append, List.mem_filter, List.mem_singleton]
  constructor
  · rintro (⟨h, _⟩ | rfl)
    · exact h
    · simp at hk
  · intro h; left; exact ⟨h, by simp [hk]⟩

/-- fresh key: `setAgg` appends -/
theorem setAgg_fresh (as : List Agg) (a : Agg) (h : ∀ x ∈ as, ¬ (x.qid = a.qid ∧ x.ts = a.ts)) :
    setAgg as a = as ++ [a] := by
  unfold setAgg
  have : as.any (fun x => x.qid == a.qid && x.ts == a.ts) = false := by
    apply List.any_eq_false.mpr
    intro x hx
    have hn := h x hx
    intro hc
    simp only [Bool.and_eq_true, beq_iff_eq] at hc
    exact hn hc
  simp [this]

theorem hist_append (s : S) (a : Agg) (qid : String) :
    (s.aggs ++ [a]).filter (·.qid == qid) = hist s qid ++ (if a.qid == qid then [a] else []) := by
  unfold hist
  rw [List.filter_append]
  by_cases h : a.qid == qid <;> simp [h]

end Layer.Oracle

namespace Layer.Oracle

/-- in a list whose timestamps strictly increase, the last element has the greatest timestamp -/
theorem getLast_max : ∀ (l : List Agg), l.Pairwise (fun a b => a.ts < b.ts) → ∀ a, l.getLast? = some a →
    ∀ b ∈ l, b.ts ≤ a.ts
  | [], _, a, h, _, _ => by simp at h
  | [x], _, a, h, b, hb => by
    simp at h hb; subst h; subst hb; exact Nat.le_refl _
  | x :: y :: rest, hp, a, h, b, hb => by
    have hp' := (List.pairwise_cons.mp hp)
    have hlast : (y :: rest).getLast? = some a := by simpa [List.getLast?_cons_cons] using h
    rcases List.mem_cons.mp hb with rfl | hb'
    · have hmem : a ∈ y :: rest := List.mem_of_getLast? hlast
      exact Nat.le_of_lt (hp'.1 a hmem)
    · exact getLast_max (y :: rest) hp'.2 a hlast b hb'

theorem head_min : ∀ (l : List Agg), l.Pairwise (fun a b => a.ts < b.ts) → ∀ a, l.head? = some a →
    ∀ b ∈ l, a.ts ≤ b.ts
  | [], _, a, h, _, _ => by simp at h
  | x :: rest, hp, a, h, b, hb => by
    simp at h; subst h
    rcases List.mem_cons.mp hb with rfl | hb'
    · exact Nat.le_refl _
    · exact Nat.le_of_lt ((List.pairwise_cons.mp hp).1 b hb')

theorem nonceOf_setNonce (ns : List (String × Nat)) (qid : String) (n : Nat) : nonceOf (setNonce ns qid n) qid = n := by
  unfold nonceOf setNonce
  rw [List.find?_append]
  have : (ns.filter (fun x => !(x.1 == qid))).find? (fun x => x.1 == qid) = none := by
    apply List.find?_eq_none.mpr
    intro x hx
    have := (List.mem_filter.mp hx).2
    simpa using this
  simp [this]

def TsSorted (s : S) : Prop := ∀ qid, (hist s qid).Pairwise (fun a b => a.ts < b.ts)

end Layer.Oracle
