import Mathlib.Tactic.Ring
import Mathlib.Tactic.Linarith
import LayerModel.Lemmas.Rewards

/-! Rounding bounds of the LegacyDec model (proof module: uses Mathlib's `nlinarith`). -/
namespace Layer.Dec

theorem prec_pos : 0 < prec := by unfold prec; omega

/-- `x.Quo(T)` for a raw non-negative `x` and a positive integer `T`: the result `r` satisfies
`|r·T − x| ≤ T` (in fact `−T < r·T − x ≤ T/2`). -/
theorem quo_int_bound (x T : Int) (hx : 0 ≤ x) (hT : 0 < T) :
    2 * (quo x (ofInt T) * T - x) ≤ T ∧ x - quo x (ofInt T) * T < T := by
  unfold quo ofInt
  have hP := prec_pos
  have hnum : 0 ≤ x * prec * prec := Int.mul_nonneg (Int.mul_nonneg hx (Int.le_of_lt hP)) (Int.le_of_lt hP)
  have hden : 0 < T * prec := Int.mul_pos hT hP
  rw [Int.tdiv_eq_ediv_of_nonneg hnum]
  have hcancel : x * prec * prec / (T * prec) = x * prec / T := Int.mul_ediv_mul_of_pos_left _ _ hP
  rw [hcancel]
  have hq1 : x * prec / T * T ≤ x * prec := Int.ediv_mul_le _ (Int.ne_of_gt hT)
  have hq2 : x * prec < x * prec / T * T + T := by
    have h := Int.lt_ediv_add_one_mul_self (x * prec) hT
    nlinarith [h]
  obtain ⟨h1, h2⟩ := chopRound_err (x * prec / T)
  generalize hq : x * prec / T = q at *
  generalize hr : chopRound q = r at *
  have hPv : prec = 1000000000000000000 := rfl
  rw [hPv] at h1 h2 hq1 hq2
  constructor
  · nlinarith [mul_le_mul_of_nonneg_right h1 (le_of_lt hT)]
  · nlinarith [mul_le_mul_of_nonneg_right h2 (le_of_lt hT)]

end Layer.Dec

namespace Layer.Rewards
open Layer

def amtSum (os : List Origin) : Int := (os.map (·.amount)).sum

/-- the pro-rata shares of a list of origins against a fixed recorded total `T`:
`T·Σshare_i` is within `n·T` of `net·Σamount_i` -/
theorem shareSum_bound (net T : Int) (hn : 0 ≤ net) (hT : 0 < T) :
    ∀ (os : List Origin), (∀ o ∈ os, 0 ≤ o.amount) →
      2 * (shareSum net T os * T - net * amtSum os) ≤ os.length * T ∧
      net * amtSum os - shareSum net T os * T ≤ os.length * T
  | [], _ => by simp [shareSum, amtSum]
  | o :: os, ha => by
    have ih := shareSum_bound net T hn hT os (fun x hx => ha x (by simp [hx]))
    have hao := ha o (by simp)
    have hmul : Dec.mul net (Dec.ofInt o.amount) = net * o.amount := by
      unfold Dec.mul Dec.ofInt
      rw [show net * (o.amount * Dec.prec) = (net * o.amount) * Dec.prec by ring]
      exact Dec.chopRound_mul_prec _
    have hb := Dec.quo_int_bound (net * o.amount) T (Int.mul_nonneg hn hao) hT
    simp only [shareSum, amtSum, List.map_cons, List.sum_cons, List.length_cons, hmul] at *
    push_cast
    constructor <;> nlinarith [ih.1, ih.2, hb.1, hb.2]

end Layer.Rewards
