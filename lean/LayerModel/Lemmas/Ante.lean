import LayerModel.Chain.Ante

namespace Layer.Ante

def hasInc : List Msg → Bool
  | [] => false
  | .inc _ :: _ => true
  | _ :: ms => hasInc ms

def hasUndel : List Msg → Bool
  | [] => false
  | .undel _ :: _ => true
  | _ :: ms => hasUndel ms

/-- every staking message carries a strictly positive amount -/
def amountsPos : List Msg → Prop
  | [] => True
  | .inc a :: ms => 0 < a ∧ amountsPos ms
  | .undel a :: ms => 0 < a ∧ amountsPos ms
  | .other :: ms => amountsPos ms

theorem sumInc_of_not_hasInc : ∀ ms, hasInc ms = false → sumInc ms = 0
  | [], _ => rfl
  | .inc _ :: _, h => by simp [hasInc] at h
  | .undel _ :: ms, h => by simpa [sumInc] using sumInc_of_not_hasInc ms (by simpa [hasInc] using h)
  | .other :: ms, h => by simpa [sumInc] using sumInc_of_not_hasInc ms (by simpa [hasInc] using h)

theorem sumUndel_of_not_hasUndel : ∀ ms, hasUndel ms = false → sumUndel ms = 0
  | [], _ => rfl
  | .undel _ :: _, h => by simp [hasUndel] at h
  | .inc _ :: ms, h => by simpa [sumUndel] using sumUndel_of_not_hasUndel ms (by simpa [hasUndel] using h)
  | .other :: ms, h => by simpa [sumUndel] using sumUndel_of_not_hasUndel ms (by simpa [hasUndel] using h)

theorem loop_bounds (base bonded : Int) :
    ∀ (ms : List Msg) (i d : Int), loop base bonded i d ms = true → amountsPos ms →
      (hasInc ms = true → bonded + i + sumInc ms ≤ upper base) ∧
      (hasUndel ms = true → bonded + d - sumUndel ms ≥ lower base)
  | [], _, _, _, _ => by simp [hasInc, hasUndel]
  | .other :: ms, i, d, h, hp => by
      have := loop_bounds base bonded ms i d (by simpa [loop, msgAmount] using h) hp
      simpa [hasInc, hasUndel, sumInc, sumUndel] using this
  | .inc a :: ms, i, d, h, hp => by
      obtain ⟨ha, hp'⟩ := hp
      have hna : ¬ a < 0 := by omega
      simp only [loop, msgAmount, hna, if_false] at h
      by_cases hc : bonded + (i + a) > upper base
      · simp [hc] at h
      · simp only [hc, if_false] at h
        have ih := loop_bounds base bonded ms (i + a) d h hp'
        refine ⟨fun _ => ?_, fun hu => ?_⟩
        · cases hi : hasInc ms with
          | true => have := ih.1 hi; simp only [sumInc]; omega
          | false => have := sumInc_of_not_hasInc ms hi; simp only [sumInc]; omega
        · have := ih.2 (by simpa [hasUndel] using hu)
          simpa [sumUndel] using this
  | .undel a :: ms, i, d, h, hp => by
      obtain ⟨ha, hp'⟩ := hp
      have hna : -a < 0 := by omega
      simp only [loop, msgAmount, hna, if_true] at h
      by_cases hc : bonded + (d + -a) < lower base
      · simp [hc] at h
      · simp only [hc, if_false] at h
        have ih := loop_bounds base bonded ms i (d + -a) h hp'
        refine ⟨fun hi => ?_, fun _ => ?_⟩
        · have := ih.1 (by simpa [hasInc] using hi)
          simpa [sumInc] using this
        · cases hu : hasUndel ms with
          | true => have := ih.2 hu; simp only [sumUndel]; omega
          | false => have := sumUndel_of_not_hasUndel ms hu; simp only [sumUndel]; omega

end Layer.Ante
