import LayerModel.Daemon.PriceCache

namespace Layer.Median

theorem tdiv2 (a : Int) : Int.tdiv a 2 = if 0 ≤ a then a / 2 else -((-a) / 2) := by
  split
  · exact Int.tdiv_eq_ediv_of_nonneg ‹_›
  · have h : a = -(-a) := by omega
    rw [h, Int.neg_tdiv, Int.tdiv_eq_ediv_of_nonneg (by omega)]; simp

theorem tmod2 (a : Int) : Int.tmod a 2 = a - 2 * Int.tdiv a 2 := by
  have := Int.tmod_add_mul_tdiv a 2; omega

/-- **uint64**: for `x ≤ y < 2^64` the even branch returns `⌈(x+y)/2⌉`; every intermediate value
stays inside the type (the wrapped computation equals the ideal one). -/
theorem midU64_spec (x y : Nat) (hxy : x ≤ y) (hy : y < 18446744073709551616) :
    midU64 x y = (x + y + 1) / 2 := by
  unfold midU64 wu
  split
  · simp only []; omega
  · split <;> omega

/-- **int64**: for `-2^63 ≤ x ≤ y < 2^63` the even branch returns the mean rounded away from zero. -/
theorem midI64_spec (x y : Int) (hxy : x ≤ y) (hx : -9223372036854775808 ≤ x) (hy : y < 9223372036854775808) :
    midI64 x y = meanAwayFromZero x y := by
  unfold midI64 meanAwayFromZero wi
  simp only [tmod2, tdiv2]
  repeat' split
  all_goals omega

end Layer.Median

namespace Layer.Median

theorem sortNat_perm (xs : List Nat) : (sortNat xs).Perm xs := List.mergeSort_perm _ _

theorem sortNat_sorted (xs : List Nat) : (sortNat xs).Pairwise (· ≤ ·) := by
  have := List.pairwise_mergeSort (le := fun a b : Nat => decide (a ≤ b))
    (by intro a b c h1 h2; simp at *; omega) (by intro a b; simp; omega) xs
  simpa [sortNat] using this

theorem sortNat_length (xs : List Nat) : (sortNat xs).length = xs.length := (sortNat_perm xs).length_eq

/-- sorting erases the input order -/
theorem sortNat_eq_of_perm {xs ys : List Nat} (h : xs.Perm ys) : sortNat xs = sortNat ys := by
  apply List.Perm.eq_of_pairwise (le := (· ≤ ·))
  · intro a b _ _ h1 h2; omega
  · exact sortNat_sorted xs
  · exact sortNat_sorted ys
  · exact (sortNat_perm xs).trans (h.trans (sortNat_perm ys).symm)

theorem sorted_getD_le {s : List Nat} (hs : s.Pairwise (· ≤ ·)) {i j : Nat} (hij : i ≤ j) (hj : j < s.length) :
    s.getD i 0 ≤ s.getD j 0 := by
  have hi : i < s.length := by omega
  simp only [List.getD_eq_getElem?_getD, List.getElem?_eq_getElem hi, List.getElem?_eq_getElem hj, Option.getD_some]
  rcases Nat.lt_or_eq_of_le hij with h | rfl
  · exact (List.pairwise_iff_getElem.mp hs) i j hi hj h
  · exact Nat.le_refl _

theorem getD_mem_lt {s : List Nat} {B : Nat} (h : ∀ x ∈ s, x < B) {i : Nat} (hi : i < s.length) : s.getD i 0 < B := by
  simp only [List.getD_eq_getElem?_getD, List.getElem?_eq_getElem hi, Option.getD_some]
  exact h _ (List.getElem_mem hi)

end Layer.Median
