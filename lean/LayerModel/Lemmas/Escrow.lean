import Mathlib.Tactic.Ring
import Mathlib.Tactic.Linarith
import LayerModel.Chain.Escrow

namespace Layer.Escrow
open Layer

theorem sum_filter_split (qs : List (String × Int)) (q : String) :
    total qs = amountOf qs q + total (qs.filter (fun e => !(e.1 == q))) := by
  induction qs with
  | nil => simp [total, amountOf]
  | cons e es ih =>
    unfold total amountOf at *
    by_cases h : e.1 == q
    · simp [List.filter, h]; omega
    · simp [List.filter, h]; omega

theorem credit_filter_split (cs : List (String × Int)) (sel : String) :
    creditTotal cs = creditOf cs sel + creditTotal (cs.filter (fun e => !(e.1 == sel))) := by
  induction cs with
  | nil => simp [creditTotal, creditOf]
  | cons e es ih =>
    unfold creditTotal creditOf at *
    by_cases h : e.1 == sel
    · simp [List.filter, h]; omega
    · simp [List.filter, h]; omega

theorem creditOf_nonneg (cs : List (String × Int)) (sel : String) (h : ∀ c ∈ cs, 0 ≤ c.2) : 0 ≤ creditOf cs sel := by
  induction cs with
  | nil => simp [creditOf]
  | cons e es ih =>
    have he := h e (by simp)
    have ih' := ih (fun c hc => h c (by simp [hc]))
    unfold creditOf at *
    by_cases hq : e.1 == sel
    · simp [List.filter, hq]; omega
    · simp [List.filter, hq]; exact ih'

theorem creditTotal_nonneg : ∀ (cs : List (String × Int)), (∀ c ∈ cs, 0 ≤ c.2) → 0 ≤ creditTotal cs
  | [], _ => by simp [creditTotal]
  | e :: es, h => by
    have he := h e (by simp)
    have := creditTotal_nonneg es (fun c hc => h c (by simp [hc]))
    simp [creditTotal] at *; omega

theorem creditOf_le_total (cs : List (String × Int)) (sel : String) (h : ∀ c ∈ cs, 0 ≤ c.2) :
    creditOf cs sel ≤ creditTotal cs := by
  have := credit_filter_split cs sel
  have hnn : 0 ≤ creditTotal (cs.filter (fun e => !(e.1 == sel))) :=
    creditTotal_nonneg _ (fun c hc => h c (List.mem_filter.mp hc).1)
  omega

/-- truncation of a non-negative raw amount: `0 ≤ x − ⌊x/P⌋·P < P` -/
theorem trunc_bounds (x : Int) (hx : 0 ≤ x) :
    0 ≤ Dec.truncateInt x ∧ Dec.truncateInt x * Dec.prec ≤ x ∧ x < Dec.truncateInt x * Dec.prec + Dec.prec := by
  unfold Dec.truncateInt Dec.prec
  rw [Int.tdiv_eq_ediv_of_nonneg hx]
  omega

end Layer.Escrow
