import LayerModel.Lemmas.Aggregate
import LayerModel.Lemmas.Rewards

namespace Layer.Agg

/-- characterisation of the strict-`>` scan: the result is the FIRST key of maximal weight -/
theorem modeScan_first_max (w : String → Nat) : ∀ (ord : List String) (best : Nat × String),
    (modeScan w best ord = best ∧ ∀ u ∈ ord, w u ≤ best.1) ∨
    (∃ pre v post, ord = pre ++ v :: post ∧ modeScan w best ord = (w v, v) ∧ best.1 < w v ∧
        (∀ u ∈ pre, w u < w v) ∧ (∀ u ∈ post, w u ≤ w v))
  | [], best => Or.inl ⟨rfl, by simp⟩
  | x :: xs, best => by
    simp only [modeScan]
    by_cases hx : w x > best.1
    · simp only [hx, if_true]
      rcases modeScan_first_max w xs (w x, x) with ⟨heq, hle⟩ | ⟨pre, v, post, hxs, hres, hlt, hpre, hpost⟩
      · right
        exact ⟨[], x, xs, rfl, heq, hx, by simp, by simpa using hle⟩
      · right
        refine ⟨x :: pre, v, post, by simp [hxs], hres, by simp at hlt; omega, ?_, hpost⟩
        intro u hu
        rcases List.mem_cons.mp hu with rfl | hu'
        · simpa using hlt
        · exact hpre u hu'
    · simp only [hx, if_false]
      rcases modeScan_first_max w xs best with ⟨heq, hle⟩ | ⟨pre, v, post, hxs, hres, hlt, hpre, hpost⟩
      · left
        refine ⟨heq, ?_⟩
        intro u hu
        rcases List.mem_cons.mp hu with rfl | hu'
        · omega
        · exact hle u hu'
      · right
        refine ⟨x :: pre, v, post, by simp [hxs], hres, hlt, ?_, hpost⟩
        intro u hu
        rcases List.mem_cons.mp hu with rfl | hu'
        · omega
        · exact hpre u hu'

end Layer.Agg

namespace Layer.Rewards

/-- sorting by address erases the order in which the map was iterated (addresses are the map's keys,
hence distinct) -/
theorem sortByAddr_perm_eq {m₁ m₂ : List RepInfo} (hp : m₁.Perm m₂)
    (hkey : ∀ a ∈ m₁, ∀ b ∈ m₁, a.addr = b.addr → a = b) : sortByAddr m₁ = sortByAddr m₂ := by
  have p1 := List.mergeSort_perm m₁ (fun a b => decide (a.addr ≤ b.addr))
  have p2 := List.mergeSort_perm m₂ (fun a b => decide (a.addr ≤ b.addr))
  have s1 := List.pairwise_mergeSort (le := fun a b : RepInfo => decide (a.addr ≤ b.addr))
    (by intro a b c h1 h2; simp at *; exact String.le_trans h1 h2)
    (by intro a b; simp; exact String.le_total _ _) m₁
  have s2 := List.pairwise_mergeSort (le := fun a b : RepInfo => decide (a.addr ≤ b.addr))
    (by intro a b c h1 h2; simp at *; exact String.le_trans h1 h2)
    (by intro a b; simp; exact String.le_total _ _) m₂
  unfold sortByAddr
  apply List.Perm.eq_of_pairwise (le := fun a b : RepInfo => decide (a.addr ≤ b.addr) = true)
  · intro a b ha hb h1 h2
    simp at h1 h2
    have hab := String.le_antisymm h1 h2
    exact hkey a (p1.subset ha) b (hp.symm.subset (p2.subset hb)) hab
  · exact s1
  · exact s2
  · exact p1.trans (hp.trans p2.symm)

end Layer.Rewards

namespace Layer

/-- Σ|x| — the accumulation of `PowerDiff` over the (randomly ordered) map of power changes -/
def sumAbs (xs : List Int) : Int := (xs.map (fun x => if x < 0 then -x else x)).sum

theorem sum_perm_int {a b : List Int} (h : a.Perm b) : a.sum = b.sum := by
  induction h with
  | nil => rfl
  | cons x _ ih => simp [ih]
  | swap x y l => simp; omega
  | trans _ _ ih1 ih2 => omega

theorem sumAbs_perm {a b : List Int} (h : a.Perm b) : sumAbs a = sumAbs b :=
  sum_perm_int (h.map _)

end Layer
