import LayerModel.Chain.Aggregate

namespace Layer.Agg

/-- total power as a natural number -/
def psum (rs : List Report) : Nat := (rs.map (·.power)).sum

/-- power of the reports whose numeric value is strictly below `a` / at most `a` -/
def powerBelow (rs : List Report) (a : Int) : Nat := psum (rs.filter (fun r => decide (val r < a)))
def powerUpTo (rs : List Report) (a : Int) : Nat := psum (rs.filter (fun r => decide (val r ≤ a)))

def small (rs : List Report) : Prop := ∀ r ∈ rs, r.power < 2^63

theorem i64_small {p : Nat} (h : p < 2^63) : i64 p = p := by
  unfold i64
  have : p % 2^64 = p := Nat.mod_eq_of_lt (by omega)
  simp [this, h]

theorem psum_cons (r : Report) (rs : List Report) : psum (r :: rs) = r.power + psum rs := by
  simp [psum]

theorem psum_append (a b : List Report) : psum (a ++ b) = psum a + psum b := by
  simp [psum]

theorem psum_perm {a b : List Report} (h : a.Perm b) : psum a = psum b := by
  unfold psum; exact (h.map _).sum_nat

theorem psum_filter_le (p : Report → Bool) (rs : List Report) : psum (rs.filter p) ≤ psum rs := by
  induction rs with
  | nil => simp
  | cons r rs ih =>
    by_cases h : p r <;> simp [List.filter, h, psum_cons] <;> omega

theorem sumI_eq_psum {rs : List Report} (h : small rs) : sumI rs = (psum rs : Int) := by
  induction rs with
  | nil => simp [sumI, psum]
  | cons r rs ih =>
    have hr : r.power < 2^63 := h r (by simp)
    have ih' := ih (fun x hx => h x (by simp [hx]))
    simp only [sumI, List.map_cons, List.sum_cons] at *
    rw [i64_small hr]
    simp only [psum, List.map_cons, List.sum_cons] at *
    rw [ih']; simp

theorem small_of_perm {a b : List Report} (h : a.Perm b) (hs : small b) : small a :=
  fun r hr => hs r (h.subset hr)

theorem small_append_left {a b : List Report} (h : small (a ++ b)) : small a :=
  fun r hr => h r (by simp [hr])

/-- the scan stops at the first position where twice the running power reaches the total -/
theorem pick_spec (total : Int) : ∀ (s : List Report) (cum : Int) (i j : Nat) (r : Report),
    pick total cum i s = some (j, r) →
    ∃ pre post, s = pre ++ r :: post ∧ j = i + pre.length ∧
      (pre = [] ∨ 2 * (cum + sumI pre) < total) ∧ 2 * (cum + sumI pre + i64 r.power) ≥ total
  | [], _, _, _, _, h => by simp [pick] at h
  | x :: xs, cum, i, j, r, h => by
    simp only [pick] at h
    by_cases hc : 2 * (cum + i64 x.power) ≥ total
    · simp only [hc, if_true] at h
      obtain ⟨rfl, rfl⟩ : i = j ∧ x = r := by simpa using h
      exact ⟨[], xs, rfl, by simp, Or.inl rfl, by simpa [sumI] using hc⟩
    · simp only [hc, if_false] at h
      obtain ⟨pre, post, hs, hj, hpre, hge⟩ := pick_spec total xs _ _ _ _ h
      refine ⟨x :: pre, post, by simp [hs], by simp [hj]; omega, Or.inr ?_, ?_⟩
      · rcases hpre with rfl | hlt
        · simp [sumI]; omega
        · simp only [sumI, List.map_cons, List.sum_cons] at *; omega
      · simp only [sumI, List.map_cons, List.sum_cons] at *; omega

theorem pick_none (total : Int) : ∀ (s : List Report) (cum : Int) (i : Nat),
    pick total cum i s = none → 2 * (cum + sumI s) < total ∨ s = []
  | [], _, _, _ => Or.inr rfl
  | x :: xs, cum, i, h => by
    simp only [pick] at h
    by_cases hc : 2 * (cum + i64 x.power) ≥ total
    · simp [hc] at h
    · simp only [hc, if_false] at h
      rcases pick_none total xs _ _ h with h' | rfl
      · left; simp only [sumI, List.map_cons, List.sum_cons] at *; omega
      · left; simp only [sumI, List.map_cons, List.sum_cons, List.map_nil, List.sum_nil] at *; omega

theorem sortByVal_perm (rs : List Report) : (sortByVal rs).Perm rs := List.mergeSort_perm _ _

theorem sortByVal_sorted (rs : List Report) : (sortByVal rs).Pairwise (fun a b => val a ≤ val b) := by
  have := List.pairwise_mergeSort (le := fun a b => decide (val a ≤ val b))
    (by intro a b c h1 h2; simp at *; omega) (by intro a b; simp; omega) rs
  simpa [sortByVal] using this

theorem filter_lt_eq_nil {post : List Report} {a : Int} (h : ∀ x ∈ post, a ≤ val x) :
    post.filter (fun r => decide (val r < a)) = [] := by
  apply List.filter_eq_nil_iff.mpr
  intro x hx; have := h x hx; simp; omega

theorem filter_le_eq_self {pre : List Report} {a : Int} (h : ∀ x ∈ pre, val x ≤ a) :
    pre.filter (fun r => decide (val r ≤ a)) = pre := by
  apply List.filter_eq_self.mpr
  intro x hx; have := h x hx; simp; omega

/-- on a value-sorted list split at the chosen report -/
theorem below_le_pre {pre post : List Report} {r : Report}
    (hs : (pre ++ r :: post).Pairwise (fun a b => val a ≤ val b)) :
    powerBelow (pre ++ r :: post) (val r) ≤ psum pre := by
  have hpost : ∀ x ∈ post, val r ≤ val x := by
    intro x hx
    have := List.pairwise_append.mp hs
    exact (List.pairwise_cons.mp this.2.1).1 x hx
  unfold powerBelow
  rw [List.filter_append, psum_append, List.filter_cons]
  simp only [Int.lt_irrefl, decide_false, Bool.false_eq_true, if_false]
  rw [filter_lt_eq_nil hpost]
  have := psum_filter_le (fun r' => decide (val r' < val r)) pre
  simp [psum] at *; omega

theorem upto_ge_pre {pre post : List Report} {r : Report}
    (hs : (pre ++ r :: post).Pairwise (fun a b => val a ≤ val b)) :
    psum pre + r.power ≤ powerUpTo (pre ++ r :: post) (val r) := by
  have hpre : ∀ x ∈ pre, val x ≤ val r := by
    intro x hx
    have := List.pairwise_append.mp hs
    exact this.2.2 x hx r (by simp)
  unfold powerUpTo
  rw [List.filter_append, psum_append, filter_le_eq_self hpre, List.filter_cons]
  simp only [Int.le_refl, decide_true, if_true, psum_cons]
  omega

theorem powerBelow_perm {a b : List Report} (h : a.Perm b) (x : Int) : powerBelow a x = powerBelow b x :=
  psum_perm (h.filter _)

theorem powerUpTo_perm {a b : List Report} (h : a.Perm b) (x : Int) : powerUpTo a x = powerUpTo b x :=
  psum_perm (h.filter _)

/-! ### mode -/

theorem modeScan_ge_init (w : String → Nat) : ∀ (ord : List String) (best : Nat × String),
    best.1 ≤ (modeScan w best ord).1
  | [], _ => by simp [modeScan]
  | v :: vs, best => by
    simp only [modeScan]
    split
    · have := modeScan_ge_init w vs (w v, v); simp at this; omega
    · exact modeScan_ge_init w vs best

/-- the scan's result weight dominates the weight of every key it visited -/
theorem modeScan_max (w : String → Nat) : ∀ (ord : List String) (best : Nat × String),
    ∀ v ∈ ord, w v ≤ (modeScan w best ord).1
  | [], _, _, h => by simp at h
  | x :: xs, best, v, hv => by
    simp only [modeScan]
    rcases List.mem_cons.mp hv with rfl | hin
    · split
      · have := modeScan_ge_init w xs (w v, v); simpa using this
      · have := modeScan_ge_init w xs best; omega
    · split
      · exact modeScan_max w xs _ v hin
      · exact modeScan_max w xs _ v hin

/-- the scan's result is consistent: its weight component is the weight of its value component
(or it is still the initial pair) -/
theorem modeScan_consistent (w : String → Nat) : ∀ (ord : List String) (best : Nat × String),
    (best.1 = w best.2 ∨ best = (0, "")) →
    ((modeScan w best ord).1 = w (modeScan w best ord).2 ∨ modeScan w best ord = (0, ""))
  | [], _, h => by simpa [modeScan] using h
  | x :: xs, best, h => by
    simp only [modeScan]
    split
    · exact modeScan_consistent w xs _ (Or.inl rfl)
    · exact modeScan_consistent w xs _ h

end Layer.Agg

namespace Layer.Agg

theorem power_le_psum {rs : List Report} {r : Report} (h : r ∈ rs) : r.power ≤ psum rs := by
  induction rs with
  | nil => simp at h
  | cons x xs ih =>
    rcases List.mem_cons.mp h with rfl | h'
    · simp [psum_cons]
    · have := ih h'; simp [psum_cons]; omega

theorem small_of_total {rs : List Report} (h : psum rs < 2^63) : small rs :=
  fun _ hr => Nat.lt_of_le_of_lt (power_le_psum hr) h

theorem u64_small {n : Nat} (h : n < 2^63) : u64 (n : Int) = n := by
  unfold u64
  have : ((n : Int) % 2^64) = (n : Int) := Int.emod_eq_of_lt (by omega) (by omega)
  rw [this]; simp

/-- Everything the scan decides, on the sorted list. -/
theorem median_spec (rs : List Report) (hne : rs ≠ [])
    (hparse : ∀ r ∈ rs, (parseHex (strip0x r.value)).isSome = true) (htot : psum rs < 2^63) :
    ∃ pre r post, sortByVal rs = pre ++ r :: post ∧
      weightedMedian rs = some { value := strip0x r.value, reporter := r.reporter, power := psum rs,
                                  index := pre.length, microHeight := r.block,
                                  reporters := (sortByVal rs).map toAggReporter } ∧
      (pre = [] ∨ 2 * psum pre < psum rs) ∧ 2 * (psum pre + r.power) ≥ psum rs := by
  have hperm := sortByVal_perm rs
  have hsmS : small (sortByVal rs) := small_of_perm hperm (small_of_total htot)
  have htotal : sumI (sortByVal rs) = (psum rs : Int) := by
    rw [sumI_eq_psum hsmS, psum_perm hperm]
  have hall : rs.all (fun r => (parseHex (strip0x r.value)).isSome) = true := by
    simpa [List.all_eq_true] using hparse
  cases hp : pick (sumI (sortByVal rs)) 0 0 (sortByVal rs) with
  | none =>
    rcases pick_none _ _ _ _ hp with h | h
    · rw [htotal] at h; omega
    · have : rs.length = 0 := by rw [← hperm.length_eq, h]; rfl
      exact absurd (List.length_eq_zero_iff.mp this) hne
  | some jr =>
    obtain ⟨j, r⟩ := jr
    obtain ⟨pre, post, hs, hj, hlt, hge⟩ := pick_spec _ _ _ _ _ _ hp
    have hsmPre : small pre := small_append_left (hs ▸ hsmS)
    have hr : r.power < 2^63 := hsmS r (by rw [hs]; simp)
    rw [sumI_eq_psum hsmPre, i64_small hr, htotal] at hge
    refine ⟨pre, r, post, hs, ?_, ?_, ?_⟩
    · unfold weightedMedian
      simp only [hall, if_true, hp]
      simp [htotal, u64_small htot, hj]
    · rcases hlt with h | h
      · exact Or.inl h
      · right; rw [sumI_eq_psum hsmPre, htotal] at h; omega
    · omega

end Layer.Agg

namespace Layer.Agg

theorem psum_filter_mono {p q : Report → Bool} (h : ∀ x, p x = true → q x = true) (rs : List Report) :
    psum (rs.filter p) ≤ psum (rs.filter q) := by
  induction rs with
  | nil => simp
  | cons r rs ih =>
    by_cases hp : p r
    · have hq := h r hp
      simp [List.filter, hp, hq, psum_cons]; omega
    · by_cases hq : q r <;> simp [List.filter, hp, hq, psum_cons] <;> omega

/-- the chosen value is the least reported value whose cumulative power reaches half -/
theorem median_least {rs pre post : List Report} {r : Report}
    (hs : sortByVal rs = pre ++ r :: post)
    (hpos : ∀ x ∈ rs, 1 ≤ x.power)
    (hlt : pre = [] ∨ 2 * psum pre < psum rs) :
    ∀ r' ∈ rs, 2 * powerUpTo rs (val r') ≥ psum rs → val r ≤ val r' := by
  intro r' hr' hge
  by_cases hcmp : val r ≤ val r'
  · exact hcmp
  · exfalso
    have hvr : val r' < val r := by omega
    have hperm := sortByVal_perm rs
    have hsorted := sortByVal_sorted rs
    rw [hs] at hsorted
    have h1 : powerUpTo rs (val r') ≤ powerBelow rs (val r) := by
      unfold powerUpTo powerBelow
      apply psum_filter_mono
      intro x hx; simp at *; omega
    have h2 : powerBelow rs (val r) ≤ psum pre := by
      rw [← powerBelow_perm hperm, hs]; exact below_le_pre hsorted
    have h3 : r'.power ≤ powerUpTo rs (val r') := by
      unfold powerUpTo
      exact power_le_psum (List.mem_filter.mpr ⟨hr', by simp⟩)
    have h4 := hpos r' hr'
    rcases hlt with rfl | hlt
    · simp [psum] at h2; omega
    · omega

end Layer.Agg
