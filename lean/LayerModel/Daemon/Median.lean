/-
  Model of lib/math.go `Median[V]` for V = uint64 (the instance the price daemon uses) and V = int64.
  Machine arithmetic is explicit: every `+`, `-` is followed by the wrap of the type.
-/
namespace Layer.Median


def sortNat (xs : List Nat) : List Nat := xs.mergeSort (fun a b => decide (a ≤ b))
def sortInt (xs : List Int) : List Int := xs.mergeSort (fun a b => decide (a ≤ b))

/-- uint64 wrap -/
def wu (n : Int) : Nat := (n % 18446744073709551616).toNat

/-- the even-length branch on the two middle values `x ≤ y` (uint64) -/
def midU64 (x y : Nat) : Nat :=
  if x ≤ 0 ∧ y ≥ 0 then
    let sum := wu (x + y)
    wu (sum / 2 + sum % 2)
  else if y > 0 then
    wu (y - wu ((y:Int) - x) / 2)
  else
    wu (x + wu ((y:Int) - x) / 2)

/-- `Median[uint64]`.  `x <= 0` on an unsigned type is `x == 0`; the third branch ("both negative") is
unreachable for unsigned values but kept as written. -/
def medianU64 (input : List Nat) : Option Nat :=
  let l := input.length
  if l = 0 then none else
  let s := sortNat input
  let mid := l / 2
  if l % 2 = 1 then some (s.getD mid 0) else
  some (midU64 (s.getD (mid - 1) 0) (s.getD mid 0))

/-- int64 wrap (two's complement) -/
def wi (n : Int) : Int :=
  let m := n % 18446744073709551616
  if m < 9223372036854775808 then m else m - 18446744073709551616

/-- the even-length branch on the two middle values `x ≤ y` (int64) -/
def midI64 (x y : Int) : Int :=
  if x ≤ 0 ∧ y ≥ 0 then
    let sum := wi (x + y)
    wi (Int.tdiv sum 2 + Int.tmod sum 2)
  else if y > 0 then
    wi (y - Int.tdiv (wi (y - x)) 2)
  else
    wi (x + Int.tdiv (wi (y - x)) 2)

/-- `Median[int64]`; Go's `/` and `%` truncate toward zero (`Int.tdiv`, `Int.tmod`). -/
def medianI64 (input : List Int) : Option Int :=
  let l := input.length
  if l = 0 then none else
  let s := sortInt input
  let mid := l / 2
  if l % 2 = 1 then some (s.getD mid 0) else
  some (midI64 (s.getD (mid - 1) 0) (s.getD mid 0))

/-- specification: mean of the two middle values rounded away from zero -/
def meanAwayFromZero (x y : Int) : Int :=
  if x + y ≥ 0 then (x + y + 1) / 2 else - ((-(x + y) + 1) / 2)

end Layer.Median
