import LayerModel.Daemon.Median
/-
  Model of daemons/server/types/pricefeed/{market_to_exchange_prices,exchange_to_price}.go and
  daemons/pricefeed/types/price_timestamp.go.  Time is an integer (nanoseconds since the Unix epoch);
  `time.Time{}` (1 January year 1) is `zeroTime`.  Go maps are association lists (first-insertion order); the
  served median does not depend on that order (`C20_median_perm`).
-/
namespace Layer.PriceCache
open Layer.Median

def zeroTime : Int := -62135596800000000000

structure PT where
  last : Int := zeroTime     -- LastUpdateTime
  price : Nat := 0
  deriving Repr, DecidableEq

abbrev Exchanges := List (String × PT)
abbrev Cache := List (Nat × Exchanges)

structure ExchangePrice where
  exchange : String
  price : Nat
  time : Int
  deriving Repr, DecidableEq

/-- `PriceTimestamp.UpdatePrice`: replace iff strictly newer -/
def PT.update (pt : PT) (price : Nat) (t : Int) : PT :=
  if t > pt.last then { last := t, price := price } else pt

def upsert {κ α} [BEq κ] (k : κ) (f : Option α → α) : List (κ × α) → List (κ × α)
  | [] => [(k, f none)]
  | (k', v) :: rest => if k' == k then (k', f (some v)) :: rest else (k', v) :: upsert k f rest

def lookup {κ α} [BEq κ] (k : κ) : List (κ × α) → Option α
  | [] => none
  | (k', v) :: rest => if k' == k then some v else lookup k rest

/-- `ExchangeToPrice.UpdatePrices` -/
def updateExchanges (ex : Exchanges) (ups : List ExchangePrice) : Exchanges :=
  ups.foldl (fun e u => upsert u.exchange (fun o => (o.getD {}).update u.price u.time) e) ex

/-- `MarketToExchangePrices.UpdatePrices` (body under the lock) -/
def updatePrices (c : Cache) (ups : List (Nat × List ExchangePrice)) : Cache :=
  ups.foldl (fun c u => upsert u.1 (fun o => updateExchanges (o.getD []) u.2) c) c

/-- `GetValidPrices`: fresh iff not `last.Before(cutoff)` -/
def validPrices (ex : Exchanges) (cutoff : Int) : List Nat :=
  (ex.filter (fun e => !decide (e.2.last < cutoff))).map (·.2.price)

/-- `GetValidMedianPrices` (body under the lock): params are (marketId, minExchanges);
the Go result is a map — later params with the same id overwrite. -/
def getValidMedianPrices (c : Cache) (maxAge : Int) (params : List (Nat × Nat)) (readTime : Int) : List (Nat × Nat) :=
  let cutoff := readTime - maxAge
  params.foldl (fun acc p =>
    match lookup p.1 c with
    | none => acc
    | some ex =>
      let v := validPrices ex cutoff
      if v.length ≥ p.2 then
        match medianU64 v with
        | some m => upsert p.1 (fun _ => m) acc
        | none => acc
      else acc) []

end Layer.PriceCache
