import LayerModel.Base.Dec

/-!
# Taking a whole-unit amount out of a delegation (`sharesForTokens`, x/reporter/keeper/withdraw.go)

The staking module works in shares: the reporter keeper converts the amount it wants (`Validator.SharesFromTokens`), the staking keeper's
`Unbond` hands out `Validator.TokensFromShares(shares).TruncateInt()` for them.  With an exchange rate other than one the two
conversions do not invert each other: the rounded-down share amount can be worth a fraction less than the amount, and the truncation
then leaves a whole unit behind.
-/
namespace Layer.Unbond
open Layer

/-- a validator: tokens (whole units) and delegator shares (`LegacyDec`, raw) -/
structure Val where
  tokens : Int
  shares : Int
  deriving Repr, DecidableEq

/-- `Validator.SharesFromTokens`: `DelegatorShares.MulInt(amt).QuoInt(Tokens)` -/
def sharesFromTokens (v : Val) (amt : Int) : Int := Int.tdiv (v.shares * amt) v.tokens

/-- `Validator.TokensFromShares`: `shares.MulInt(Tokens).Quo(DelegatorShares)` -/
def tokensFromShares (v : Val) (s : Int) : Int := Dec.quo (s * v.tokens) v.shares

/-- what `Unbond` hands out for `s` shares (`RemoveDelShares`, not the validator's last shares) -/
def unbondTokens (v : Val) (s : Int) : Int := Dec.truncateInt (tokensFromShares v s)

/-- before the fix: the shares as converted -/
def sharesForTokensOld (v : Val) (amt : Int) : Int := sharesFromTokens v amt

/-- `sharesForTokens`: one smallest share unit more when the converted shares are worth less than the amount -/
def sharesForTokens (v : Val) (available amt : Int) : Int :=
  let s := sharesFromTokens v amt
  if unbondTokens v s < amt ∧ s < available then min (s + 1) available else s

/-- `Validator.InvalidExRate`: no tokens left while delegator shares remain (a validator slashed to zero); the staking module's
`Delegate` refuses exactly these validators (`ErrDelegatorShareExRateInvalid`) -/
def invalidExRate (v : Val) : Bool := v.tokens == 0 && decide (v.shares > 0)

/-- the validator `ReturnSlashedTokens` re-delegates an escrow entry to: the entry's own validator when it still exists and accepts
delegations, otherwise the first bonded validator -/
def returnTarget (orig : Option Val) (fallback : Val) : Val :=
  match orig with
  | none => fallback
  | some v => if invalidExRate v then fallback else v

/-- before the fix: the entry's validator whenever it exists -/
def returnTargetOld (orig : Option Val) (fallback : Val) : Val := orig.getD fallback

end Layer.Unbond
