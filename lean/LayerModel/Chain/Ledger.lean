/-
  Model of the staked-token ledger against the staking pools (C05).
  `pool`   = bonded + not-bonded pool balances,
  `ledger` = Σ validator tokens + Σ unbonding balances.
  Operations of the reporter / dispute modules that bypass the staking module's own bookkeeping:
    * take (x/reporter/keeper/withdraw.go: undelegate → Unbond + tokensToDispute; deductUnbondingDelegation):
      the ledger and a pool drop by the same amount, the per-backer record lists the parts,
    * give back (x/reporter/keeper/distribution.go ReturnSlashedTokens / FeeRefund / AddAmountToStake,
      x/reporter/keeper/msg_server.go WithdrawTip; x/dispute/keeper execute.go, dispute_fee.go): the coins `amt` enter the bonded
      pool in one transfer, the ledger grows by the truncated per-entry amounts (`Delegate(subtractAccount = false)`).
-/
namespace Layer.Ledger

structure St where
  pool : Int
  ledger : Int
  deriving Repr, DecidableEq

inductive Op where
  | take (parts : List Int)                    -- per-backer amounts taken (all ≥ 0)
  | giveBack (amt : Int) (entries : List Int)   -- coins moved, truncated per-entry amounts credited
  | staking (d : Int)                           -- the staking module's own operations: both sides move together

def step (s : St) : Op → St
  | .take parts => ⟨s.pool - parts.sum, s.ledger - parts.sum⟩
  | .giveBack amt entries => ⟨s.pool + amt, s.ledger + entries.sum⟩
  | .staking d => ⟨s.pool + d, s.ledger + d⟩

/-- a give-back is well formed when the credited entries sum to at most the coins moved and fall short by at most one unit per entry -/
def wf : Op → Prop
  | .giveBack amt entries => entries.sum ≤ amt ∧ amt - entries.sum ≤ entries.length
  | _ => True

def slack (s : St) : Int := s.pool - s.ledger

end Layer.Ledger
