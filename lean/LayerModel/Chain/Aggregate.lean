import LayerModel.Base.Bytes
/-
  Model of x/oracle/keeper/weighted_median.go and weighted_mode.go.

  Reports of one round are keyed in the store by (queryId, reporter, metaId): within one call the
  reporters are distinct; the model uses each report's own value where the code goes through the
  `values[reporter]` map (equal under distinct reporters — the harness generates distinct reporters).
-/
namespace Layer.Agg

structure Report where
  reporter : String
  value : String
  power : Nat          -- uint64
  block : Nat          -- uint64
  deriving Repr, DecidableEq, Inhabited

structure AggReporter where
  reporter : String
  power : Nat
  block : Nat
  deriving Repr, DecidableEq

structure Aggregate where
  value : String := ""
  reporter : String := ""
  power : Nat := 0
  index : Nat := 0
  microHeight : Nat := 0
  reporters : List AggReporter := []
  deriving Repr, DecidableEq

/-! ### `new(big.Int).SetString(s, 16)` -/

/-- one hex digit (shared with `hex.DecodeString`'s model) -/
def hexDigit? (c : Char) : Option Nat := Layer.Bytes.nibble? c

def hexNat? : List Char → Option Nat
  | [] => none
  | cs => cs.foldl (fun acc c => do let a ← acc; let d ← hexDigit? c; pure (a * 16 + d)) (some 0)

/-- Go's `big.Int.SetString(s, 16)`: optional sign, then one or more hex digits, nothing else
(no `0x` prefix, no underscores for an explicit base). -/
def parseHex (s : String) : Option Int :=
  match s.toList with
  | '-' :: cs => (hexNat? cs).map (fun n => - (Int.ofNat n))
  | '+' :: cs => (hexNat? cs).map Int.ofNat
  | cs => (hexNat? cs).map Int.ofNat

/-- `regtypes.Remove0xPrefix` -/
def strip0x (s : String) : String :=
  match s.toList with
  | '0' :: 'x' :: rest => String.ofList rest
  | '0' :: 'X' :: rest => String.ofList rest
  | _ => s

/-- value used for ordering (callers check parsability first) -/
def val (r : Report) : Int := (parseHex (strip0x r.value)).getD 0

/-- Go `int64(x)` for a `uint64` -/
def i64 (p : Nat) : Int := if p % 2^64 < 2^63 then (p % 2^64 : Nat) else (p % 2^64 : Nat) - 2^64

/-- Go `uint64(x)` for an `int64` -/
def u64 (x : Int) : Nat := (x % 2^64).toNat

def toAggReporter (r : Report) : AggReporter := ⟨r.reporter, r.power, r.block⟩

def sumI (rs : List Report) : Int := (rs.map (fun r => i64 r.power)).sum

/-- the scan `for i, s := range reports { cum += power; if cum >= half {…; break} }`;
`cum ≥ total/2` on 18-decimal fixed point is `2·cum ≥ total` (total/2 is exact). -/
def pick (total : Int) : (cum : Int) → (i : Nat) → List Report → Option (Nat × Report)
  | _, _, [] => none
  | cum, i, r :: rs =>
    let cum' := cum + i64 r.power
    if 2 * cum' ≥ total then some (i, r) else pick total cum' (i + 1) rs

def sortByVal (rs : List Report) : List Report :=
  rs.mergeSort (fun a b => decide (val a ≤ val b))

/-- `WeightedMedian`; `none` = the error "failed to parse value". -/
def weightedMedian (rs : List Report) : Option Aggregate :=
  if rs.all (fun r => (parseHex (strip0x r.value)).isSome) then
    let s := sortByVal rs
    let total := sumI s
    let reps := s.map toAggReporter
    match pick total 0 0 s with
    | some (i, r) => some { value := strip0x r.value, reporter := r.reporter, power := u64 total, index := i,
                            microHeight := r.block, reporters := reps }
    | none => some { reporters := reps }
  else none

/-! ### weighted mode -/

/-- `frequencyMap[v]` after the population loop -/
def weight (rs : List Report) (v : String) : Nat :=
  ((rs.filter (fun r => r.value == v)).map (·.power)).sum

/-- the max-frequency scan over the keys in iteration order `ord` (strict `>`, start `(0, "")`) -/
def modeScan (w : String → Nat) : (best : Nat × String) → List String → Nat × String
  | best, [] => best
  | best, v :: vs => if w v > best.1 then modeScan w (w v, v) vs else modeScan w best vs

def modeWith (rs : List Report) (ord : List String) : String := (modeScan (weight rs) (0, "") ord).2

/-- the reporter scan: first strictly most powerful reporter of the mode value -/
def modeReporterScan (mode : String) : (best : Nat × Option (Nat × Report)) → (i : Nat) → List Report → Option (Nat × Report)
  | best, _, [] => best.2
  | best, i, r :: rs =>
    if r.value == mode ∧ r.power > best.1 then modeReporterScan mode (r.power, some (i, r)) (i + 1) rs
    else modeReporterScan mode best (i + 1) rs

def mkMode (rs : List Report) (mode : String) : Aggregate :=
  let total := ((rs.map (·.power)).sum) % 2^64
  let reps := rs.map toAggReporter
  match modeReporterScan mode (0, none) 0 rs with
  | some (i, r) => { value := strip0x r.value, reporter := r.reporter, power := total, index := i,
                     microHeight := r.block, reporters := reps }
  | none => { power := total, reporters := reps }

/-- `WeightedMode` with the key order of the max scan as a parameter (`none` = ErrNoReportsToAggregate) -/
def weightedModeWith (rs : List Report) (ord : List String) : Option Aggregate :=
  if rs.isEmpty then none else some (mkMode rs (modeWith rs ord))

/-- `WeightedMode` as in the source: the scan runs over the reports in their (store) order -/
def weightedMode (rs : List Report) : Option Aggregate := weightedModeWith rs (rs.map (·.value))

end Layer.Agg
