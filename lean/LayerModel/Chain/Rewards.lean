import LayerModel.Base.Dec
import LayerModel.Chain.Aggregate
/-
  Model of x/oracle/keeper/rewards.go (`CalculateRewardAmount`, `AllocateRewards`) and
  x/reporter/keeper/distribution.go (`DivvyingTips`).
-/
namespace Layer.Rewards
open Layer Layer.Agg

/-- `CalculateRewardAmount(reporterPower, reportsCount, totalPower, reward)`:
`power.Quo(tPower).Mul(reward)` with `power = rPower.Mul(rcount)`; the uint64 arguments go through
`int64(·)`. Caller guarantees `totalPower ≠ 0`. -/
def calculateRewardAmount (rp cnt tp : Nat) (reward : Int) : Int :=
  let power := Dec.mul (Dec.ofInt (i64 rp)) (Dec.ofInt (i64 cnt))
  Dec.mul (Dec.quo power (Dec.ofInt (i64 tp))) (Dec.ofInt reward)

structure RepInfo where
  addr : String
  power : Nat      -- sum of the reporter's powers over the paid aggregates (uint64)
  reports : Nat
  height : Nat
  queryId : String
  deriving Repr, DecidableEq

/-- first pass: reporter → (summed power, count, first height, first query id); total = Σ all powers -/
def collectOne (qid : String) (acc : List RepInfo × Nat) (r : AggReporter) : List RepInfo × Nat :=
  let (m, tot) := acc
  let m' := if m.any (fun x => x.addr == r.reporter)
    then m.map (fun x => if x.addr == r.reporter then { x with reports := x.reports + 1, power := (x.power + r.power) % 2^64 } else x)
    else m ++ [{ addr := r.reporter, power := r.power, reports := 1, height := r.block, queryId := qid }]
  (m', (tot + r.power) % 2^64)

def collect (aggs : List (String × List AggReporter)) : List RepInfo × Nat :=
  aggs.foldl (fun acc a => a.2.foldl (collectOne a.1) acc) ([], 0)

def sortByAddr (m : List RepInfo) : List RepInfo := m.mergeSort (fun a b => decide (a.addr ≤ b.addr))

/-- the payout loop: every reporter gets `CalculateRewardAmount`, the last one in address order in
addition `reward − totaldist` -/
def payLoop (total : Nat) (reward : Int) : (dist : Int) → List RepInfo → List (RepInfo × Int)
  | _, [] => []
  | dist, [r] =>
    let amt := calculateRewardAmount r.power 1 total reward
    let dist' := dist + amt
    [(r, amt + (Dec.ofInt reward - dist'))]
  | dist, r :: rs =>
    let amt := calculateRewardAmount r.power 1 total reward
    (r, amt) :: payLoop total reward (dist + amt) rs

/-- `AllocateRewards`: the list of `AllocateTip` calls (`[]` when `reward = 0`) -/
def allocate (aggs : List (String × List AggReporter)) (reward : Int) : List (RepInfo × Int) :=
  if reward = 0 then [] else
  let (m, total) := collect aggs
  payLoop total reward 0 (sortByAddr m)

/-! ### DivvyingTips -/

structure Origin where
  delegator : String
  validator : String
  amount : Int
  deriving Repr, DecidableEq

/-- one pass over the token origins; `paid` = the commission has been credited already -/
def divvyLoop (reporter : String) (commission net total : Int) : (paid : Bool) → List Origin → List (String × Int) × Bool
  | paid, [] => ([], paid)
  | paid, o :: os =>
    let share := Dec.quo (Dec.mul net (Dec.ofInt o.amount)) (Dec.ofInt total)
    let own := o.delegator == reporter && !paid
    let credit := if own then share + commission else share
    let (rest, p) := divvyLoop reporter commission net total (paid || own) os
    ((o.delegator, credit) :: rest, p)

/-- `DivvyingTips`: the list of credits added to `SelectorTips`, in order. -/
def divvy (reporter : String) (rate : Int) (reward : Int) (origins : List Origin) (total : Int) : List (String × Int) :=
  let commission := Dec.mul reward rate
  let net := reward - commission
  let (cs, paid) := divvyLoop reporter commission net total false origins
  if !paid && commission ≠ 0 then cs ++ [(reporter, commission)] else cs

/-- the loop of the code before the `fix:` commit: the commission is added at EVERY origin of the reporter -/
def divvyOld (reporter : String) (rate : Int) (reward : Int) (origins : List Origin) (total : Int) : List (String × Int) :=
  let commission := Dec.mul reward rate
  let net := reward - commission
  origins.map (fun o =>
    let share := Dec.quo (Dec.mul net (Dec.ofInt o.amount)) (Dec.ofInt total)
    (o.delegator, if o.delegator == reporter then share + commission else share))

/-- resulting `SelectorTips` (association list, summed per delegator) -/
def applyCredits (tips : List (String × Int)) (cs : List (String × Int)) : List (String × Int) :=
  cs.foldl (fun t c =>
    if t.any (fun x => x.1 == c.1) then t.map (fun x => if x.1 == c.1 then (x.1, x.2 + c.2) else x)
    else t ++ [c]) tips

def creditSum (cs : List (String × Int)) : Int := (cs.map (·.2)).sum

end Layer.Rewards
