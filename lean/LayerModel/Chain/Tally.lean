import LayerModel.Base.Dec
/-
  Model of x/dispute/keeper/tally.go: `Ratio`, `TallyVote`, `UpdateDispute` (result selection).
-/
namespace Layer.Tally
open Layer

inductive Choice where
  | support | against | invalid
  deriving Repr, DecidableEq

/-- `VoteResult` -/
inductive Result where
  | support | against | invalid | nqSupport | nqAgainst | nqInvalid
  deriving Repr, DecidableEq

structure Counts where
  s : Nat
  a : Nat
  i : Nat
  deriving Repr, DecidableEq

def Counts.sum (c : Counts) : Int := (c.s : Int) + c.a + c.i

structure Input where
  team : Option Choice
  users : Counts
  reporters : Counts
  holders : Counts
  totalTips : Int        -- BlockInfo.TotalUserTips
  totalPower : Int       -- BlockInfo.TotalReporterPower
  supply : Int           -- bank total supply at tally time
  periodEnded : Bool     -- vote.VoteEnd.Before(blockTime)
  disputeEnded : Bool    -- dispute.DisputeEndTime.Before(blockTime)
  hasVoters : Bool       -- len(GetVoters(id)) ≠ 0
  deriving Repr, DecidableEq

inductive Output where
  /-- tallied: result, whether quorum, and the dispute's new (resolved?, open?) flags -/
  | tallied (r : Result) (resolved : Bool)
  /-- `ErrNoQuorumStillVoting` -/
  | stillVoting
  deriving Repr, DecidableEq

def powerReduction : Int := 1000000

/-- `Ratio(total, part)` -/
def ratio (total part : Int) : Int :=
  if total = 0 then 0 else
  Dec.truncateInt (Dec.mul (Dec.quo (Dec.mul (Dec.ofInt part) (Dec.ofInt powerReduction)) (Dec.ofInt (total * 4))) (Dec.ofInt 100))

/-- one group's share of a choice: `votes.Mul(powerReduction).Quo(sum)` -/
def frac (votes : Nat) (sum : Int) : Int :=
  Dec.quo (Dec.mul (Dec.ofInt votes) (Dec.ofInt powerReduction)) (Dec.ofInt sum)

/-- `UpdateDispute`'s choice: strict maximum, otherwise (a tie) invalid -/
def pick (s a i : Int) (quorum : Bool) : Result :=
  if s > a ∧ s > i then (if quorum then .support else .nqSupport)
  else if a > s ∧ a > i then (if quorum then .against else .nqAgainst)
  else (if quorum then .invalid else .nqInvalid)

/-- the choice before the `fix:` commit: `none` = error "no majority" -/
def pickOld (s a i : Int) (quorum : Bool) : Option Result :=
  if s > a ∧ s > i then some (if quorum then .support else .nqSupport)
  else if a > s ∧ a > i then some (if quorum then .against else .nqAgainst)
  else if i > s ∧ i > a then some (if quorum then .invalid else .nqInvalid)
  else none

structure Acc where
  ratio : Int
  s : Int      -- Dec
  a : Int
  i : Int

def addGroup (acc : Acc) (c : Counts) : Acc :=
  if c.sum > 0 then { acc with s := acc.s + frac c.s c.sum, a := acc.a + frac c.a c.sum, i := acc.i + frac c.i c.sum }
  else acc

def teamAcc (t : Option Choice) : Acc :=
  match t with
  | none => ⟨0, 0, 0, 0⟩
  | some .support => ⟨25 * powerReduction, Dec.ofInt powerReduction, 0, 0⟩
  | some .against => ⟨25 * powerReduction, 0, Dec.ofInt powerReduction, 0⟩
  | some .invalid => ⟨25 * powerReduction, 0, 0, Dec.ofInt powerReduction⟩

def quorumLine : Int := 51 * powerReduction

/-- `TallyVote` -/
def tally (x : Input) : Output :=
  let a0 := teamAcc x.team
  -- users: ratio only when they voted
  let a1 := addGroup { a0 with ratio := a0.ratio + (if x.users.sum > 0 then ratio x.totalTips x.users.sum else 0) } x.users
  -- reporters: ratio always
  let a2 := addGroup { a1 with ratio := a1.ratio + ratio x.totalPower x.reporters.sum } x.reporters
  if a2.ratio ≥ quorumLine then
    let q := Dec.ofInt 4
    .tallied (pick (Dec.truncateInt (Dec.quo a2.s q)) (Dec.truncateInt (Dec.quo a2.a q)) (Dec.truncateInt (Dec.quo a2.i q)) true) true
  else
  let a3 := addGroup { a2 with ratio := a2.ratio + ratio x.supply x.holders.sum } x.holders
  if a3.ratio ≥ quorumLine then
    .tallied (pick (Dec.truncateInt a3.s) (Dec.truncateInt a3.a) (Dec.truncateInt a3.i) true) true
  else if x.periodEnded then
    if !x.hasVoters then .tallied .nqInvalid x.disputeEnded
    else .tallied (pick (Dec.truncateInt a3.s) (Dec.truncateInt a3.a) (Dec.truncateInt a3.i) false) x.disputeEnded
  else .stillVoting

end Layer.Tally
