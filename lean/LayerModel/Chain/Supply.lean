/-
  Model of the token-supply ledger at block granularity (C03): x/mint/abci.go BeginBlocker +
  x/mint/types/minter.go CalculateBlockProvision + x/mint/keeper SendInflationaryRewards, and the
  documented supply events of the other modules (tip burn, withdrawal burn, deposit mint, dispute burns).
-/
namespace Layer.Supply

def dailyMintRate : Int := 146940000
def msPerDay : Int := 86400000

/-- `CalculateBlockProvision(current, previous)` with times in nanoseconds:
`DailyMintRate * current.Sub(previous).Milliseconds() / MillisecondsInDay` -/
def provision (current previous : Int) : Int :=
  Int.tdiv (dailyMintRate * Int.tdiv (current - previous) 1000000) msPerDay

/-- 2 % burn of a tip (`tip.Amount.Mul(2).Quo(100)`) -/
def tipBurn (a : Int) : Int := Int.tdiv (a * 2) 100

structure Mint where
  init : Bool := false
  prev : Option Int := none     -- PreviousBlockTime (ns)
  deriving Repr, DecidableEq

/-- the mint BeginBlocker at block time `t`: amount minted and the new minter -/
def beginBlock (m : Mint) (t : Int) : Int × Mint :=
  if !m.init then (0, m) else
  match m.prev with
  | none => (0, { m with prev := some t })
  | some p => (if t < p then 0 else provision t p, { m with prev := some t })

/-- fee collector's quarter and the reward pool's remainder (`SendInflationaryRewards`) -/
def quarter (minted : Int) : Int := Int.tdiv minted 4
def toTbr (minted : Int) : Int := minted - quarter minted

/-- the documented supply events of one block -/
inductive Ev where
  | minit                 -- governance started minting (takes effect from the next block)
  | tip (a : Int)         -- accepted tip of `a`
  | wd (a : Int)          -- accepted bridge withdrawal of `a`
  | claim (a : Int)       -- accepted deposit claim minting `a` (= reported amount / 10^12)
  | exec (a : Int)        -- dispute executed, burning `a`
  | dust (a : Int)        -- refund dust burnt
  deriving Repr, DecidableEq

def evDelta : Ev → Int
  | .minit => 0
  | .tip a => - tipBurn a
  | .wd a => - a
  | .claim a => a
  | .exec a => - a
  | .dust a => - a

structure St where
  supply : Int
  mint : Mint
  deriving Repr, DecidableEq

/-- one block: BeginBlock mint, then the block's documented events; `minit` switches the minter on at the end -/
def block (s : St) (t : Int) (evs : List Ev) : St × Int :=
  let (minted, m') := beginBlock s.mint t
  let delta := minted + (evs.map evDelta).sum
  let m'' := if evs.contains .minit then { m' with init := true } else m'
  ({ supply := s.supply + delta, mint := m'' }, minted)

end Layer.Supply
