/-
  Model of the dispute life cycle and of vote bookkeeping (C12, non-tally part):
    x/dispute/keeper/dispute.go (SetNewDispute, AddDisputeRound), msg_server_add_fee_to_dispute.go, abci.go (expiry,
    tally, execution), msg_server_vote.go (guards), vote.go (group counters).
-/
namespace Layer.Lifecycle

inductive Status where
  | prevote | voting | resolved | unresolved | failed
  deriving Repr, DecidableEq

/-- `DisputeStatus` numbering of the proto enum -/
def statusOf : Nat → Option Status
  | 0 => some .prevote | 1 => some .voting | 2 => some .resolved | 3 => some .unresolved | 4 => some .failed | _ => none

/-- the transitions the code performs on one dispute record -/
def next : Status → Status → Bool
  | .prevote, .voting => true       -- fee completed
  | .prevote, .failed => true       -- one day without the full fee
  | .voting, .resolved => true      -- quorum, or the period over with votes
  | .voting, .unresolved => true    -- period over without quorum
  | .unresolved, .resolved => true  -- no new round within the window: executed
  | _, _ => false

def rank : Status → Nat
  | .prevote => 0 | .voting => 1 | .unresolved => 2 | .resolved => 3 | .failed => 3

/-- fee of round `round + 1` for a dispute whose slash amount is `slash`: 5 % · 2^round, capped -/
def roundFee (slash : Int) (round : Nat) : Int :=
  let f := slash / 20 * (2 ^ round : Nat)
  if f > slash then slash else f

/-- votes of one round: (voter, choice 0 invalid / 1 support / 2 against, user, reporter, holder power, team) -/
structure V where
  voter : String
  choice : Nat
  user : Nat
  reporter : Nat
  holder : Nat
  team : Bool
  deriving Repr, DecidableEq

structure Counts where
  s : Nat := 0
  a : Nat := 0
  i : Nat := 0
  deriving Repr, DecidableEq

def Counts.add (c : Counts) (choice n : Nat) : Counts :=
  match choice with
  | 1 => { c with s := c.s + n } | 2 => { c with a := c.a + n } | _ => { c with i := c.i + n }

def Counts.total (c : Counts) : Nat := c.s + c.a + c.i

structure Round where
  votes : List V := []
  users : Counts := {}
  reporters : Counts := {}
  holders : Counts := {}
  deriving Repr, DecidableEq

/-- `Vote`: rejected when the address has voted in this round or carries no power -/
def vote (r : Round) (v : V) : Option Round :=
  if r.votes.any (·.voter == v.voter) then none
  else if v.user + v.reporter + v.holder = 0 ∧ !v.team then none
  else some { votes := r.votes ++ [v], users := r.users.add v.choice v.user, reporters := r.reporters.add v.choice v.reporter,
              holders := r.holders.add v.choice v.holder }

end Layer.Lifecycle
