import LayerModel.Base.Dec
/-
  Model of slashing at dispute funding (C11):
    x/dispute/keeper/dispute.go   GetDisputeFee, GetSlashPercentageAndJailDuration, SlashAndJailReporter
    x/reporter/keeper/withdraw.go EscrowReporterStake (apportioning over the report's stake snapshot)
-/
namespace Layer.Slash
open Layer

inductive Cat where
  | warning | minor | major
  deriving Repr, DecidableEq

/-- slash percentage as fixed-6 (`GetSlashPercentageAndJailDuration`) -/
def pct6 : Cat → Int
  | .warning => 10000 | .minor => 50000 | .major => 1000000

/-- jail duration in seconds; `none` = not jailed by the dispute module (major) -/
def jailSeconds : Cat → Option Int
  | .warning => some 0 | .minor => some 600 | .major => none

/-- `SlashAndJailReporter`: `reportPower·10^6 · pct6 / 10^6`, truncated -/
def slashAmount (power : Int) (c : Cat) : Int :=
  Dec.truncateInt (Dec.quo (Dec.mul (Dec.ofInt (power * 1000000)) (Dec.ofInt (pct6 c))) (Dec.ofInt 1000000))

/-- one origin's share: `del.Quo(total).Mul(amt).RoundInt()` -/
def share (del total amt : Int) : Int :=
  Dec.roundInt (Dec.mul (Dec.quo (Dec.ofInt del) (Dec.ofInt total)) (Dec.ofInt amt))

/-- `EscrowReporterStake`: every origin takes its rounded share of `amt`, the last one takes what is left -/
def apportionGo (total amt : Int) : List Int → Int → List Int
  | [], _ => []
  | [_], left => [left]
  | d :: d2 :: ds, left => share d total amt :: apportionGo total amt (d2 :: ds) (left - share d total amt)

/-- `total` is the denominator of the shares: the snapshot's recorded total (since the fix), `power·10^6` before it -/
def apportion (origins : List Int) (total amt : Int) : List Int := apportionGo total amt origins amt

end Layer.Slash
