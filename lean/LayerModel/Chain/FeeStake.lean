import LayerModel.Base.Dec

/-!
# Fee paid from stake — `FeefromReporterStake` (x/reporter/keeper/withdraw.go)

A reporter pays a dispute fee out of the stake of its group (the reporter and its selectors).  Every selector carries the part of the
fee proportional to its bonded tokens (`LegacyDec` arithmetic); the part is taken from the selector's delegations in store order, a
delegation that cannot cover what is left is taken whole.  For every delegation touched the keeper appends a *record* (what it says was
taken there) and moves what the staking keeper actually unbonded.

Modelled: validators whose exchange rate is one (tokens = shares; the correspondence check compares only such states and counts the
others), so that `Unbond(SharesFromTokens(n))` returns `n`.
-/
namespace Layer.FeeStake
open Layer

/-- one delegation of a selector to a bonded validator (whole tokens) -/
structure Deleg where
  val : String
  tokens : Int
  deriving Repr, DecidableEq

/-- a selector of the paying reporter with its bonded delegations in store order -/
structure Selector where
  addr : String
  dels : List Deleg
  deriving Repr

/-- one entry of the per-backer record (`TokenOriginInfo`) together with what was actually unbonded -/
structure Origin where
  del : String
  val : String
  recorded : Int
  taken : Int
  deriving Repr, DecidableEq

def selTokens (s : Selector) : Int := (s.dels.map (·.tokens)).sum
def totalTokens (sels : List Selector) : Int := (sels.map selTokens).sum

/-- the inner loop over one selector's delegations; `rest` (a `LegacyDec`, raw) is the part of its share still to take -/
def takeFrom (who : String) : List Deleg → Int → List Origin
  | [], _ => []
  | d :: ds, rest =>
    if Dec.ofInt d.tokens ≥ rest then [⟨who, d.val, Dec.truncateInt rest, Dec.truncateInt rest⟩]
    else
      let rest' := rest - Dec.ofInt d.tokens
      ⟨who, d.val, d.tokens, d.tokens⟩ :: (if rest' = 0 then [] else takeFrom who ds rest')

/-- the same loop before fix c715962: a delegation taken whole was recorded with what was *still to take* afterwards -/
def takeFromOld (who : String) : List Deleg → Int → List Origin
  | [], _ => []
  | d :: ds, rest =>
    if Dec.ofInt d.tokens ≥ rest then [⟨who, d.val, Dec.truncateInt rest, Dec.truncateInt rest⟩]
    else
      let rest' := rest - Dec.ofInt d.tokens
      ⟨who, d.val, Dec.truncateInt rest', d.tokens⟩ :: (if rest' = 0 then [] else takeFromOld who ds rest')

/-- a selector's share of the fee: `selectorTotalTokens.Quo(reporterTotalTokens).Mul(fee)` -/
def share (selTok total fee : Int) : Int := Dec.mul (Dec.quo (Dec.ofInt selTok) (Dec.ofInt total)) (Dec.ofInt fee)

/-- `FeefromReporterStake`: `none` = "insufficient stake to pay fee" -/
def feeFromStake (sels : List Selector) (fee : Int) : Option (List Origin) :=
  let total := totalTokens sels
  if Dec.ofInt fee > Dec.ofInt total then none
  else some (sels.flatMap (fun s => takeFrom s.addr s.dels (share (selTokens s) total fee)))

def feeFromStakeOld (sels : List Selector) (fee : Int) : Option (List Origin) :=
  let total := totalTokens sels
  if Dec.ofInt fee > Dec.ofInt total then none
  else some (sels.flatMap (fun s => takeFromOld s.addr s.dels (share (selTokens s) total fee)))

/-- what moves from the bonded pool to the dispute account, and what the record says -/
def moved (os : List Origin) : Int := (os.map (·.taken)).sum
def recordedSum (os : List Origin) : Int := (os.map (·.recorded)).sum

end Layer.FeeStake
