import LayerModel.Chain.Aggregate
/-
  Model of the oracle round state machine (C07, C08):
    x/oracle/keeper/msg_server_tip.go            `tip`
    x/oracle/keeper/msg_server_submit_value.go   `submit` (+ submit_value.go SetValue, token_bridge_deposit.go)
    x/oracle/keeper/aggregate.go                 `setAggregated` (SetAggregatedReport / SetAggregate), the getters
    x/oracle/keeper/cycle_list.go                `rotate` (RotateQueries, ClearOldqueries)
    x/oracle/keeper/keeper.go                    `currentQuery`, `flag` (FlagAggregateReport)
  Collections are lists kept in key order.  What the oracle asks other modules (reporter stake, data spec, value
  validity, tipper funds) arrives as explicit inputs of the operation.
-/
namespace Layer.Oracle
open Layer

structure Query where
  qid : String          -- query id (hex)
  id : Nat              -- meta id
  amount : Int
  exp : Nat
  window : Nat
  hasRev : Bool
  cycle : Bool
  deriving Repr, DecidableEq

structure Rep where
  qid : String
  reporter : String     -- address bytes as hex (store order = byte order)
  metaId : Nat
  value : String
  power : Nat
  height : Nat
  cycle : Bool
  method : String
  deriving Repr, DecidableEq

structure Agg where
  qid : String
  ts : Nat              -- key timestamp (ms)
  value : String
  reporter : String
  power : Nat
  nonce : Nat
  flagged : Bool
  height : Nat
  microHeight : Nat
  metaId : Nat
  aggIndex : Nat
  reporters : List Agg.AggReporter
  deriving Repr, DecidableEq

structure S where
  queries : List Query := []
  reports : List Rep := []
  aggs : List Agg := []
  nonces : List (String × Nat) := []
  cycle : List String := []      -- cycle-list query ids in key order
  seq : Nat := 0
  nextId : Nat := 0
  deriving Repr

/-- key order helpers -/
def qLe (a b : Query) : Bool := a.qid < b.qid || (a.qid == b.qid && a.id ≤ b.id)

def setQuery (qs : List Query) (q : Query) : List Query :=
  ((qs.filter (fun x => !(x.qid == q.qid && x.id == q.id))) ++ [q]).mergeSort qLe

def removeQuery (qs : List Query) (qid : String) (id : Nat) : List Query :=
  qs.filter (fun x => !(x.qid == qid && x.id == id))

/-- `CurrentQuery`: the record of `qid` with the greatest meta id -/
def currentQuery (qs : List Query) (qid : String) : Option Query :=
  (qs.filter (·.qid == qid)).foldl (fun best q => match best with
    | none => some q
    | some b => if q.id ≥ b.id then some q else some b) none

inductive Kind where
  | spot        -- an ordinary query whose type has a registered spec
  | deposit     -- TRBBridge, toLayer = true
  | withdraw    -- TRBBridge, toLayer = false
  | nospec      -- decodable query data whose type has no registered spec
  | garbage     -- undecodable query data
  deriving Repr, DecidableEq

/-- data-spec facts the oracle reads from the registry for this query -/
structure Spec where
  window : Nat
  method : String
  deriving Repr, DecidableEq

/-! ### tip -/

/-- `Tip` with `net` = amount after the 2 % burn; `none` = transaction rejected -/
def tip (s : S) (h : Nat) (qid : String) (kind : Kind) (spec : Spec) (net : Int) : Option S :=
  match currentQuery s.queries qid with
  | some q =>
    let q1 := { q with amount := q.amount + net }
    let q2 := if q1.exp < h then { q1 with exp := h + q1.window, cycle := false } else q1
    some { s with queries := setQuery s.queries q2 }
  | none =>
    -- InitializeQuery needs a decodable type with a registered spec
    match kind with
    | .garbage | .nospec => none
    | _ =>
      let w := if kind == .spot then spec.window else spec.window
      let q : Query := { qid := qid, id := s.nextId, amount := net, exp := h + w, window := w, hasRev := false, cycle := false }
      some { s with queries := setQuery s.queries q, nextId := s.nextId + 1 }

/-! ### submit value -/

/-- reporter-side inputs: `stake = none` is an error from `ReporterStake` (unknown or jailed reporter) -/
structure RepIn where
  reporter : String
  stake : Option Int
  minStake : Int
  value : String
  valueOk : Bool        -- `dataSpec.ValidateValue`
  deriving Repr

def setReport (rs : List Rep) (r : Rep) : List Rep :=
  (rs.filter (fun x => !(x.qid == r.qid && x.reporter == r.reporter && x.metaId == r.metaId))) ++ [r]

/-- `SetValue` -/
def setValue (s : S) (h : Nat) (q : Query) (kind : Kind) (spec : Spec) (ri : RepIn) (power : Nat) (incycle : Bool) : Option S :=
  if kind == .nospec || kind == .garbage then none else
  if !ri.valueOk then none else
  let q' := { q with hasRev := true }
  let r : Rep := { qid := q.qid, reporter := ri.reporter, metaId := q.id, value := ri.value, power := power, height := h,
                   cycle := incycle, method := spec.method }
  some { s with queries := setQuery s.queries q', reports := setReport s.reports r }

/-- `HandleBridgeDepositDirectReveal` -/
def depositReveal (s : S) (h : Nat) (q : Query) (kind : Kind) (spec : Spec) (ri : RepIn) (power : Nat) : Option S :=
  let fresh : Bool := decide (q.amount = 0 ∧ q.exp ≤ h)
  let q1 := if fresh then { q with id := s.nextId, exp := h + q.window } else q
  let s1 := if fresh then { s with nextId := s.nextId + 1 } else s
  let q2 := if q1.amount > 0 ∧ q1.exp ≤ h then { q1 with exp := h + q1.window } else q1
  if q2.exp < h then none else setValue s1 h q2 kind spec ri power true

/-- `SubmitValue`; `none` = rejected -/
def submit (s : S) (h : Nat) (qid : String) (kind : Kind) (spec : Spec) (ri : RepIn) : Option S :=
  if kind == .withdraw || kind == .garbage then none else
  match ri.stake with
  | none => none
  | some stake =>
    if stake < ri.minStake then none else
    let power := (stake / 1000000).toNat
    match currentQuery s.queries qid with
    | none =>
      if kind != .deposit then none else
      let q : Query := { qid := qid, id := s.nextId, amount := 0, exp := h + 2000, window := 2000, hasRev := false, cycle := true }
      let s1 := { s with queries := setQuery s.queries q, nextId := s.nextId + 1 }
      depositReveal s1 h q kind spec ri power
    | some q =>
      if kind == .deposit then depositReveal s h q kind spec ri power else
      if q.amount = 0 ∧ !q.cycle then none else
      if q.exp < h then none else
      setValue s h q kind spec ri power q.cycle

/-! ### end of block -/

def toAggReport (r : Rep) : Agg.Report := ⟨r.reporter, r.value, r.power, r.height⟩

def nonceOf (ns : List (String × Nat)) (qid : String) : Nat := ((ns.find? (·.1 == qid)).map (·.2)).getD 0

def setNonce (ns : List (String × Nat)) (qid : String) (n : Nat) : List (String × Nat) :=
  (ns.filter (fun x => !(x.1 == qid))) ++ [(qid, n)]

/-- `Aggregates.Set` keyed by (qid, ts): an entry with the same key is replaced in place, a new key is appended.
The list is kept in creation order; per query that is timestamp order as long as block times increase
(`Props/C08`), which is the store's key order. -/
def setAgg (as : List Agg) (a : Agg) : List Agg :=
  if as.any (fun x => x.qid == a.qid && x.ts == a.ts)
  then as.map (fun x => if x.qid == a.qid && x.ts == a.ts then a else x)
  else as ++ [a]

/-- one expired query with reports: aggregate, store, remove the query. `none` = the end blocker fails. -/
def aggregateOne (s : S) (h : Nat) (ts : Nat) (q : Query) : Option S :=
  let reps := ((s.reports.filter (fun r => r.metaId == q.id)).mergeSort
    (fun a b => a.qid < b.qid || (a.qid == b.qid && a.reporter ≤ b.reporter)))
  match reps with
  | [] => none   -- "there should always be at least one report": microReports[0] would panic
  | r0 :: _ =>
    let res := if r0.method == "weighted-median" then Agg.weightedMedian (reps.map toAggReport)
               else Agg.weightedMode (reps.map toAggReport)
    match res with
    | none => none
    | some a =>
      let n := nonceOf s.nonces q.qid + 1
      let agg : Agg := { qid := q.qid, ts := ts, value := a.value, reporter := a.reporter, power := a.power, nonce := n,
                         flagged := false, height := h, microHeight := a.microHeight, metaId := q.id, aggIndex := a.index,
                         reporters := a.reporters }
      some { s with aggs := setAgg s.aggs agg, nonces := setNonce s.nonces q.qid n, queries := removeQuery s.queries q.qid q.id }

/-- `SetAggregatedReport` (rewards are not part of this model) -/
def setAggregated (s : S) (h : Nat) (ts : Nat) : Option S :=
  (s.queries.filter (fun q => q.hasRev)).foldl (fun acc q =>
    match acc with
    | none => none
    | some st => if q.exp ≤ h then aggregateOne st h ts q else some st) (some s)

/-- `RotateQueries`: `spec` gives the window of the next cycle-list query's type -/
def rotate (s : S) (h : Nat) (specOf : String → Spec) : Option S :=
  if s.cycle.isEmpty then none else
  let idx := if s.seq ≥ s.cycle.length then 0 else s.seq
  let cur := s.cycle.getD idx ""
  match currentQuery s.queries cur with
  | some q => if q.exp > h then some s else rotateNext s h specOf
  | none => rotateNext s h specOf
where
  rotateNext (s : S) (h : Nat) (specOf : String → Spec) : Option S :=
    -- CyclelistSequencer.Next returns the stored value and stores value+1; then wrap
    let n := s.seq
    let n' := if n + 1 ≥ s.cycle.length then 0 else n + 1
    let nextQ := s.cycle.getD n' ""
    -- ClearOldqueries(next)
    let qs := s.queries.filter (fun x => !(x.qid == nextQ && x.exp < h && !x.hasRev && x.amount == 0))
    let s1 := { s with seq := n', queries := qs }
    match currentQuery qs nextQ with
    | none =>
      let w := (specOf nextQ).window
      let q : Query := { qid := nextQ, id := s1.nextId, amount := 0, exp := h + w, window := w, hasRev := false, cycle := true }
      some { s1 with queries := setQuery qs q, nextId := s1.nextId + 1 }
    | some q =>
      if q.amount ≠ 0 then
        let q1 := { q with cycle := true }
        let q2 := if q1.exp ≤ h then { q1 with exp := h + q1.window } else q1
        some { s1 with queries := setQuery qs q2 }
      else some s1

/-- the oracle end blocker -/
def endBlock (s : S) (h : Nat) (ts : Nat) (specOf : String → Spec) : Option S :=
  (setAggregated s h ts).bind (fun s1 => rotate s1 h specOf)

/-! ### flagging and withdrawals (other writers of `Aggregates`) -/

/-- `FlagAggregateReport(report)`: the first aggregate (micro-height index order) of the report's query whose chosen
reporter is the report's reporter -/
def flag (s : S) (qid : String) (microHeight : Nat) (reporter : String) : S :=
  let cands := (s.aggs.filter (fun a => a.microHeight == microHeight && a.qid == qid &&
      ((a.reporters[a.aggIndex]?).map (·.reporter)) == some reporter))
  match cands with
  | [] => s
  | a :: _ => { s with aggs := s.aggs.map (fun x => if x.qid == a.qid && x.ts == a.ts then { x with flagged := true } else x) }

/-- `WithdrawTokens` → `SetAggregate` under the withdrawal query id -/
def withdrawAgg (s : S) (h : Nat) (ts : Nat) (qid : String) (value : String) (power : Nat) : S :=
  let n := nonceOf s.nonces qid + 1
  let agg : Agg := { qid := qid, ts := ts, value := value, reporter := "", power := power, nonce := n, flagged := false,
                     height := h, microHeight := h, metaId := 0, aggIndex := 0, reporters := [] }
  { s with aggs := setAgg s.aggs agg, nonces := setNonce s.nonces qid n }

/-! ### getters (C08) -/

def hist (s : S) (qid : String) : List Agg := s.aggs.filter (·.qid == qid)

/-- `GetCurrentAggregateReport` -/
def getCurrent (s : S) (qid : String) : Option Agg := (hist s qid).getLast?

/-- `GetAggregateBefore`: latest unflagged entry with ts < t -/
def getBefore (s : S) (qid : String) (t : Nat) : Option Agg :=
  ((hist s qid).filter (fun a => a.ts < t && !a.flagged)).getLast?

/-- `GetTimestampBefore` (0 = none) -/
def tsBefore (s : S) (qid : String) (t : Nat) : Nat :=
  (((hist s qid).filter (fun a => a.ts < t)).getLast?.map (·.ts)).getD 0

/-- `GetTimestampAfter` (0 = none) -/
def tsAfter (s : S) (qid : String) (t : Nat) : Nat :=
  (((hist s qid).filter (fun a => a.ts > t)).head?.map (·.ts)).getD 0

/-- `GetAggregateByIndex` -/
def getByIndex (s : S) (qid : String) (i : Nat) : Option Agg := (hist s qid)[i]?

/-- `GetAggregateByTimestamp` -/
def getByTs (s : S) (qid : String) (t : Nat) : Option Agg := (hist s qid).find? (·.ts == t)

end Layer.Oracle
