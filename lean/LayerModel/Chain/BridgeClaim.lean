/-
  Model of x/bridge/keeper/claim_deposit.go (`ClaimDeposit`, `DecodeDepositReportValue`'s arithmetic),
  msg_server_claim_deposits.go (batch = sequential claims, all-or-nothing) and withdraw_tokens.go
  (`WithdrawTokens`, `IncrementWithdrawalId`).
  What the keeper obtains from other modules arrives as inputs: the aggregate at (deposit query id, index), the
  power threshold of the latest checkpoint strictly before the aggregate's timestamp, and the ABI-decoded report value.
-/
namespace Layer.BridgeClaim

structure AggInfo where
  flagged : Bool
  tsMs : Nat          -- aggregate timestamp (ms)
  power : Nat
  deriving Repr, DecidableEq

structure Decoded where
  recipientOk : Bool  -- the recipient string is a valid bech32 account address
  amount : Nat        -- uint256 as reported (18 decimals)
  tip : Nat
  deriving Repr, DecidableEq

structure ClaimIn where
  depositId : Nat
  agg : Option AggInfo
  threshold : Option Nat      -- none = no validator checkpoint strictly before the aggregate's timestamp
  nowNs : Int                 -- block time (ns)
  decoded : Option Decoded    -- none = hex / ABI decoding failed
  deriving Repr, DecidableEq

inductive Err where
  | noAggregate | flagged | alreadyClaimed | noCheckpoint | insufficientPower | tooYoung | invalidValue | panic
  deriving Repr, DecidableEq

structure Payout where
  minted : Nat
  toClaimer : Nat
  toRecipient : Nat
  deriving Repr, DecidableEq

def twelveHoursNs : Int := 12 * 3600 * 1000000000

/-- `big.Int.Int64()`: the low 64 bits as a signed number -/
def int64Of (n : Nat) : Int :=
  let m := n % 18446744073709551616
  if m < 9223372036854775808 then (m : Int) else (m : Int) - 18446744073709551616

/-- `ClaimDeposit` against the set of already claimed ids -/
def claim (claimed : List Nat) (x : ClaimIn) : Except Err (List Nat × Payout) :=
  match x.agg with
  | none => .error .noAggregate
  | some agg =>
    if agg.flagged then .error .flagged else
    if claimed.contains x.depositId then .error .alreadyClaimed else
    match x.threshold with
    | none => .error .noCheckpoint
    | some thr =>
      if agg.power < thr then .error .insufficientPower else
      if x.nowNs - (agg.tsMs : Int) * 1000000 < twelveHoursNs then .error .tooYoung else
      match x.decoded with
      | none => .error .invalidValue
      | some d =>
        if !d.recipientOk then .error .invalidValue else
        -- the converted amounts are arbitrary-precision integers (`math.NewIntFromBigInt`)
        let amt : Int := (d.amount / 1000000000000 : Nat)
        let tip : Int := (d.tip / 1000000000000 : Nat)
        if tip > 0 then
          -- amount.Sub(tip...) panics when the result would be negative
          if tip > amt then .error .panic
          else .ok (x.depositId :: claimed, { minted := amt.toNat, toClaimer := tip.toNat, toRecipient := (amt - tip).toNat })
        else .ok (x.depositId :: claimed, { minted := amt.toNat, toClaimer := 0, toRecipient := amt.toNat })


/-- `ClaimDeposit` before the fix of the `Int64()` conversion (kept for the counterexample theorem) -/
def claimOld (claimed : List Nat) (x : ClaimIn) : Except Err (List Nat × Payout) :=
  match x.agg with
  | none => .error .noAggregate
  | some agg =>
    if agg.flagged then .error .flagged else
    if claimed.contains x.depositId then .error .alreadyClaimed else
    match x.threshold with
    | none => .error .noCheckpoint
    | some thr =>
      if agg.power < thr then .error .insufficientPower else
      if x.nowNs - (agg.tsMs : Int) * 1000000 < twelveHoursNs then .error .tooYoung else
      match x.decoded with
      | none => .error .invalidValue
      | some d =>
        if !d.recipientOk then .error .invalidValue else
        let amt := int64Of (d.amount / 1000000000000)
        let tip := int64Of (d.tip / 1000000000000)
        -- sdk.NewInt64Coin panics on a negative amount
        if amt < 0 ∨ tip < 0 then .error .panic else
        if tip > 0 then
          -- amount.Sub(tip...) panics when the result would be negative
          if tip > amt then .error .panic
          else .ok (x.depositId :: claimed, { minted := amt.toNat, toClaimer := tip.toNat, toRecipient := (amt - tip).toNat })
        else .ok (x.depositId :: claimed, { minted := amt.toNat, toClaimer := 0, toRecipient := amt.toNat })

/-- `MsgClaimDeposits`: sequential, all-or-nothing -/
def claimBatch (claimed : List Nat) : List ClaimIn → Except Err (List Nat × List Payout)
  | [] => .ok (claimed, [])
  | x :: xs =>
    match claim claimed x with
    | .error e => .error e
    | .ok (c', p) =>
      match claimBatch c' xs with
      | .error e => .error e
      | .ok (c'', ps) => .ok (c'', p :: ps)

/-- one transaction against the state: a failed batch leaves the claimed set unchanged -/
def txStep (claimed : List Nat) (batch : List ClaimIn) : List Nat × List Payout :=
  match claimBatch claimed batch with
  | .ok (c, ps) => (c, ps)
  | .error _ => (claimed, [])

/-! ### withdrawals -/

structure WSt where
  lastId : Option Nat     -- WithdrawalId item (none before the first withdrawal)
  supply : Int
  deriving Repr, DecidableEq

/-- `WithdrawTokens` for a sender holding at least `amount`: burns `amount`, takes the next id (first id 1) -/
def withdraw (s : WSt) (amount : Nat) : WSt × Nat :=
  let id := match s.lastId with | none => 1 | some i => i + 1
  ({ lastId := some id, supply := s.supply - amount }, id)

end Layer.BridgeClaim
