import LayerModel.Base.Bytes
import LayerModel.Chain.Aggregate
import LayerModel.Chain.Supply
/-
  Pieces of the automatic block processing that can fail (C02), as total/partial functions:
  * the cycle-list pointer (x/oracle/keeper/cycle_list.go, msg_update_cyclelist.go),
  * acceptance of a report value vs. its later parsing (submit_value.go / weighted_median.go / bridge snapshot),
  * the outputs of the mint begin-blocker's InputOutputCoins (x/mint/keeper/keeper.go).
-/
namespace Layer.OracleBlock
open Layer

structure Cycle where
  list : List String     -- query data in key (query id) order
  seq : Nat              -- CyclelistSequencer
  deriving Repr, DecidableEq

/-- `GetCurrentQueryInCycleList`: `q[idx]` with the index clamped to 0 when it is past the end;
`none` = index-out-of-range panic -/
def current (c : Cycle) : Option String :=
  c.list[if c.seq ≥ c.list.length then 0 else c.seq]?

/-- the same before fix 82aad11: no clamp -/
def currentOld (c : Cycle) : Option String := c.list[c.seq]?

/-- the sequencer update of `RotateQueries` (`Next` then wrap at `len-1`) -/
def rotate (c : Cycle) : Cycle :=
  if c.seq + 1 ≥ c.list.length then { c with seq := 0 } else { c with seq := c.seq + 1 }

/-- `UpdateCyclelist` (authority already checked): an empty list or an entry without a data spec is rejected -/
def update (c : Cycle) (newList : List String) (hasSpec : String → Bool) : Cycle :=
  if newList.isEmpty || !(newList.all hasSpec) then c else { c with list := newList }

inductive Op where
  | rotate
  | update (l : List String)

def step (hasSpec : String → Bool) (c : Cycle) : Op → Cycle
  | .rotate => rotate c
  | .update l => update c l hasSpec

/-! ### report values -/

/-- what `SetValue` accepts for a hex-typed value: `hex.DecodeString(Remove0xPrefix(v))` succeeds and the
ABI decoder is given at least one byte -/
def accepted (v : String) : Bool :=
  match Bytes.ofHex? (Agg.strip0x v) with
  | some bs => !bs.isEmpty
  | none => false

/-! ### mint outputs -/

/-- the outputs handed to `InputOutputCoins` for a positive provision (pool name, amount) -/
def mintOutputs (minted : Int) : List (String × Int) :=
  [("time_based_rewards", Supply.toTbr minted)] ++
    (if Supply.quarter minted > 0 then [("fee_collector", Supply.quarter minted)] else [])

/-- before fix 3e03500: both outputs always -/
def mintOutputsOld (minted : Int) : List (String × Int) :=
  [("time_based_rewards", Supply.toTbr minted), ("fee_collector", Supply.quarter minted)]

end Layer.OracleBlock
