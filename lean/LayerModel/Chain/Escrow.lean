import LayerModel.Chain.Supply
import LayerModel.Base.Dec
/-
  Escrow ledgers (C04).
  * Oracle account vs. unpaid tips: x/oracle/keeper/msg_server_tip.go (tip → account and `query.Amount` grow by the
    tip minus the 2 % burn), aggregate.go/rewards.go (a round's aggregation pays `query.Amount` out to the tips
    escrow and removes the query), cycle_list.go `ClearOldqueries` (removes only queries with zero amount).
  * Tips escrow vs. selector credits: rewards.go `AllocateRewards` (moves the reward in), distribution.go
    `DivvyingTips` (credits, raw 10^-18 units), msg_server.go `WithdrawTip` (pays out the whole-loya part).
-/
namespace Layer.Escrow
open Layer

structure Oracle where
  bal : Int                         -- bank balance of the oracle module account
  queries : List (String × Int)     -- open queries: id ↦ unpaid tip
  deriving Repr

inductive OOp where
  | tip (q : String) (a : Int)      -- accepted MsgTip of amount a on query q
  | pay (q : String)                -- aggregation of q's round: its tip is paid out, the query removed
  | clear (q : String)              -- ClearOldqueries: removes q only if its amount is zero
  | open_ (q : String)              -- a query record created without tip (cycle-list rotation, deposit report)

def amountOf (qs : List (String × Int)) (q : String) : Int :=
  ((qs.filter (·.1 == q)).map (·.2)).sum

def total (qs : List (String × Int)) : Int := (qs.map (·.2)).sum

def ostep (s : Oracle) : OOp → Oracle
  | .tip q a =>
    let net := a - Supply.tipBurn a
    { bal := s.bal + net, queries := (q, net) :: s.queries }     -- entries of one id are summed by `amountOf`
  | .pay q => { bal := s.bal - amountOf s.queries q, queries := s.queries.filter (fun e => !(e.1 == q)) }
  | .clear q => if amountOf s.queries q = 0 then { s with queries := s.queries.filter (fun e => !(e.1 == q)) } else s
  | .open_ q => { s with queries := (q, 0) :: s.queries }

/-! ### tips escrow -/

structure Tips where
  bal : Int                         -- bank balance of tips_escrow_pool (loya)
  credits : List (String × Int)     -- SelectorTips (raw 10^-18 units), one entry per selector
  events : Nat                      -- number of credit events so far
  deriving Repr

def creditTotal (cs : List (String × Int)) : Int := (cs.map (·.2)).sum

inductive TOp where
  /-- `AllocateRewards` of `r` loya with the credits its `DivvyingTips` calls made -/
  | pay (r : Int) (cs : List (String × Int))
  /-- `WithdrawTip` by selector `sel` -/
  | withdraw (sel : String)

/-- what C09 guarantees about one payment: non-negative credits whose sum exceeds the reward by at most one raw
unit per credit -/
def validPay (r : Int) (cs : List (String × Int)) : Prop :=
  0 ≤ r ∧ (∀ c ∈ cs, 0 ≤ c.2) ∧ creditTotal cs ≤ r * Dec.prec + cs.length

def creditOf (cs : List (String × Int)) (sel : String) : Int := ((cs.filter (·.1 == sel)).map (·.2)).sum

/-- whole-loya part paid out by `WithdrawTip` (`shares.TruncateInt()`) -/
def payout (s : Tips) (sel : String) : Int := Dec.truncateInt (creditOf s.credits sel)

def tstep (s : Tips) : TOp → Tips
  | .pay r cs => { bal := s.bal + r, credits := cs ++ s.credits, events := s.events + cs.length }
  | .withdraw sel =>
    let amt := payout s sel
    -- the selector's entries are replaced by the fractional remainder
    { s with bal := s.bal - amt,
             credits := (sel, creditOf s.credits sel - amt * Dec.prec) :: s.credits.filter (fun e => !(e.1 == sel)) }

end Layer.Escrow
