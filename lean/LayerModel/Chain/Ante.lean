/-
  Model of x/reporter/ante/ante.go `TrackStakeChangesDecorator.AnteHandle` and of
  x/reporter/keeper/keeper.go `TrackStakeChange`.
  The loop is written as in the code: one pass over the messages, a running total of the
  increases and one of the decreases, the comparison after every staking message, rejection at the
  first failing comparison, other message types skipped.
-/
namespace Layer.Ante

/-- The staking messages the decorator knows.  `inc` stands for MsgCreateValidator, MsgDelegate,
MsgBeginRedelegate and MsgCancelUnbondingDelegation (all four use `msgAmount = amount`);
`undel` for MsgUndelegate (`msgAmount = -amount`); `other` for every other message type. -/
inductive Msg where
  | inc (a : Int)
  | undel (a : Int)
  | other
  deriving Repr, DecidableEq

/-- `msgAmount` as the switch computes it (`none` = `continue`). -/
def msgAmount : Msg → Option Int
  | .inc a => some a
  | .undel a => some (-a)
  | .other => none

def upper (base : Int) : Int := base + Int.tdiv base 20
def lower (base : Int) : Int := base - Int.tdiv base 20

/-- The loop body with the two running totals (`incT ≥ 0` side, `decT` the sum of the negative
amounts).  Returns `true` iff `next` is reached. -/
def loop (base bonded : Int) : (incT decT : Int) → List Msg → Bool
  | _, _, [] => true
  | incT, decT, m :: ms =>
    match msgAmount m with
    | none => loop base bonded incT decT ms
    | some a =>
      if a < 0 then
        let decT' := decT + a
        if bonded + decT' < lower base then false else loop base bonded incT decT' ms
      else
        let incT' := incT + a
        if bonded + incT' > upper base then false else loop base bonded incT' decT ms

/-- `tracker = none` is `collections.ErrNotFound`: the handler returns without error. -/
def handle (tracker : Option Int) (bonded : Int) (msgs : List Msg) : Bool :=
  match tracker with
  | none => true
  | some base => loop base bonded 0 0 msgs

/-- The per-message comparison of the code before the `fix:` commit (kept for the counterexample
theorem and for the failing-input search): every message is compared on its own. -/
def loopPerMsg (base bonded : Int) : List Msg → Bool
  | [] => true
  | m :: ms =>
    match msgAmount m with
    | none => loopPerMsg base bonded ms
    | some a =>
      if a < 0 then
        if bonded + a < lower base then false else loopPerMsg base bonded ms
      else
        if bonded + a > upper base then false else loopPerMsg base bonded ms

/-- Stake tracker: amount recorded and expiry (ns). -/
structure Tracker where
  amount : Int
  expiry : Int
  deriving Repr, DecidableEq

def twelveHours : Int := 12 * 3600 * 1000000000

/-- `TrackStakeChange` at block time `t` with current bonded total `bonded`
(`BlockTime().Before(expiry)` ⇒ unchanged). -/
def track (tr : Tracker) (t bonded : Int) : Tracker :=
  if t < tr.expiry then tr else { amount := bonded, expiry := t + twelveHours }

/-- Sum of the amounts of the stake-adding messages / of the undelegate messages. -/
def sumInc : List Msg → Int
  | [] => 0
  | .inc a :: ms => a + sumInc ms
  | _ :: ms => sumInc ms

def sumUndel : List Msg → Int
  | [] => 0
  | .undel a :: ms => a + sumUndel ms
  | _ :: ms => sumUndel ms

/-- every staking message carries a non-negative amount (what the messages' own validation
demands; a negative amount is rejected by the staking message server) -/
def amountsNonneg : List Msg → Prop
  | [] => True
  | .inc a :: ms => 0 ≤ a ∧ amountsNonneg ms
  | .undel a :: ms => 0 ≤ a ∧ amountsNonneg ms
  | .other :: ms => amountsNonneg ms

/-- The statement of C18 as a decidable monitor on one admission decision. -/
def boundsHold (base bonded : Int) (msgs : List Msg) : Bool :=
  decide (bonded + sumInc msgs ≤ upper base) && decide (bonded - sumUndel msgs ≥ lower base)

end Layer.Ante
