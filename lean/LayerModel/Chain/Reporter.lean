import LayerModel.Base.Dec
/-
  Model of the reporter module's stake accounting (C10):
    x/reporter/keeper/reporter.go   HasMin, ReporterStake (two iteration strategies), CheckSelectorsDelegations
    x/reporter/keeper/msg_server.go CreateReporter, SelectReporter, SwitchReporter, RemoveSelector, UnjailReporter
    x/reporter/keeper/jail.go       JailReporter, UnjailReporter
    x/reporter/keeper/hooks.go      delegation counter
  Staking state is an input (validators with status/tokens/shares, delegations with shares); amounts are loya,
  shares and exchange rates are `LegacyDec` raw values (Base/Dec.lean).
-/
namespace Layer.Reporter
open Layer

structure Val where
  name : String
  bonded : Bool
  tokens : Int
  shares : Int          -- DelegatorShares (Dec raw)
  deriving Repr, DecidableEq

structure Del where
  delegator : String
  validator : String
  shares : Int          -- Dec raw
  deriving Repr, DecidableEq

structure Sel where
  selector : String
  reporter : String
  lockedUntil : Int     -- ms
  count : Nat           -- DelegationsCount
  deriving Repr, DecidableEq

structure Rep where
  name : String
  jailed : Bool
  jailedUntil : Int
  minTokens : Int
  deriving Repr, DecidableEq

structure Params where
  maxSelectors : Nat
  minTrb : Int
  maxValidators : Nat
  unbondingMs : Int
  deriving Repr, DecidableEq

structure S where
  vals : List Val
  dels : List Del
  sels : List Sel
  reps : List Rep
  params : Params
  deriving Repr, DecidableEq

/-- `Validator.TokensFromShares(shares).TruncateInt()` -/
def tfs (v : Val) (shares : Int) : Int :=
  if v.shares = 0 then 0 else Dec.truncateInt (Dec.quo (Dec.mulInt shares v.tokens) v.shares)

/-- `Validator.TokensFromSharesTruncated(shares).TruncateInt()` -/
def tfsT (v : Val) (shares : Int) : Int :=
  if v.shares = 0 then 0 else Dec.truncateInt (Dec.quoTruncate (Dec.mulInt shares v.tokens) v.shares)

def findVal (vals : List Val) (n : String) : Option Val := vals.find? (·.name == n)
def findDel (dels : List Del) (v : String) : Option Del := dels.find? (·.validator == v)

/-- strategy A (`IterateDelegatorDelegations` + `IsBonded`): one term per delegation of the selector -/
def termA (f : Val → Int → Int) (vals : List Val) (d : Del) : Int :=
  match findVal vals d.validator with
  | some v => if v.bonded then f v d.shares else 0
  | none => 0

def stakeA (f : Val → Int → Int) (vals : List Val) (dsel : List Del) : Int := (dsel.map (termA f vals)).sum

/-- strategy B (`IterateBondedValidatorsByPower` + `GetDelegation`): one term per bonded validator -/
def termB (f : Val → Int → Int) (dsel : List Del) (v : Val) : Int :=
  if v.bonded then (match findDel dsel v.name with | some d => f v d.shares | none => 0) else 0

def stakeB (f : Val → Int → Int) (vals : List Val) (dsel : List Del) : Int := (vals.map (termB f dsel)).sum

def delsOf (s : S) (sel : String) : List Del := s.dels.filter (·.delegator == sel)

/-- bonded tokens of one selector as `ReporterStake` counts them (strategy chosen by the delegation counter) -/
def selStake (s : S) (x : Sel) : Int :=
  if x.count > s.params.maxValidators then stakeB tfsT s.vals (delsOf s x.selector) else stakeA tfs s.vals (delsOf s x.selector)

/-- `HasMin` / `CheckSelectorsDelegations`: bonded tokens of an address -/
def bondedOf (s : S) (a : String) : Int := stakeA tfs s.vals (delsOf s a)

def findRep (s : S) (r : String) : Option Rep := s.reps.find? (·.name == r)
def findSel (s : S) (a : String) : Option Sel := s.sels.find? (·.selector == a)
def selectorsOf (s : S) (r : String) : List Sel := s.sels.filter (·.reporter == r)

/-- the selectors counted for a reporter at time `now`: those not inside a lock period -/
def counted (s : S) (now : Int) (r : String) : List Sel := (selectorsOf s r).filter (fun x => !(decide (x.lockedUntil > now)))

/-- `ReporterStake`: `none` = error (unknown or jailed reporter) -/
def reporterStake (s : S) (now : Int) (r : String) : Option Int :=
  match findRep s r with
  | none => none
  | some rep => if rep.jailed then none else some (((counted s now r).map (selStake s)).sum)

/-- reporting power: whole tokens -/
def power (stake : Int) : Int := Int.tdiv stake 1000000

/-! ### messages (`none` = rejected) -/

def createReporter (s : S) (a : String) (minReq : Int) : Option S :=
  if s.params.minTrb > bondedOf s a then none
  else if minReq < s.params.minTrb then none
  else if (findSel s a).isSome then none
  else some { s with reps := s.reps ++ [⟨a, false, 0, minReq⟩], sels := s.sels ++ [⟨a, a, 0, (delsOf s a).length⟩] }

def selectReporter (s : S) (a r : String) : Option S :=
  if (findSel s a).isSome then none else
  match findRep s r with
  | none => none
  | some rep =>
    if (selectorsOf s r).length ≥ s.params.maxSelectors then none
    else if rep.minTokens > bondedOf s a then none
    else some { s with sels := s.sels ++ [⟨a, r, 0, (delsOf s a).length⟩] }

/-- `reported r` : the reporter has a stake snapshot (it has reported at some time) -/
def switchReporter (s : S) (now : Int) (reported : String → Bool) (a r : String) : Option S :=
  match findSel s a with
  | none => none
  | some x =>
    if x.reporter == a then none else
    match findRep s r with
    | none => none
    | some rep =>
      if (selectorsOf s r).length ≥ s.params.maxSelectors then none
      else if rep.minTokens > bondedOf s a then none
      else
        let lock := if reported x.reporter then now + s.params.unbondingMs else x.lockedUntil
        some { s with sels := s.sels.map (fun y => if y.selector == a then { y with reporter := r, lockedUntil := lock } else y) }

def removeSelector (s : S) (a : String) : Option S :=
  match findSel s a with
  | none => none
  | some x =>
    match findRep s x.reporter with
    | none => none
    | some rep =>
      if bondedOf s a ≥ rep.minTokens then none
      else if (selectorsOf s x.reporter).length ≤ s.params.maxSelectors then none
      else some { s with sels := s.sels.filter (fun y => !(y.selector == a)) }

def jail (s : S) (now : Int) (r : String) (durationS : Int) : Option S :=
  match findRep s r with
  | none => none
  | some rep => if rep.jailed then none else
    some { s with reps := s.reps.map (fun y => if y.name == r then { y with jailed := true, jailedUntil := now + durationS * 1000 } else y) }

def unjail (s : S) (now : Int) (r : String) : Option S :=
  match findRep s r with
  | none => none
  | some rep => if !rep.jailed then none else if now < rep.jailedUntil then none else
    some { s with reps := s.reps.map (fun y => if y.name == r then { y with jailed := false } else y) }

end Layer.Reporter
