import LayerModel.Base.Dec
/-
  Model of dispute settlement (C13):
    x/dispute/keeper/dispute.go   SetNewDispute (burn amount = 5 % of the fee)
    x/dispute/keeper/execute.go   ExecuteVote, RefundDisputeFee, RewardReporterBondToFeePayers
    x/dispute/keeper/msg_server_withdraw_fee_refund.go  WithdrawFeeRefund (dust accumulation and burn)
    x/dispute/keeper/claim_reward.go  CalculateReward
  Amounts are loya (Int); "fixed 12" values are loya·10^6.
-/
namespace Layer.Settle
open Layer

inductive Outcome where
  | support | against | invalid
  deriving Repr, DecidableEq

/-- `VoteResult` 1/4 support, 2/5 against, 3/6 invalid -/
def outcomeOf : Nat → Option Outcome
  | 1 | 4 => some .support | 2 | 5 => some .against | 3 | 6 => some .invalid | _ => none

/-- burn amount: 5 % of the dispute fee, truncated (`disputeFeeDec.Mul(1).Quo(20).TruncateInt()`) -/
def burnAmount (slash : Int) : Int :=
  Dec.truncateInt (Dec.quo (Dec.mul (Dec.ofInt slash) (Dec.ofInt 1)) (Dec.ofInt 20))

def halfBurn (burn : Int) : Int := Dec.truncateInt (Dec.quo (Dec.ofInt burn) (Dec.ofInt 2))

/-- what `ExecuteVote` does with the escrow (fees `slash` + escrowed stake `slash`): -/
structure Exec where
  burned : Int          -- burned at execution
  toReporter : Int      -- returned to the reporter's backers (their own stake, plus the fee for `against`)
  payerPot : Int        -- refund pot of the fee payers (fee minus burn)
  bondPot : Int         -- the reporter's bond handed to the fee payers (support)
  voterReward : Int
  deriving Repr, DecidableEq

/-- `burn` is the dispute's burn amount at execution: 5 % of the first round's fee plus the fees of all further rounds
(`roundFees`), which are burned or given to the voters on top (fix 26954c3: they are not subtracted a second time from what the
first round's fee is worth) -/
def execute (slash burn : Int) (anyVoter : Bool) (o : Outcome) (roundFees : Int := 0) : Exec :=
  let h := if anyVoter then halfBurn burn else burn
  let vr := if anyVoter then halfBurn burn else 0
  let burn0 := burn - roundFees
  match o with
  | .invalid => ⟨h, slash, slash - burn0, 0, vr⟩
  | .support => ⟨h, 0, slash - burn0, slash, vr⟩
  | .against => ⟨h, slash + (slash - burn0), 0, 0, vr⟩

/-- `fee·pot·10^6 / feeTotal` as LegacyDec (before truncation) -/
def share12Dec (fee pot feeTotal : Int) : Int :=
  Dec.quo (Dec.mul (Dec.mul (Dec.ofInt fee) (Dec.ofInt pot)) (Dec.ofInt 1000000)) (Dec.ofInt feeTotal)

/-- `RefundDisputeFee`: (loya paid, remainder in 10^-6 loya) -/
def refund (fee pot feeTotal : Int) : Int × Int :=
  let f12 := Dec.truncateInt (share12Dec fee pot feeTotal)
  (Int.tdiv f12 1000000, Int.tmod f12 1000000)

/-- `RewardReporterBondToFeePayers`: the paid amount truncates the *decimal* quotient, the remainder comes from the truncated fixed-12 value -/
def bondShare (fee bond feeTotal : Int) : Int × Int :=
  let d := share12Dec fee bond feeTotal
  (Dec.truncateInt (Dec.quo d (Dec.ofInt 1000000)), Int.tmod (Dec.truncateInt d) 1000000)

/-- dust: accumulated remainder, whole loya are burned -/
def settleDust (dust add : Int) : Int × Int :=   -- (burned loya, new dust)
  let r := dust + add
  let b := Dec.truncateInt (Dec.quo (Dec.ofInt r) (Dec.ofInt 1000000))
  if b = 0 then (0, r) else (b, Int.tmod r 1000000)

/-- `CalculateReward`: a voter's share of the voter reward over the groups that voted at all -/
def reward (voterReward : Int) (addrUser addrRep addrHolder globUser globRep globHolder : Int) : Option Int :=
  let groups : Int := (if globUser = 0 then 0 else 1) + (if globRep = 0 then 0 else 1) + (if globHolder = 0 then 0 else 1)
  if groups = 0 then none else
  let g := fun (x : Int) => if x = 0 then 1 else x
  let p := fun (a gl : Int) => Dec.quo (Dec.mul (Dec.ofInt a) (Dec.ofInt 1000000)) (Dec.ofInt (g gl))
  let total := p addrUser globUser + p addrRep globRep + p addrHolder globHolder
  some (Dec.truncateInt (Dec.quo (Dec.mul total (Dec.ofInt voterReward)) (Dec.mul (Dec.ofInt groups) (Dec.ofInt 1000000))))

end Layer.Settle
