/-
  Model of the authorisation layer (C19):
    * the SDK's signature check: a transaction is only executed when it is signed by the account named in the
      message's declared signer field (proto option cosmos.msg.v1.signer; table Gen.signerFields),
    * the `GetAuthority() != msg.Authority` guard at the top of the six privileged handlers (table Gen.authoritySites),
    * `UpdateTeam` (only the current team address), `RegisterSpec` (no replacement of a registered spec),
    * a failed message leaves no trace (the SDK runs every transaction on a branched store).
  Governed state: module parameters, cycle list, data specs, "minting started", snapshot limit, team address.
-/
namespace Layer.Authz

structure Gov where
  params : List (String × String)      -- module ↦ parameters
  cyclelist : List String
  specs : List (String × String)       -- query type ↦ spec
  mintStarted : Bool
  snapshotLimit : Nat
  team : String
  deriving Repr, DecidableEq

inductive Msg where
  | updateParams (module authority value : String)
  | updateCyclelist (authority : String) (list : List String)
  | updateDataSpec (authority queryType spec : String)
  | mintInit (authority : String)
  | updateSnapshotLimit (authority : String) (limit : Nat)
  | updateTeam (current new : String)
  | registerSpec (registrar queryType spec : String)
  | other (signer : String)                      -- every non-privileged message
  deriving Repr, DecidableEq

/-- the account named in the declared signer field -/
def Msg.signer : Msg → String
  | .updateParams _ a _ => a | .updateCyclelist a _ => a | .updateDataSpec a _ _ => a | .mintInit a => a
  | .updateSnapshotLimit a _ => a | .updateTeam c _ => c | .registerSpec r _ _ => r | .other s => s

def Msg.privileged : Msg → Bool
  | .updateParams .. | .updateCyclelist .. | .updateDataSpec .. | .mintInit .. | .updateSnapshotLimit .. => true
  | _ => false

def setKey (l : List (String × String)) (k v : String) : List (String × String) :=
  if l.any (·.1 == k) then l.map (fun p => if p.1 == k then (k, v) else p) else l ++ [(k, v)]

def lookup (l : List (String × String)) (k : String) : Option String := (l.find? (·.1 == k)).map (·.2)

/-- the handler proper; `none` = error -/
def handle (gov : String) (g : Gov) : Msg → Option Gov
  | .updateParams m a v => if a ≠ gov then none else some { g with params := setKey g.params m v }
  | .updateCyclelist a l => if a ≠ gov then none else if l.isEmpty then none else some { g with cyclelist := l }
  | .updateDataSpec a t s => if a ≠ gov then none else if (lookup g.specs t).isNone then none else some { g with specs := setKey g.specs t s }
  | .mintInit a => if a ≠ gov then none else if g.mintStarted then none else some { g with mintStarted := true }
  | .updateSnapshotLimit a n => if a ≠ gov then none else some { g with snapshotLimit := n }
  | .updateTeam c n => if c ≠ g.team then none else some { g with team := n }
  | .registerSpec _ t s => if (lookup g.specs t).isSome then none else some { g with specs := g.specs ++ [(t, s)] }
  | .other _ => some g

/-- one transaction: signature check against the declared signer, then the handler; any failure leaves the state as it was.
Returns the new state and whether the transaction was executed. -/
def step (gov : String) (g : Gov) (txSigner : String) (m : Msg) : Gov × Bool :=
  if txSigner ≠ m.signer then (g, false)
  else match handle gov g m with
    | some g' => (g', true)
    | none => (g, false)

def run (gov : String) (g : Gov) (txs : List (String × Msg)) : Gov :=
  txs.foldl (fun g t => (step gov g t.1 t.2).1) g

end Layer.Authz
