import LayerModel.Base.Bytes
/-
  Model of app/proposal_handler.go: the three `Check…FromLastCommit` derivations, `PrepareProposalHandler`
  (inject), `ProcessProposalHandler` (re-derive and compare with `reflect.DeepEqual`), `PreBlocker` (apply).
  A Go slice is `Option (List α)`: `none` is the nil slice, `some []` the empty non-nil slice — `DeepEqual`
  distinguishes them and `encoding/json` round-trips both shapes (`null` / `[]`).
  Environment (parameters): `hasEvm` (an EVM address is registered for the operator), `recover` (EVMAddressFromSignatures
  on two signatures of at least 64 bytes), `commitValid` (baseapp.ValidateVoteExtensions).
-/
namespace Layer.Proposal
open Layer

structure ExtData where
  sigA : Bytes
  sigB : Bytes
  valsetSig : Bytes
  valsetTs : Nat
  atts : List (Bytes × Bytes)       -- (snapshot, attestation)
  deriving Repr, DecidableEq

structure Vote where
  commit : Bool                      -- BlockIDFlagCommit
  operator : Option String           -- ValidatorOperatorAddressFromVote (none = lookup error)
  ext : Option ExtData               -- none = json.Unmarshal error
  deriving Repr, DecidableEq

structure Env where
  hasEvm : String → Bool
  recover : Bytes → Bytes → Option String

/-- a Go slice built by `append` from `var s []T`: nil while nothing was appended -/
def toSlice {α} (l : List α) : Option (List α) := if l.isEmpty then none else some l

structure InitLists where
  ops : Option (List String)
  evms : Option (List String)
  deriving Repr, DecidableEq

/-- the (operator, address) pairs `CheckInitialSignaturesFromLastCommit` appends, in vote order — the two slices are
appended to at the same program point (with the short-signature guard of fix 5ee174c) -/
def collectInit (env : Env) (votes : List Vote) : List (String × String) :=
  votes.filterMap (fun v =>
    if !v.commit then none else
    match v.ext with
    | none => none
    | some e =>
      if e.sigA.length = 0 then none
      else if e.sigA.length < 64 ∨ e.sigB.length < 64 then none
      else match env.recover e.sigA e.sigB with
        | none => none
        | some addr =>
          match v.operator with
          | none => none
          | some op => if env.hasEvm op then none else some (op, addr))

/-- `CheckInitialSignaturesFromLastCommit`: `if len(operatorAddresses) == 0 { return emptyStringArray, emptyStringArray }` -/
def deriveInit (env : Env) (votes : List Vote) : InitLists :=
  let c := collectInit env votes
  if c.isEmpty then ⟨some [], some []⟩ else ⟨some (c.map (·.1)), some (c.map (·.2))⟩

/-- Go's `int64(x)` for a `uint64` -/
def toInt64 (n : Nat) : Int := if n % 18446744073709551616 < 9223372036854775808 then (n % 18446744073709551616 : Nat) else ((n % 18446744073709551616 : Nat) : Int) - 18446744073709551616

structure ValsetLists where
  ops : Option (List String)
  tss : Option (List Int)          -- `int64(timestamp)`
  sigs : Option (List Bytes)
  deriving Repr, DecidableEq

def collectValset (votes : List Vote) : List (String × Nat × Bytes) :=
  votes.filterMap (fun v =>
    if !v.commit then none else
    match v.ext with
    | none => none
    | some e =>
      if e.valsetSig.length = 0 then none else
      match v.operator with
      | none => none
      | some op => some (op, e.valsetTs, e.valsetSig))

/-- `CheckValsetSignaturesFromLastCommit` -/
def deriveValset (votes : List Vote) : ValsetLists :=
  let c := collectValset votes
  ⟨toSlice (c.map (·.1)), toSlice (c.map (fun x => toInt64 x.2.1)), toSlice (c.map (·.2.2))⟩

structure AttLists where
  atts : Option (List Bytes)
  snaps : Option (List Bytes)
  ops : Option (List String)
  deriving Repr, DecidableEq

def collectAtts (votes : List Vote) : List (Bytes × Bytes × String) :=
  votes.flatMap (fun v =>
    if !v.commit then [] else
    match v.ext with
    | none => []
    | some e =>
      match v.operator with
      | none => []
      | some op => e.atts.map (fun sa => (sa.2, sa.1, op)))

/-- `CheckOracleAttestationsFromLastCommit` -/
def deriveAtts (votes : List Vote) : AttLists :=
  let c := collectAtts votes
  ⟨toSlice (c.map (·.1)), toSlice (c.map (·.2.1)), toSlice (c.map (·.2.2))⟩

/-- the injected transaction (`VoteExtTx` without the height) -/
structure Injected where
  init : InitLists
  valset : ValsetLists
  atts : AttLists
  commit : List Vote
  deriving Repr, DecidableEq

/-- `PrepareProposalHandler` above the enable height -/
def prepare (env : Env) (commit : List Vote) : Injected :=
  { init := deriveInit env commit, valset := deriveValset commit, atts := deriveAtts commit, commit := commit }

/-- `ProcessProposalHandler`: the commit validates and every list equals its re-derivation (DeepEqual) -/
def process (env : Env) (commitValid : List Vote → Bool) (inj : Injected) : Bool :=
  commitValid inj.commit &&
  decide (deriveInit env inj.commit = inj.init) &&
  decide (deriveValset inj.commit = inj.valset) &&
  decide (deriveAtts inj.commit = inj.atts)

/-- the registrations `PreBlocker` → `SetEVMAddresses` writes: pairs by position -/
def registrations (inj : Injected) : List (String × String) :=
  (inj.init.ops.getD []).zip (inj.init.evms.getD [])

/-- address recovery as the code performs it: slicing `sig[:64]` panics on a shorter signature -/
def recoverOrPanic (env : Env) (a b : Bytes) : Option (Option String) :=
  if a.length < 64 ∨ b.length < 64 then none else some (env.recover a b)

/-- `Keeper.SetOracleAttestation`: the signature is written at every index of `set` holding the signer's EVM address
(`OracleAttestations.SetAttestation` ignores indexes beyond the slot list).  After fix c849ea3 `set` is the validator set of
the checkpoint the snapshot commits to; before, it was the last saved set. -/
def placeAtt (set : List String) (slots : List Bytes) (addr : String) (sig : Bytes) : List Bytes :=
  slots.mapIdx (fun i s => if set[i]? = some addr then sig else s)

end Layer.Proposal
