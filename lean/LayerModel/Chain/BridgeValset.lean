/-
  Model of the bridge validator-set checkpoint chain (C16):
    x/bridge/keeper/keeper.go  GetCurrentValidatorsEVMCompatible, CompareAndSetBridgeValidators, PowerDiff,
                               LastSavedValidatorSetStale, SetBridgeValidatorParams, CalculateValidatorSetCheckpoint
    x/bridge/module.go         EndBlock
    evm/contracts/bridge/BlobstreamO.sol  updateValidatorSet, _checkValidatorSignatures
  Addresses are hex strings (byte order = string order for equal lengths); hashes are an abstract function.
-/
namespace Layer.Valset

structure BVal where
  addr : String
  power : Nat
  deriving Repr, DecidableEq

abbrev Set := List BVal

/-- a staking validator as the bridge sees it -/
structure SVal where
  operator : String
  tokens : Nat
  evm : Option String     -- registered EVM address
  bonded : Bool := true   -- staking status Bonded (`GetConsensusPower` is 0 otherwise)
  deriving Repr, DecidableEq

def vLe (a b : BVal) : Bool := a.power > b.power || (a.power == b.power && a.addr ≤ b.addr)

/-- `Validator.GetConsensusPower(10^6)`: `⌊tokens/10^6⌋` for a bonded validator, 0 otherwise -/
def consPower (v : SVal) : Nat := if v.bonded then v.tokens / 1000000 else 0

/-- a staking validator's bridge entry: needs a registered EVM address and non-zero consensus power -/
def toBVal (v : SVal) : Option BVal :=
  match v.evm with
  | none => none
  | some a => if consPower v = 0 then none else some ⟨a, consPower v⟩

/-- `GetCurrentValidatorsEVMCompatible`: `none` = "no validators found" -/
def currentSet (vals : List SVal) : Option Set :=
  let l := vals.filterMap toBVal
  if l.isEmpty then none else some (l.mergeSort vLe)

def totalPower (s : Set) : Nat := (s.map (·.power)).sum

def absI (x : Int) : Int := if x < 0 then -x else x

/-- the map of power changes built by `PowerDiff` (keys: addresses of either set; later entries of one address win) -/
def powerOf (s : Set) (a : String) : Int := (((s.filter (·.addr == a)).getLast?).map (fun v => (v.power : Int))).getD 0

def addrsOf (b c : Set) : List String := ((b.map (·.addr)) ++ (c.map (·.addr))).eraseDups

/-- Σ|Δpower| over the union of addresses (for sets without duplicate addresses) -/
def delta (b c : Set) : Int := ((addrsOf b c).map (fun a => absI (powerOf b a - powerOf c a))).sum

/-- `PowerDiff(b, c)`: `delta * 1e6 / totalPower(b)` (0 when the saved total is 0) -/
def powerDiff (b c : Set) : Int :=
  if totalPower b = 0 then 0 else Int.tdiv (delta b c * 1000000) (totalPower b)

def twoWeeksMs : Int := 14 * 24 * 3600 * 1000

structure Ckpt where
  ts : Nat              -- block time (ms)
  idx : Nat
  set : Set
  threshold : Nat
  slots : Nat           -- number of signature slots
  deriving Repr, DecidableEq

structure St where
  saved : Option Set := none
  ckpts : List Ckpt := []       -- chronological
  deriving Repr, DecidableEq

/-- `GetValidatorSetTimestampBefore(t)`: greatest checkpoint timestamp strictly below `t` (0 = error) -/
def tsBefore (s : St) (t : Int) : Nat :=
  ((s.ckpts.filter (fun c => (c.ts : Int) < t)).map (·.ts)).foldl max 0

/-- `LastSavedValidatorSetStale`: both sides use block time + 1 s; `none` = error -/
def stale (s : St) (blockMs : Nat) : Option Bool :=
  let bt : Int := blockMs + 1000
  let v := tsBefore s bt
  if v = 0 then none else some (decide ((v : Int) < bt - twoWeeksMs))

def newCkpt (s : St) (cur : Set) (blockMs : Nat) : St :=
  let idx := s.ckpts.length
  let slots := match s.ckpts.getLast? with
    | none => cur.length
    | some p => p.set.length
  { saved := some cur, ckpts := s.ckpts ++ [{ ts := blockMs, idx := idx, set := cur, threshold := totalPower cur * 2 / 3, slots := slots }] }

/-- the bridge end blocker (height > 1): `none` = error (the block fails).  With no EVM-registered validator of
non-zero power there is nothing to compare and the block goes on unchanged (fix 2nd of x/bridge/module.go). -/
def endBlock (s : St) (vals : List SVal) (blockMs : Nat) : Option St :=
  match currentSet vals with
  | none => some s
  | some cur =>
    match s.saved with
    | none => some (newCkpt s cur blockMs)
    | some last =>
      match stale s blockMs with
      | none => none
      | some st =>
        if last = cur ∧ !st then some s
        else if powerDiff last cur < 50000 ∧ !st then some s
        else some (newCkpt s cur blockMs)

/-! ### the contract's update rule -/

structure CState where
  checkpoint : String
  threshold : Nat
  ts : Nat
  deriving Repr, DecidableEq

/-- `_checkValidatorSignatures`: `sigs[i] = none` is the nil signature, `some b` a present signature that verifies
(`b = true`) or not; returns false on revert -/
def checkSigs (vals : Set) (sigs : List (Option Bool)) (thr : Nat) : Bool :=
  go vals sigs 0
where
  go : Set → List (Option Bool) → Nat → Bool
    | v :: vs, sg :: sgs, cum =>
      match sg with
      | none => go vs sgs cum
      | some false => false
      | some true => if cum + v.power ≥ thr then true else go vs sgs (cum + v.power)
    | _, _, cum => decide (cum ≥ thr)

/-- `updateValidatorSet(newHash, newThreshold, newTs, currentSet, sigs)` with abstract hashing:
`H.set` hashes an encoded validator set, `H.cp` the domain-separated (threshold, ts, setHash) -/
structure Hash where
  set : Set → String
  cp : Nat → Nat → String → String

def updateValidatorSet (H : Hash) (c : CState) (newSetHash : String) (newThr newTs : Nat) (cur : Set)
    (sigs : List (Option Bool)) : Option CState :=
  if cur.length ≠ sigs.length then none
  else if newTs < c.ts then none
  else if newThr = 0 then none
  else if H.cp c.threshold c.ts (H.set cur) ≠ c.checkpoint then none
  else if !checkSigs cur sigs c.threshold then none
  else some { checkpoint := H.cp newThr newTs newSetHash, threshold := newThr, ts := newTs }

/-- the contract state that corresponds to a chain checkpoint -/
def cstateOf (H : Hash) (k : Ckpt) : CState := { checkpoint := H.cp k.threshold k.ts (H.set k.set), threshold := k.threshold, ts := k.ts }

end Layer.Valset
