import LayerModel.Chain.OracleBlock
import LayerModel.Props.C12
import LayerModel.Chain.Unbond

/-!
# C02 — no accepted transaction sequence can make block processing fail

The whole-chain statement is decided by the chain-mode search (family `nohalt`: the real application,
every message type, hostile field values, block gaps from 1 ms to beyond 21 days; oracle: every block is
produced).  The theorems below cover the failure sites on the begin/end-block paths one by one — each
was a way to halt the chain at the pinned commit, found by that search and repaired (see known_findings.txt).
-/
namespace Layer.OracleBlock
open Layer

/-- **C02 (cycle list pointer).** Over any sequence of rotations and governance replacements (accepted or
rejected), starting from a non-empty list, the list stays non-empty and the current-query lookup of the end
blocker always succeeds — for every sequencer value, including one left beyond a shorter new list. -/
theorem C02_cyclelist_total (hasSpec : String → Bool) (ops : List Op) (c : Cycle) (h : c.list ≠ []) :
    (ops.foldl (step hasSpec) c).list ≠ [] ∧ (current (ops.foldl (step hasSpec) c)).isSome = true := by
  have cur : ∀ d : Cycle, d.list ≠ [] → (current d).isSome = true := by
    intro d hd
    have hl : 0 < d.list.length := List.length_pos_iff.mpr hd
    unfold current
    split
    · simp [List.getElem?_eq_getElem hl]
    · rename_i hlt; simp [List.getElem?_eq_getElem (by omega : d.seq < d.list.length)]
  have stp : ∀ (d : Cycle) (op : Op), d.list ≠ [] → (step hasSpec d op).list ≠ [] := by
    intro d op hd
    cases op with
    | rotate => simp only [step, rotate]; split <;> exact hd
    | update l =>
      simp only [step, update]
      split
      · exact hd
      · rename_i hc
        intro hnil
        have hl : l = [] := hnil
        subst hl
        simp at hc
  have inv : ∀ (ops : List Op) (d : Cycle), d.list ≠ [] → (ops.foldl (step hasSpec) d).list ≠ [] := by
    intro ops
    induction ops with
    | nil => intro d hd; exact hd
    | cons op ops ih => intro d hd; exact ih _ (stp d op hd)
  exact ⟨inv ops c h, cur _ (inv ops c h)⟩

/-- **C02 (counterexample before fix 82aad11).** Three entries, pointer at 2, replaced by one entry: the
unclamped lookup is out of range. -/
theorem C02_cyclelist_shrink_counterexample :
    currentOld { list := ["q"], seq := 2 } = none ∧ (current { list := ["q"], seq := 2 }).isSome = true := by decide

theorem ofHexChars_all_hex : ∀ (cs : List Char) (bs : Bytes), Bytes.ofHexChars cs = some bs →
    ∀ c ∈ cs, (Bytes.nibble? c).isSome = true
  | [], _, _, c, hc => by simp at hc
  | [_], _, h, _, _ => by simp [Bytes.ofHexChars] at h
  | a :: b :: rest, bs, h, c, hc => by
    simp only [Bytes.ofHexChars] at h
    cases ha : Bytes.nibble? a with
    | none => simp [ha] at h
    | some x =>
      cases hb : Bytes.nibble? b with
      | none => simp [ha, hb] at h
      | some y =>
        cases hr : Bytes.ofHexChars rest with
        | none => simp [ha, hb, hr] at h
        | some r =>
          simp only [List.mem_cons] at hc
          rcases hc with rfl | rfl | hc
          · simp [ha]
          · simp [hb]
          · exact ofHexChars_all_hex rest r hr c hc

theorem foldl_hex_isSome : ∀ (cs : List Char), (∀ c ∈ cs, (Bytes.nibble? c).isSome = true) → ∀ acc : Nat,
    (cs.foldl (fun acc c => do let a ← acc; let d ← Agg.hexDigit? c; pure (a * 16 + d)) (some acc)).isSome = true
  | [], _, _ => rfl
  | c :: cs, h, acc => by
    have hc := h c (by simp)
    cases hd : Bytes.nibble? c with
    | none => simp [hd] at hc
    | some d =>
      simp only [List.foldl_cons, Agg.hexDigit?, hd]
      exact foldl_hex_isSome cs (fun x hx => h x (by simp [hx])) _

/-- **C02 (an accepted value always parses at aggregation time).** Whatever hex string `SubmitValue` accepts
(optional `0x`/`0X` prefix, at least one byte), the weighted median's base-16 parse of the stored value
succeeds — so the oracle end blocker cannot fail with "failed to parse value". -/
theorem C02_accepted_value_parses (v : String) (h : accepted v = true) :
    (Agg.parseHex (Agg.strip0x v)).isSome = true := by
  unfold accepted at h
  cases hb : Bytes.ofHex? (Agg.strip0x v) with
  | none => simp [hb] at h
  | some bs =>
    simp only [hb] at h
    have hne : bs ≠ [] := by intro e; simp [e] at h
    unfold Bytes.ofHex? at hb
    have hall := ofHexChars_all_hex _ _ hb
    unfold Agg.parseHex
    cases hl : (Agg.strip0x v).toList with
    | nil => rw [hl] at hb; simp [Bytes.ofHexChars] at hb; exact absurd hb.symm (fun e => hne e.symm)
    | cons c cs =>
      rw [hl] at hall
      have hc := hall c (by simp)
      have hminus : c ≠ '-' := by intro e; subst e; simp [Bytes.nibble?] at hc
      have hplus : c ≠ '+' := by intro e; subst e; simp [Bytes.nibble?] at hc
      have : (Agg.hexNat? (c :: cs)).isSome = true := by
        unfold Agg.hexNat?
        exact foldl_hex_isSome (c :: cs) hall 0
      split
      · rename_i heq; injection heq with e1 _; exact absurd e1 hminus
      · rename_i heq; injection heq with e1 _; exact absurd e1 hplus
      · simpa using this

/-- **C02 (counterexample before fix a90eb09).** `0x0a` is accepted but the unstripped parse fails. -/
theorem C02_value_0x_counterexample : accepted "0x0a" = true ∧ Agg.parseHex "0x0a" = none := by decide

/-- **C02 (mint outputs).** For every positive provision every output handed to the bank module carries a
positive amount, and together they are the provision (so `InputOutputCoins` is never given empty coins). -/
theorem C02_mint_outputs_positive (minted : Int) (h : 0 < minted) :
    (∀ o ∈ mintOutputs minted, 0 < o.2) ∧ ((mintOutputs minted).map (·.2)).sum = minted := by
  unfold mintOutputs Supply.toTbr Supply.quarter
  have hq : Int.tdiv minted 4 = minted / 4 := Int.tdiv_eq_ediv_of_nonneg (by omega)
  rw [hq]
  split
  · constructor
    · intro o ho; simp at ho; rcases ho with rfl | rfl <;> simp <;> omega
    · simp
  · constructor
    · intro o ho; simp at ho; subst ho; simp; omega
    · simp; omega

/-- **C02 (counterexample before fix 3e03500).** A provision of 3 loya (block gap 2 ms) produced an output of
zero coins, which the bank module rejects — the begin blocker failed. -/
theorem C02_mint_zero_quarter_counterexample : ∃ o ∈ mintOutputsOld 3, o.2 = 0 := ⟨("fee_collector", 0), by decide, rfl⟩

/-- **C02 (the dispute begin-blocker's tally cannot fail).** Restated from C12. -/
theorem C02_tally_total (x : Tally.Input) (h : x.periodEnded = true) : ∃ r resolved, Tally.tally x = .tallied r resolved :=
  Tally.C12_tally_total x h

end Layer.OracleBlock


namespace Layer.Unbond

/-- **C02 (returning escrowed stake cannot fail in the begin blocker).** Whatever became of the validator an escrow entry came from —
removed, jailed, tombstoned, slashed to zero tokens with shares left — the validator the stake is re-delegated to accepts the
delegation, as long as the fallback (the first bonded validator) does. -/
theorem C02_return_target_accepts (orig : Option Val) (fallback : Val) (h : invalidExRate fallback = false) :
    invalidExRate (returnTarget orig fallback) = false := by
  unfold returnTarget
  cases orig with
  | none => exact h
  | some v =>
    by_cases hv : invalidExRate v = true
    · simp [hv, h]
    · simp [hv]

/-- a bonded validator carries voting power, hence tokens: it always accepts -/
theorem C02_bonded_accepts (v : Val) (h : 0 < v.tokens) : invalidExRate v = false := by
  unfold invalidExRate
  have : (v.tokens == 0) = false := by simp; omega
  simp [this]

/-- **C02 (counterexample before the fix).** A validator whose stake was escrowed by a major dispute and whose remaining 6 000 002
loya were burned by double-sign evidence keeps its shares: the old target is that validator, and the delegation — made from the
dispute module's begin blocker when the dispute ends invalid — is refused, which fails the block. -/
theorem C02_return_target_counterexample :
    invalidExRate (returnTargetOld (some ⟨0, 6000002000000000000000000⟩) ⟨1003662191, 1003662191000000000000000000⟩) = true ∧
    invalidExRate (returnTarget (some ⟨0, 6000002000000000000000000⟩) ⟨1003662191, 1003662191000000000000000000⟩) = false := by decide

end Layer.Unbond
