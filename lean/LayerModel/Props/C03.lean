import LayerModel.Chain.Supply
import LayerModel.Gen.Formulas
import LayerModel.Gen.MintBurnSites
import LayerModel.Gen.MaccPerms

/-!
# C03 — token supply changes only by the documented, exactly quantified events

Model: `Layer.Supply.block` — the mint begin-blocker and the documented supply events of a block.
The frame condition ("every other operation leaves total supply unchanged") is the correspondence run:
the real application's total supply after every block of generated histories (all message types) must
equal the model's prediction from the documented events alone; the call-site table below shows which
functions can mint or burn at all.
-/
namespace Layer.Supply

/-- **C03 (formulas are the code's).** Block provision and tip burn as regenerated from the source. -/
theorem C03_formulas :
    (∀ c p, provision c p = Layer.Gen.mintProvision c p) ∧ (∀ a, tipBurn a = Layer.Gen.tipBurn a) :=
  ⟨fun _ _ => rfl, fun _ => rfl⟩

/-- **C03 (no minting before governance starts it; none in the first block after).** -/
theorem C03_no_mint_before_init (m : Mint) (t : Int) :
    (m.init = false → (beginBlock m t).1 = 0 ∧ (beginBlock m t).2 = m) ∧
    (m.prev = none → (beginBlock m t).1 = 0) := by
  constructor
  · intro h; simp [beginBlock, h]
  · intro h; unfold beginBlock; split <;> simp [h]

/-- **C03 (split).** Three quarters (the remainder after the truncated quarter) go to the reporter reward
pool and one quarter to the fee pool; together exactly the minted amount. -/
theorem C03_mint_split (minted : Int) : toTbr minted + quarter minted = minted := by
  unfold toTbr; omega

/-- one block never mints more than the daily rate times the elapsed time (in exact arithmetic:
`msPerDay · 10^6 · minted ≤ rate · Δns`) -/
theorem provision_le (c p : Int) (h : p ≤ c) :
    msPerDay * 1000000 * provision c p ≤ dailyMintRate * (c - p) := by
  unfold provision msPerDay dailyMintRate
  have h1 : Int.tdiv (c - p) 1000000 = (c - p) / 1000000 := Int.tdiv_eq_ediv_of_nonneg (by omega)
  rw [h1]
  have h2 : Int.tdiv (146940000 * ((c - p) / 1000000)) 86400000 = (146940000 * ((c - p) / 1000000)) / 86400000 :=
    Int.tdiv_eq_ediv_of_nonneg (by omega)
  rw [h2]
  omega

theorem provision_nonneg (c p : Int) (h : p ≤ c) : 0 ≤ provision c p := by
  unfold provision msPerDay dailyMintRate
  have h1 : Int.tdiv (c - p) 1000000 = (c - p) / 1000000 := Int.tdiv_eq_ediv_of_nonneg (by omega)
  rw [h1, Int.tdiv_eq_ediv_of_nonneg (by omega)]
  omega

/-- total minted over a sequence of block times, starting from minter `m` -/
def mintedOver : Mint → List Int → Int
  | _, [] => 0
  | m, t :: ts => (beginBlock m t).1 + mintedOver (beginBlock m t).2 ts

/-- **C03 (inflation bound).** Over any sequence of non-decreasing block times after the minter's previous
block time `p`, cumulative minting never exceeds the daily rate times the elapsed time — for every number of
blocks and every spacing (sub-millisecond gaps mint nothing, truncation only loses). -/
theorem C03_inflation_bound (ts : List Int) : ∀ (m : Mint) (p : Int), m.prev = some p →
    (List.Pairwise (· ≤ ·) (p :: ts)) →
    msPerDay * 1000000 * mintedOver m ts ≤ dailyMintRate * ((p :: ts).getLast (by simp) - p) := by
  induction ts with
  | nil => intro m p _ _; simp [mintedOver]
  | cons t ts ih =>
    intro m p hp hs
    have hpt : p ≤ t := (List.pairwise_cons.mp hs).1 t (by simp)
    have hs' : List.Pairwise (· ≤ ·) (t :: ts) := (List.pairwise_cons.mp hs).2
    have hlast : p ≤ (t :: ts).getLast (by simp) := (List.pairwise_cons.mp hs).1 _ (List.getLast_mem _)
    have hlast_t : t ≤ (t :: ts).getLast (by simp) := by
      rcases ts with _ | ⟨u, us⟩
      · simp
      · exact (List.pairwise_cons.mp hs').1 _ (List.getLast_mem _)
    by_cases hi : m.init = true
    · have hb : beginBlock m t = (provision t p, { m with prev := some t }) := by
        have : ¬ t < p := by omega
        simp [beginBlock, hi, hp, this]
      have ih' := ih { m with prev := some t } t rfl hs'
      simp only [mintedOver, hb]
      have h1 := provision_le t p hpt
      have e : (p :: t :: ts).getLast (by simp) = (t :: ts).getLast (by simp) := by simp [List.getLast_cons]
      rw [e]
      unfold msPerDay dailyMintRate at *
      omega
    · have hi' : m.init = false := by simpa using hi
      have hb : beginBlock m t = (0, m) := by simp [beginBlock, hi']
      -- not initialised: nothing is minted now, and the minter is unchanged
      have ih' := ih m p hp (by
        refine List.pairwise_cons.mpr ⟨fun a ha => ?_, (List.pairwise_cons.mp hs').2⟩
        exact (List.pairwise_cons.mp hs).1 a (by simp [ha]))
      simp only [mintedOver, hb]
      have e : (p :: t :: ts).getLast (by simp) = (t :: ts).getLast (by simp) := by simp [List.getLast_cons]
      rw [e]
      rcases ts with _ | ⟨u, us⟩
      · simp [mintedOver]; unfold dailyMintRate; omega
      · have e2 : (p :: u :: us).getLast (by simp) = (t :: u :: us).getLast (by simp) := by simp [List.getLast_cons]
        rw [e2] at ih'
        simpa using ih'

/-- **C03 (supply step).** The supply after a block is the supply before plus the block provision plus the
documented deltas of the block's events — nothing else enters the model's ledger. -/
theorem C03_supply_step (s : St) (t : Int) (evs : List Ev) :
    (block s t evs).1.supply = s.supply + (beginBlock s.mint t).1 + (evs.map evDelta).sum := by
  simp [block]; omega

/-- every call site of `MintCoins` / `BurnCoins` in the consensus packages at the verified commit:
mint — `ClaimDeposit` (bridge) and the mint begin-blocker (through `Keeper.MintCoins`);
burn — `WithdrawTokens` (bridge), `ExecuteVote` ×3 and `WithdrawFeeRefund` (dispute), `transfer` (oracle tip). -/
def expectedMintBurnSites : List (List String) := [

  ["x/bridge/keeper/claim_deposit.go", "Keeper.ClaimDeposit", "MintCoins", "k.bankKeeper", "bridge"],
  ["x/bridge/keeper/withdraw_tokens.go", "Keeper.WithdrawTokens", "BurnCoins", "k.bankKeeper", "bridge"],
  ["x/dispute/keeper/execute.go", "Keeper.ExecuteVote", "BurnCoins", "k.bankKeeper", "dispute"],
  ["x/dispute/keeper/execute.go", "Keeper.ExecuteVote", "BurnCoins", "k.bankKeeper", "dispute"],
  ["x/dispute/keeper/execute.go", "Keeper.ExecuteVote", "BurnCoins", "k.bankKeeper", "dispute"],
  ["x/dispute/keeper/msg_server_withdraw_fee_refund.go", "msgServer.WithdrawFeeRefund", "BurnCoins", "k.bankKeeper", "dispute"],
  ["x/mint/abci.go", "MintBlockProvision", "MintCoins", "k", "toMintCoins"],
  ["x/mint/keeper/keeper.go", "Keeper.MintCoins", "MintCoins", "k.bankKeeper", "mint"],
  ["x/oracle/keeper/tip.go", "Keeper.transfer", "BurnCoins", "k.bankKeeper", "oracle"]
]

/-- **C03 (mint/burn call sites).** Regenerated from the source on every run: a new place that mints or
burns, or one that moved to another module account, fails here. -/
theorem C03_sites : Layer.Gen.mintBurnSites = expectedMintBurnSites := rfl

def expectedMaccPerms : List (List String) := [

  ["bonded_tokens_pool", "burner staking"],
  ["bridge", "burner minter"],
  ["dispute", "burner minter staking"],
  ["distribution", ""],
  ["fee_collector", ""],
  ["gov", "burner"],
  ["interchainaccounts", ""],
  ["interchainquery", ""],
  ["mint", "minter"],
  ["not_bonded_tokens_pool", "burner staking"],
  ["oracle", "burner minter staking"],
  ["reporter", ""],
  ["time_based_rewards", ""],
  ["tips_escrow_pool", ""],
  ["transfer", "burner minter"]
]

/-- **C03 (module-account permissions).** The permission table of app/app.go, constants resolved. -/
theorem C03_macc_perms : Layer.Gen.maccPerms = expectedMaccPerms := rfl

/-- non-vacuity: two blocks 1.5 s apart after initialisation mint ⌊146940000·1500/86400000⌋ = 2551 -/
example : (beginBlock { init := true, prev := some 1000000000 } 2500000000).1 = 2551 := by decide

end Layer.Supply
