import LayerModel.Lemmas.Aggregate

/-!
# C06 — the aggregate is the true weighted median / weighted mode of the reports

Model: `Layer.Agg.weightedMedian`, `Layer.Agg.weightedMode` (Chain/Aggregate.lean).
`val r` is the numeric value of a report (`big.Int.SetString(value, 16)`), `psum` the total power,
`powerBelow rs a` / `powerUpTo rs a` the power of the reports with value `< a` / `≤ a`.
-/
namespace Layer.Agg

/-- well-formed round: non-empty, every value parses base-16, every power ≥ 1 (minimum stake),
total power below 2^63 (reporters are distinct by the store key; the model does not need it). -/
structure WF (rs : List Report) : Prop where
  ne : rs ≠ []
  parse : ∀ r ∈ rs, (parseHex (strip0x r.value)).isSome = true
  pos : ∀ r ∈ rs, 1 ≤ r.power
  total : psum rs < 2^63

def aggVal (a : Aggregate) : Int := (parseHex a.value).getD 0

/-- **C06 (weighted median), all parts.** For every well-formed round the median aggregate exists and
* is a reported value (recorded without an optional `0x` prefix), names a reporter who reported it
  (and that report's block height),
* reports with strictly smaller values hold at most half of the total power,
* reports with values up to and including it hold at least half,
* records the sum of all powers,
* lists every report exactly once (a permutation of the input),
* its index points at the named reporter inside that list,
* and it is the *least* reported value whose cumulative power reaches half. -/
theorem C06_median_full (rs : List Report) (wf : WF rs) :
    ∃ agg, weightedMedian rs = some agg ∧
      (∃ r ∈ rs, strip0x r.value = agg.value ∧ r.reporter = agg.reporter ∧ r.block = agg.microHeight) ∧
      2 * powerBelow rs (aggVal agg) ≤ psum rs ∧
      2 * powerUpTo rs (aggVal agg) ≥ psum rs ∧
      agg.power = psum rs ∧
      agg.reporters.Perm (rs.map toAggReporter) ∧
      (agg.reporters[agg.index]?).map (·.reporter) = some agg.reporter ∧
      (∀ r' ∈ rs, 2 * powerUpTo rs (val r') ≥ psum rs → aggVal agg ≤ val r') := by
  obtain ⟨pre, r, post, hs, hmed, hlt, hge⟩ := median_spec rs wf.ne wf.parse wf.total
  have hperm := sortByVal_perm rs
  have hsorted := sortByVal_sorted rs
  have hrmem : r ∈ rs := hperm.subset (by rw [hs]; simp)
  refine ⟨_, hmed, ⟨r, hrmem, rfl, rfl, rfl⟩, ?_, ?_, rfl, ?_, ?_, ?_⟩
  · show 2 * powerBelow rs (val r) ≤ psum rs
    rw [hs] at hsorted
    have h2 : powerBelow rs (val r) ≤ psum pre := by
      rw [← powerBelow_perm hperm, hs]; exact below_le_pre hsorted
    rcases hlt with rfl | hlt
    · simp [psum] at h2; omega
    · omega
  · show 2 * powerUpTo rs (val r) ≥ psum rs
    rw [hs] at hsorted
    have h2 : psum pre + r.power ≤ powerUpTo rs (val r) := by
      rw [← powerUpTo_perm hperm, hs]; exact upto_ge_pre hsorted
    omega
  · exact hperm.map _
  · simp [hs, toAggReporter]
  · exact median_least hs wf.pos hlt

/-- **C06 (order independence of the median value).** Two arrival orders of the same multiset of
reports give aggregates with the same numeric value. -/
theorem C06_median_perm_invariant (rs rs' : List Report) (wf : WF rs) (hp : rs.Perm rs') :
    ∃ a a', weightedMedian rs = some a ∧ weightedMedian rs' = some a' ∧ aggVal a = aggVal a' := by
  have wf' : WF rs' := ⟨fun h => wf.ne (by simpa [h] using hp.length_eq),
    fun r hr => wf.parse r (hp.symm.subset hr), fun r hr => wf.pos r (hp.symm.subset hr),
    by rw [← psum_perm hp]; exact wf.total⟩
  obtain ⟨a, ha, ⟨r, hr, hrv, _, _⟩, _, hup, _, _, _, hleast⟩ := C06_median_full rs wf
  obtain ⟨a', ha', ⟨r', hr', hrv', _, _⟩, _, hup', _, _, _, hleast'⟩ := C06_median_full rs' wf'
  refine ⟨a, a', ha, ha', ?_⟩
  have e1 : aggVal a = val r := by simp [aggVal, val, hrv]
  have e2 : aggVal a' = val r' := by simp [aggVal, val, hrv']
  have h1 := hleast r' (hp.symm.subset hr') (by
    rw [powerUpTo_perm hp, psum_perm hp, ← e2]; exact hup')
  have h2 := hleast' r (hp.subset hr) (by
    rw [← powerUpTo_perm hp, ← psum_perm hp, ← e1]; exact hup)
  omega

/-- non-vacuity: a concrete well-formed round with an exact half-power boundary -/
example : WF [⟨"a", "0a", 2, 5⟩, ⟨"b", "3", 1, 5⟩, ⟨"c", "ff", 1, 6⟩] := by
  refine ⟨by simp, ?_, ?_, ?_⟩
  · intro r hr; simp at hr; rcases hr with rfl | rfl | rfl <;> rfl
  · intro r hr; simp at hr; rcases hr with rfl | rfl | rfl <;> simp
  · simp [psum]

/-- **C06 (weighted mode: maximal power).** Whatever order the keys are scanned in, as long as the
scan visits every reported value, no reported value has more total power than the chosen one. -/
theorem C06_mode_max_weight (rs : List Report) (ord : List String)
    (hcover : ∀ r ∈ rs, r.value ∈ ord) :
    ∀ r ∈ rs, weight rs r.value ≤ weight rs (modeWith rs ord) ∨ modeWith rs ord = "" := by
  intro r hr
  have hmax := modeScan_max (weight rs) ord (0, "") r.value (hcover r hr)
  rcases modeScan_consistent (weight rs) ord (0, "") (Or.inr rfl) with h | h
  · left; unfold modeWith; omega
  · right; unfold modeWith; rw [h]

/-- the source scans the reports' own values, which covers every reported value -/
theorem C06_mode_max_weight_src (rs : List Report) :
    ∀ r ∈ rs, weight rs r.value ≤ weight rs (modeWith rs (rs.map (·.value))) ∨
      modeWith rs (rs.map (·.value)) = "" :=
  C06_mode_max_weight rs _ (fun r hr => List.mem_map.mpr ⟨r, hr, rfl⟩)

/-- **C06 (mode bookkeeping).** The mode aggregate records the sum of all powers (mod 2^64, exact
below 2^64) and lists every report exactly once, in arrival order. -/
theorem C06_mode_bookkeeping (rs : List Report) (ord : List String) (hne : rs ≠ []) :
    ∃ agg, weightedModeWith rs ord = some agg ∧ agg.power = psum rs % 2^64 ∧
      agg.reporters = rs.map toAggReporter := by
  have : rs.isEmpty = false := by cases rs <;> simp_all
  refine ⟨mkMode rs (modeWith rs ord), by simp [weightedModeWith, this], ?_, ?_⟩ <;>
  · unfold mkMode; split <;> simp [psum]

end Layer.Agg
