import Mathlib.Tactic.Ring
import LayerModel.Chain.Tally
import LayerModel.Chain.Lifecycle
import LayerModel.Gen.Formulas

/-!
# C12 — dispute lifecycle, voting power and tally follow the specified rules (tally part)

Model: `Layer.Tally.tally` (`TallyVote` + `UpdateDispute`'s choice), `Layer.Tally.ratio` (`Ratio`).
The lifecycle / vote-accounting theorems live with the dispute state machine (`Props/C12Life.lean`).
-/
namespace Layer.Tally
open Layer

/-- **C12 (the quorum-share formula is the code's).** `Ratio` as regenerated from
x/dispute/keeper/tally.go on every run (with `total = total.MulRaw(4)` followed through). -/
theorem C12_ratio_formula (total part : Int) (h : total ≠ 0) :
    ratio total part = Dec.truncateInt (Layer.Gen.ratio total part powerReduction) := by
  simp [ratio, h, Layer.Gen.ratio]

/-- **C12 (the tally is decided for every vote distribution).** Once the voting period has ended the
tally produces a result for every input — every combination of group counts (ties included), totals
(zero included), team vote and supply. -/
theorem C12_tally_total (x : Input) (h : x.periodEnded = true) : ∃ r resolved, tally x = .tallied r resolved := by
  unfold tally
  simp only [h, ↓reduceIte]
  repeat' split
  all_goals exact ⟨_, _, rfl⟩

/-- **C12 (the choice rule).** The recorded result is the strict maximum of the three scaled sums; when no
choice is a strict maximum (the leaders tie) the round is decided as invalid. -/
theorem C12_pick_spec (s a i : Int) (q : Bool) :
    (s > a ∧ s > i → pick s a i q = if q then .support else .nqSupport) ∧
    (a > s ∧ a > i → pick s a i q = if q then .against else .nqAgainst) ∧
    (¬ (s > a ∧ s > i) ∧ ¬ (a > s ∧ a > i) → pick s a i q = if q then .invalid else .nqInvalid) := by
  refine ⟨fun h => ?_, fun h => ?_, fun h => ?_⟩
  · simp [pick, h]
  · have : ¬ (s > a ∧ s > i) := by omega
    simp [pick, this, h]
  · simp [pick, h.1, h.2]

/-- **C12 (counterexample for the code before fix d00fbe3).** Two equal opposite weights: the old choice
rule returns the error "no majority" — from the dispute begin-blocker this failed the block. -/
theorem C12_tally_tie_counterexample : pickOld 500000 500000 0 false = none := by decide

/-- the new rule extends the old one: wherever the old rule decided, the result is unchanged -/
theorem C12_pick_extends_old (s a i : Int) (q : Bool) (r : Result) (h : pickOld s a i q = some r) :
    pick s a i q = r := by
  unfold pickOld at h
  unfold pick
  by_cases h1 : s > a ∧ s > i
  · simp only [h1, and_self, ↓reduceIte, Option.some.injEq] at h ⊢; exact h
  · by_cases h2 : a > s ∧ a > i
    · simp only [h1, h2, and_self, ↓reduceIte, Option.some.injEq] at h ⊢; exact h
    · by_cases h3 : i > s ∧ i > a
      · simp only [h1, h2, h3, and_self, ↓reduceIte, Option.some.injEq] at h ⊢; exact h
      · simp [h1, h2, h3] at h

theorem addGroup_ratio (acc : Acc) (c : Counts) : (addGroup acc c).ratio = acc.ratio := by
  unfold addGroup; split <;> rfl

theorem pick_quorum (s a i : Int) : pick s a i true = .support ∨ pick s a i true = .against ∨ pick s a i true = .invalid := by
  unfold pick; simp only [↓reduceIte]; repeat' split
  all_goals simp

theorem pick_noquorum (s a i : Int) : pick s a i false ≠ .support ∧ pick s a i false ≠ .against ∧ pick s a i false ≠ .invalid := by
  unfold pick; simp only [Bool.false_eq_true, ↓reduceIte]; repeat' split
  all_goals simp

/-- **C12 (quorum is 51 % of the four 25 % group weights).** A quorum result is recorded exactly when the
accumulated share — team 25·10^6 if it voted, plus `Ratio` of each group that is counted — reaches
51·10^6, first without and then with the token holders. -/
theorem C12_quorum_iff (x : Input) :
    let r1 := (teamAcc x.team).ratio + (if x.users.sum > 0 then ratio x.totalTips x.users.sum else 0) +
              ratio x.totalPower x.reporters.sum
    let r2 := r1 + ratio x.supply x.holders.sum
    (r1 ≥ quorumLine ∨ r2 ≥ quorumLine) ↔
      ∃ r, tally x = .tallied r true ∧ (r = .support ∨ r = .against ∨ r = .invalid) := by
  intro r1 r2
  unfold tally
  simp only [addGroup_ratio]
  by_cases h1 : r1 ≥ quorumLine
  · have h1' : (teamAcc x.team).ratio + (if x.users.sum > 0 then ratio x.totalTips x.users.sum else 0) +
        ratio x.totalPower x.reporters.sum ≥ quorumLine := h1
    simp only [h1', ↓reduceIte]
    exact ⟨fun _ => ⟨_, rfl, pick_quorum _ _ _⟩, fun _ => Or.inl h1⟩
  · have h1' : ¬ ((teamAcc x.team).ratio + (if x.users.sum > 0 then ratio x.totalTips x.users.sum else 0) +
        ratio x.totalPower x.reporters.sum ≥ quorumLine) := h1
    simp only [h1', ↓reduceIte]
    by_cases h2 : r2 ≥ quorumLine
    · have h2' : (teamAcc x.team).ratio + (if x.users.sum > 0 then ratio x.totalTips x.users.sum else 0) +
          ratio x.totalPower x.reporters.sum + ratio x.supply x.holders.sum ≥ quorumLine := h2
      simp only [h2', ↓reduceIte]
      exact ⟨fun _ => ⟨_, rfl, pick_quorum _ _ _⟩, fun _ => Or.inr h2⟩
    · have h2' : ¬ ((teamAcc x.team).ratio + (if x.users.sum > 0 then ratio x.totalTips x.users.sum else 0) +
          ratio x.totalPower x.reporters.sum + ratio x.supply x.holders.sum ≥ quorumLine) := h2
      simp only [h2', ↓reduceIte]
      constructor
      · intro h; rcases h with h | h <;> contradiction
      · rintro ⟨r, hr, hq⟩
        exfalso
        split at hr
        · split at hr
          · injection hr with e1 _; subst e1; simp at hq
          · injection hr with e1 _; subst e1
            rcases hq with h | h | h
            · exact (pick_noquorum _ _ _).1 h
            · exact (pick_noquorum _ _ _).2.1 h
            · exact (pick_noquorum _ _ _).2.2 h
        · cases hr

/-- **C12 (counterexample, recorded finding `tally-holders-ignored`).** Team votes invalid, every tipper
votes support, every reporter votes against: the three groups reach the quorum line (75 % ≥ 51 %), the
tally is taken from them alone — a three-way tie, decided invalid — although token holders holding the
whole supply voted against, which makes *against* the strict maximum of the four-group sums (2 vs 1 vs 1). -/
theorem C12_tokenholders_ignored_counterexample :
    let x : Input := { team := some .invalid, users := ⟨5, 0, 0⟩, reporters := ⟨0, 7, 0⟩, holders := ⟨0, 9, 0⟩,
                       totalTips := 5, totalPower := 7, supply := 9, periodEnded := false, disputeEnded := false, hasVoters := true }
    tally x = .tallied .invalid true ∧ x.holders.a = 9 ∧ x.holders.sum = 9 := by decide

end Layer.Tally

/-! ### life cycle and vote bookkeeping -/
namespace Layer.Lifecycle

/-- **C12 (no way back).** Every transition the code performs raises the rank of the status, so a dispute record never returns to
an earlier status, never passes through the same transition twice, and changes status at most three times. -/
theorem C12_transitions_progress (a b : Status) (h : next a b = true) : rank a < rank b := by
  cases a <;> cases b <;> simp [next] at h <;> simp [rank]

/-- a status history in which every step is a transition of the code -/
def History : List Status → Prop
  | [] => True
  | [_] => True
  | a :: b :: rest => next a b = true ∧ History (b :: rest)

theorem history_bound : ∀ (l : List Status) (s : Status), History (s :: l) → (s :: l).length + rank s ≤ 4
  | [], s, _ => by cases s <;> simp [rank]
  | y :: ys, s, h => by
    obtain ⟨hxy, hrest⟩ := h
    have hr := C12_transitions_progress s y hxy
    have := history_bound ys y hrest
    simp only [List.length_cons] at this ⊢
    omega

theorem C12_no_cycle (l : List Status) (h : History l) : l.length ≤ 4 := by
  cases l with
  | nil => simp
  | cons x xs => have := history_bound xs x h; omega

/-- **C12 (one vote per address and round; the group counters are the sums of the recorded votes).** -/
def Consistent (r : Round) : Prop :=
  (r.votes.map (·.voter)).Nodup ∧
  r.users.total = (r.votes.map (·.user)).sum ∧ r.reporters.total = (r.votes.map (·.reporter)).sum ∧ r.holders.total = (r.votes.map (·.holder)).sum

theorem add_total (c : Counts) (ch n : Nat) : (c.add ch n).total = c.total + n := by
  unfold Counts.add Counts.total
  split <;> simp <;> omega

theorem C12_vote_consistent (r r' : Round) (v : V) (hc : Consistent r) (h : vote r v = some r') : Consistent r' := by
  unfold vote at h
  split at h; · cases h
  rename_i hnew
  split at h; · cases h
  injection h with h; subst h
  obtain ⟨h1, h2, h3, h4⟩ := hc
  refine ⟨?_, ?_, ?_, ?_⟩
  · simp only [List.map_append, List.map_cons, List.map_nil]
    rw [List.nodup_append]
    refine ⟨h1, by simp, ?_⟩
    intro a ha b hb
    simp at hb; subst hb
    intro e; subst e
    obtain ⟨x, hx, hxa⟩ := List.mem_map.mp ha
    apply hnew
    rw [List.any_eq_true]; exact ⟨x, hx, by simp [hxa]⟩
  · simp [add_total, h2]
  · simp [add_total, h3]
  · simp [add_total, h4]

theorem C12_second_vote_rejected (r r' : Round) (v w : V) (h : vote r v = some r') (hw : w.voter = v.voter) : vote r' w = none := by
  unfold vote at h
  split at h; · cases h
  split at h; · cases h
  injection h with h; subst h
  unfold vote
  have : (r.votes ++ [v]).any (·.voter == w.voter) = true := by
    rw [List.any_eq_true]; exact ⟨v, by simp, by simp [hw]⟩
  simp [this]

/-- **C12 (the round fee doubles and is capped).** -/
theorem C12_round_fee (slash : Int) (round : Nat) (h : 0 ≤ slash) :
    roundFee slash round ≤ slash ∧ (slash / 20 * (2 ^ round : Nat) ≤ slash → roundFee slash (round + 1) = min slash (2 * roundFee slash round)) := by
  unfold roundFee
  constructor
  · simp only []; split <;> omega
  · intro hle
    simp only []
    have e : (slash / 20 * ((2 ^ (round + 1) : Nat) : Int)) = 2 * (slash / 20 * ((2 ^ round : Nat) : Int)) := by
      push_cast; rw [pow_succ]; ring
    rw [e]
    have hn : ¬ (slash / 20 * ((2 ^ round : Nat) : Int) > slash) := by omega
    simp only [hn, ↓reduceIte]
    split <;> omega

end Layer.Lifecycle
