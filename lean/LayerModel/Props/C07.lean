import LayerModel.Lemmas.Oracle

/-!
# C07 — reports enter only an open round; each round aggregates exactly once

Model: `Layer.Oracle` (Chain/Oracle.lean) — `tip`, `submit`, `setAggregated`, `rotate`.  Heights are the block's
height; `RepIn` carries what the oracle learns from the reporter and registry modules.
-/
namespace Layer.Oracle
open Layer

/-- **C07 (bridge-withdrawal queries are never reportable).** For every state, height, reporter and value. -/
theorem C07_withdrawal_never_reportable (s : S) (h : Nat) (qid : String) (spec : Spec) (ri : RepIn) :
    submit s h qid .withdraw spec ri = none := by
  simp [submit]

/-- **C07 (admission, necessary conditions).** A report is accepted only if the reporter module returned a stake
(not jailed, known) of at least the minimum, the value decodes, the query is a registered non-withdrawal type, and —
unless it is a token-bridge deposit — its current round carries a tip or is the scheduled cycle-list query and its
window has not closed (`expiration ≥ height`). -/
theorem C07_admission (s : S) (h : Nat) (qid : String) (kind : Kind) (spec : Spec) (ri : RepIn) (s' : S)
    (hacc : submit s h qid kind spec ri = some s') :
    (kind = .spot ∨ kind = .deposit) ∧
    (∃ stake, ri.stake = some stake ∧ ri.minStake ≤ stake) ∧
    ri.valueOk = true ∧
    (kind = .spot → ∃ q, currentQuery s.queries qid = some q ∧ (q.amount ≠ 0 ∨ q.cycle = true) ∧ h ≤ q.exp) := by
  unfold submit at hacc
  split at hacc
  · simp at hacc
  · rename_i hk
    cases hst : ri.stake with
    | none => simp [hst] at hacc
    | some stake =>
      simp only [hst] at hacc
      split at hacc
      · simp at hacc
      · rename_i hmin
        have hval : ∀ (st : S) (q : Query) (pw : Nat) (c : Bool) (r : S), setValue st h q kind spec ri pw c = some r →
            ri.valueOk = true ∧ kind ≠ .nospec := by
          intro st q pw c r hr
          unfold setValue at hr
          split at hr
          · simp at hr
          · rename_i hk2
            split at hr
            · simp at hr
            · rename_i hv
              exact ⟨by simpa using hv, by intro e; simp [e] at hk2⟩
        have hdep : ∀ (st : S) (q : Query) (pw : Nat) (r : S), depositReveal st h q kind spec ri pw = some r →
            ri.valueOk = true ∧ kind ≠ .nospec := by
          intro st q pw r hr
          unfold depositReveal at hr
          simp only [] at hr
          repeat' split at hr
          all_goals first | exact hval _ _ _ _ _ hr | (simp at hr)
        have hkinds : kind ≠ .withdraw ∧ kind ≠ .garbage := by
          constructor <;> intro e <;> simp [e] at hk
        cases hq : currentQuery s.queries qid with
        | none =>
          simp only [hq] at hacc
          split at hacc
          · simp at hacc
          · rename_i hd
            have hkd : kind = .deposit := by simpa using hd
            obtain ⟨hv, _⟩ := hdep _ _ _ _ hacc
            exact ⟨Or.inr hkd, ⟨stake, rfl, by omega⟩, hv, by intro e; rw [hkd] at e; cases e⟩
        | some q =>
          simp only [hq] at hacc
          split at hacc
          · rename_i hd
            have hkd : kind = .deposit := by simpa using hd
            obtain ⟨hv, _⟩ := hdep _ _ _ _ hacc
            exact ⟨Or.inr hkd, ⟨stake, rfl, by omega⟩, hv, by intro e; rw [hkd] at e; cases e⟩
          · rename_i hnd
            split at hacc
            · simp at hacc
            · rename_i hopen
              split at hacc
              · simp at hacc
              · rename_i hexp
                obtain ⟨hv, hns⟩ := hval _ _ _ _ _ hacc
                have hspot : kind = .spot := by
                  cases kind <;> simp_all
                refine ⟨Or.inl hspot, ⟨stake, rfl, by omega⟩, hv, fun _ => ⟨q, rfl, ?_, by omega⟩⟩
                by_cases ha : q.amount = 0
                · right
                  simp only [ha, true_and, Bool.not_eq_true', not_and] at hopen
                  cases hc : q.cycle <;> simp_all
                · exact Or.inl ha

/-- **C07 (a later report of the same reporter in the same round replaces the earlier one).** After an accepted
`setValue` there is exactly one stored report for (query, reporter, round) and it carries the new value. -/
theorem C07_replace (s : S) (h : Nat) (q : Query) (kind : Kind) (spec : Spec) (ri : RepIn) (pw : Nat) (c : Bool) (s' : S)
    (hacc : setValue s h q kind spec ri pw c = some s') :
    (s'.reports.filter (fun x => x.qid == q.qid && x.reporter == ri.reporter && x.metaId == q.id)).map (·.value) = [ri.value] := by
  unfold setValue at hacc
  split at hacc
  · simp at hacc
  · split at hacc
    · simp at hacc
    · injection hacc with e
      subst e
      have := setReport_key_unique s.reports ⟨q.qid, ri.reporter, q.id, ri.value, pw, h, c, spec.method⟩
      simp only [] at this ⊢
      rw [this]; rfl

/-- **C07 (a round with reports yields exactly one aggregate and disappears).** Aggregating one expired round adds
one aggregate — with the query's next sequence number, the round's meta id, keyed by the block time — and removes
that round's query record; nothing else changes in the query collection. -/
theorem C07_one_aggregate_per_round (s : S) (h ts : Nat) (q : Query) (s' : S) (hagg : aggregateOne s h ts q = some s') :
    s'.queries = removeQuery s.queries q.qid q.id ∧
    ∃ a : Agg, a.qid = q.qid ∧ a.ts = ts ∧ a.metaId = q.id ∧ a.nonce = nonceOf s.nonces q.qid + 1 ∧ a.flagged = false ∧
      s'.aggs = setAgg s.aggs a := by
  unfold aggregateOne at hagg
  simp only [] at hagg
  split at hagg
  · simp at hagg
  · split at hagg
    · simp at hagg
    · injection hagg with e
      subst e
      exact ⟨rfl, _, rfl, rfl, rfl, rfl, rfl, rfl⟩

/-- **C07 (rotation).** The cycle list stays on its current query while that query's window is open
(`expiration > height`); otherwise it moves to the next entry in list order, wrapping around after the last. -/
theorem C07_rotation (s : S) (h : Nat) (specOf : String → Spec) (s' : S) (hne : s.cycle ≠ [])
    (hr : rotate s h specOf = some s') :
    let cur := s.cycle.getD (if s.seq ≥ s.cycle.length then 0 else s.seq) ""
    ((∃ q, currentQuery s.queries cur = some q ∧ q.exp > h) → s'.seq = s.seq ∧ s'.queries = s.queries) ∧
    ((∀ q, currentQuery s.queries cur = some q → q.exp ≤ h) → s'.seq = (if s.seq + 1 ≥ s.cycle.length then 0 else s.seq + 1)) := by
  have hemp : s.cycle.isEmpty = false := by cases hc : s.cycle <;> simp_all
  have hnext : ∀ r, rotate.rotateNext s h specOf = some r → r.seq = (if s.seq + 1 ≥ s.cycle.length then 0 else s.seq + 1) := by
    intro r hrn
    unfold rotate.rotateNext at hrn
    simp only [] at hrn
    split at hrn
    · injection hrn with e; subst e; rfl
    · split at hrn
      · injection hrn with e; subst e; rfl
      · injection hrn with e; subst e; rfl
  unfold rotate at hr
  simp only [hemp, Bool.false_eq_true, if_false] at hr
  intro cur
  constructor
  · rintro ⟨q, hq, hexp⟩
    have hq' : currentQuery s.queries (s.cycle.getD (if s.seq ≥ s.cycle.length then 0 else s.seq) "") = some q := hq
    simp only [hq', hexp, if_true] at hr
    injection hr with e; subst e; exact ⟨rfl, rfl⟩
  · intro hall
    cases hq : currentQuery s.queries (s.cycle.getD (if s.seq ≥ s.cycle.length then 0 else s.seq) "") with
    | none => simp only [hq] at hr; exact hnext _ hr
    | some q =>
      have := hall q hq
      have hn : ¬ q.exp > h := by omega
      simp only [hq, hn, if_false] at hr
      exact hnext _ hr

/-- **C07 (a tip on a round without reports stays with the query).** The aggregation pass does not touch a query
that has no revealed reports: its record, tip included, is still there afterwards (store keys are unique, so the
record's key is not the key of any round that has reports). -/
theorem C07_tip_carries_aggregation (s : S) (h ts : Nat) (s' : S) (q : Query) (hq : q ∈ s.queries)
    (hkey : ∀ x ∈ s.queries, x.hasRev = true → ¬ (q.qid = x.qid ∧ q.id = x.id))
    (hagg : setAggregated s h ts = some s') : q ∈ s'.queries := by
  unfold setAggregated at hagg
  have hnone : ∀ l : List Query, l.foldl (fun acc x => match acc with
      | none => none
      | some st => if x.exp ≤ h then aggregateOne st h ts x else some st) none = none := by
    intro l; induction l with
    | nil => rfl
    | cons y ys ihh => simpa using ihh
  have key : ∀ (l : List Query) (st : S) (r : S), (∀ x ∈ l, ¬ (q.qid = x.qid ∧ q.id = x.id)) → q ∈ st.queries →
      l.foldl (fun acc x => match acc with
        | none => none
        | some st => if x.exp ≤ h then aggregateOne st h ts x else some st) (some st) = some r → q ∈ r.queries := by
    intro l
    induction l with
    | nil => intro st r _ hin hf; simp at hf; subst hf; exact hin
    | cons x xs ih =>
      intro st r hall hin hf
      simp only [List.foldl_cons] at hf
      have hx := hall x (by simp)
      by_cases hexp : x.exp ≤ h
      · simp only [hexp, if_true] at hf
        cases ha : aggregateOne st h ts x with
        | none => rw [ha, hnone] at hf; cases hf
        | some st2 =>
          rw [ha] at hf
          obtain ⟨hqs, _⟩ := C07_one_aggregate_per_round st h ts x st2 ha
          apply ih st2 r (fun y hy => hall y (by simp [hy])) _ hf
          rw [hqs]; unfold removeQuery
          apply List.mem_filter.mpr
          refine ⟨hin, ?_⟩
          simp only [Bool.not_eq_true', Bool.and_eq_false_iff, beq_eq_false_iff_ne, ne_eq]
          by_cases h1 : q.qid = x.qid
          · right; intro h2; exact hx ⟨h1, h2⟩
          · left; exact h1
      · simp only [hexp, if_false] at hf
        exact ih st r (fun y hy => hall y (by simp [hy])) hin hf
  refine key _ s s' (fun x hx => ?_) hq hagg
  have hm := List.mem_filter.mp hx
  exact hkey x hm.1 (by simpa using hm.2)

end Layer.Oracle
