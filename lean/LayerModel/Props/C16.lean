import LayerModel.Chain.BridgeValset
import LayerModel.Lemmas.Abi
import LayerModel.Gen.SolAbi

/-!
# C16 — validator-set checkpoints form a chain an EVM light client can always follow

Model: `Layer.Valset` (current set, power difference, staleness, checkpoint creation, the contract's update rule with
abstract hashing and per-slot signature validity).
-/
namespace Layer.Valset

theorem vLe_total (a b : BVal) : (vLe a b || vLe b a) = true := by
  unfold vLe
  by_cases h1 : a.power > b.power
  · simp [h1]
  · by_cases h2 : b.power > a.power
    · simp [h2]
    · have he : a.power = b.power := by omega
      rcases String.le_total a.addr b.addr with h | h <;> simp [he, h]

theorem vLe_trans (a b c : BVal) (h1 : vLe a b = true) (h2 : vLe b c = true) : vLe a c = true := by
  unfold vLe at *
  simp only [Bool.or_eq_true, decide_eq_true_eq, Bool.and_eq_true, beq_iff_eq] at *
  rcases h1 with h1 | ⟨h1, h1'⟩ <;> rcases h2 with h2 | ⟨h2, h2'⟩
  · left; omega
  · left; omega
  · left; omega
  · right; exact ⟨by omega, String.le_trans h1' h2'⟩

/-- **C16 (the set is exactly the registered validators with non-zero power, ordered).** The bridge validator set is a
permutation of the staking validators that have a registered EVM address and consensus power `⌊tokens/10^6⌋ > 0`
(with that power), ordered by descending power and then ascending address. -/
theorem C16_set_exact_sorted (vals : List SVal) (s : Set) (h : currentSet vals = some s) :
    s.Perm (vals.filterMap toBVal) ∧
    s.Pairwise (fun a b => vLe a b = true) ∧ s ≠ [] := by
  unfold currentSet at h
  simp only [] at h
  split at h
  · simp at h
  · rename_i hne
    injection h with e
    subst e
    refine ⟨List.mergeSort_perm _ _, ?_, ?_⟩
    · exact List.pairwise_mergeSort (le := vLe) (fun a b c h1 h2 => vLe_trans a b c h1 h2) vLe_total _
    · intro hnil
      have := (List.mergeSort_perm (vals.filterMap toBVal) vLe).length_eq
      rw [hnil] at this
      have hl := List.length_eq_zero_iff.mp this.symm
      rw [hl] at hne
      simp at hne

/-- **C16 (a new checkpoint exactly when …).** With a saved set `last` and a current set `cur`, the end blocker records a
new checkpoint iff the last checkpoint is stale or the sets differ with a relative power shift of at least 5 %
(`PowerDiff ≥ 50000`); with no saved set it always records one.  It never removes or alters earlier checkpoints. -/
theorem C16_new_iff (s : St) (vals : List SVal) (blockMs : Nat) (cur : Set) (s' : St)
    (hcur : currentSet vals = some cur) (h : endBlock s vals blockMs = some s') :
    (s.saved = none → s' = newCkpt s cur blockMs) ∧
    (∀ last st, s.saved = some last → stale s blockMs = some st →
      (s' = newCkpt s cur blockMs ↔ (st = true ∨ (last ≠ cur ∧ powerDiff last cur ≥ 50000)) ∨ s = newCkpt s cur blockMs) ∧
      (s' = s ∨ s' = newCkpt s cur blockMs)) := by
  unfold endBlock at h
  simp only [hcur] at h
  constructor
  · intro hs
    simp only [hs] at h
    injection h with e; exact e.symm
  · intro last st hs hst
    simp only [hs, hst] at h
    by_cases h1 : last = cur ∧ (!st) = true
    · simp only [h1, and_self, if_true] at h
      injection h with e
      subst e
      refine ⟨?_, Or.inl rfl⟩
      constructor
      · intro he; right; exact he
      · rintro (⟨hst' | ⟨hne, _⟩⟩ | he)
        · simp [hst'] at h1
        · exact absurd h1.1 hne
        · exact he
    · simp only [h1, if_false] at h
      by_cases h2 : powerDiff last cur < 50000 ∧ (!st) = true
      · simp only [h2, and_self, if_true] at h
        injection h with e
        subst e
        refine ⟨?_, Or.inl rfl⟩
        constructor
        · intro he; right; exact he
        · rintro (⟨hst' | ⟨_, hpd⟩⟩ | he)
          · simp [hst'] at h2
          · omega
          · exact he
      · simp only [h2, if_false] at h
        injection h with e
        subst e
        refine ⟨?_, Or.inr rfl⟩
        constructor
        · intro _
          left
          by_cases hs' : st = true
          · exact Or.inl hs'
          · right
            have hns : (!st) = true := by simpa using hs'
            refine ⟨fun he => h1 ⟨he, hns⟩, ?_⟩
            by_cases hlt : powerDiff last cur < 50000
            · exact absurd ⟨hlt, hns⟩ h2
            · omega
        · intro _; rfl

/-- `PowerDiff ≥ 50000` is "the summed absolute power changes are at least 5 % of the saved set's total" -/
theorem C16_powerdiff_five_percent (b c : Set) (hT : 0 < totalPower b) :
    powerDiff b c ≥ 50000 ↔ 20 * delta b c ≥ totalPower b := by
  unfold powerDiff
  have hne : totalPower b ≠ 0 := by omega
  simp only [hne, if_false]
  have hd : 0 ≤ delta b c := by
    unfold delta
    have : ∀ l : List Int, (∀ x ∈ l, 0 ≤ x) → 0 ≤ l.sum := by
      intro l; induction l with
      | nil => intro _; simp
      | cons x xs ih => intro h; simp; have := h x (by simp); have := ih (fun y hy => h y (by simp [hy])); omega
    apply this
    intro x hx
    obtain ⟨a, _, rfl⟩ := List.mem_map.mp hx
    unfold absI; split <;> omega
  rw [Int.tdiv_eq_ediv_of_nonneg (by omega)]
  have hTp : (0 : Int) < (totalPower b : Int) := by omega
  constructor
  · intro h
    have := (Int.le_ediv_iff_mul_le hTp).mp h
    omega
  · intro h
    apply (Int.le_ediv_iff_mul_le hTp).mpr
    omega

/-- the chain condition along the list of checkpoints: `prev` is the set of the checkpoint before the head (none at
the start), `i` the index the head must carry, `lt` the timestamp the head must exceed -/
def chainOK : Option Set → Nat → Option Nat → List Ckpt → Prop
  | _, _, _, [] => True
  | prev, i, lt, k :: ks =>
    k.idx = i ∧ (∀ t, lt = some t → t < k.ts) ∧
    k.slots = (match prev with | none => k.set.length | some p => p.length) ∧
    k.threshold = totalPower k.set * 2 / 3 ∧
    chainOK (some k.set) (i + 1) (some k.ts) ks

def lastSet (prev : Option Set) (l : List Ckpt) : Option Set := match l.getLast? with | none => prev | some k => some k.set
def lastTs (lt : Option Nat) (l : List Ckpt) : Option Nat := match l.getLast? with | none => lt | some k => some k.ts

theorem chainOK_append (k : Ckpt) : ∀ (l : List Ckpt) (prev : Option Set) (i : Nat) (lt : Option Nat),
    chainOK prev i lt l →
    k.idx = i + l.length → (∀ t, lastTs lt l = some t → t < k.ts) →
    k.slots = (match lastSet prev l with | none => k.set.length | some p => p.length) →
    k.threshold = totalPower k.set * 2 / 3 →
    chainOK prev i lt (l ++ [k])
  | [], prev, i, lt, _, hi, hts, hsl, hth => by
    simp only [List.nil_append, chainOK]
    exact ⟨by simpa using hi, by simpa [lastTs] using hts, by simpa [lastSet] using hsl, hth, trivial⟩
  | x :: xs, prev, i, lt, h, hi, hts, hsl, hth => by
    obtain ⟨h1, h2, h3, h4, h5⟩ := h
    simp only [List.cons_append, chainOK]
    refine ⟨h1, h2, h3, h4, ?_⟩
    apply chainOK_append k xs (some x.set) (i + 1) (some x.ts) h5
    · simp only [List.length_cons] at hi; omega
    · intro t ht
      apply hts t
      unfold lastTs at *
      cases hx : xs.getLast? with
      | none =>
        have : xs = [] := List.getLast?_eq_none_iff.mp hx
        subst this; simpa using ht
      | some y =>
        rw [hx] at ht
        have : (x :: xs).getLast? = some y := by
          cases xs with
          | nil => simp at hx
          | cons z zs => simpa [List.getLast?_cons_cons] using hx
        rw [this]; exact ht
    · unfold lastSet at *
      cases hx : xs.getLast? with
      | none =>
        have : xs = [] := List.getLast?_eq_none_iff.mp hx
        subst this; simpa using hsl
      | some y =>
        have : (x :: xs).getLast? = some y := by
          cases xs with
          | nil => simp at hx
          | cons z zs => simpa [List.getLast?_cons_cons] using hx
        rw [this] at hsl; simpa [hx] using hsl
    · exact hth

/-- checkpoint chain invariant: indexes are contiguous from 0, timestamps strictly increase, each checkpoint's slot count is
the size of the previous checkpoint's set (its own for the first), each threshold is ⌊2·total/3⌋, and the saved set is the
last checkpoint's set -/
def ChainInv (s : St) : Prop :=
  chainOK none 0 none s.ckpts ∧ s.saved = (s.ckpts.getLast?).map (·.set)

/-- **C16 (indexes contiguous, timestamps strictly increasing, slots = previous set, consistent threshold).** The
invariant is preserved by every end blocker whose block time is later than all recorded checkpoints (block times strictly
increase; one end blocker per block). -/
theorem C16_chain_inv (s : St) (vals : List SVal) (blockMs : Nat) (s' : St) (hinv : ChainInv s)
    (hlater : ∀ k ∈ s.ckpts, k.ts < blockMs) (h : endBlock s vals blockMs = some s') : ChainInv s' := by
  have hnew : ∀ cur, ChainInv (newCkpt s cur blockMs) := by
    intro cur
    obtain ⟨hch, hsaved⟩ := hinv
    unfold newCkpt
    refine ⟨?_, by simp⟩
    apply chainOK_append _ s.ckpts none 0 none hch
    · simp
    · intro t ht
      unfold lastTs at ht
      cases hl : s.ckpts.getLast? with
      | none => simp [hl] at ht
      | some y =>
        rw [hl] at ht
        injection ht with e; subst e
        exact hlater y (List.mem_of_getLast? hl)
    · unfold lastSet
      cases hl : s.ckpts.getLast? <;> simp
    · rfl
  unfold endBlock at h
  cases hc : currentSet vals with
  | none => simp [hc] at h; subst h; exact hinv
  | some cur =>
    simp only [hc] at h
    cases hs : s.saved with
    | none => simp only [hs] at h; injection h with e; subst e; exact hnew cur
    | some last =>
      simp only [hs] at h
      cases hst : stale s blockMs with
      | none => simp [hst] at h
      | some st =>
        simp only [hst] at h
        repeat' split at h
        all_goals (injection h with e; subst e; first | exact hinv | exact hnew cur)

theorem checkSigs_go_ok : ∀ (vals : Set) (sigs : List (Option Bool)) (cum thr : Nat),
    vals.length = sigs.length → (∀ sg ∈ sigs, sg ≠ some false) →
    cum + ((vals.zip sigs).filter (fun p => p.2 == some true)).foldl (fun acc p => acc + p.1.power) 0 ≥ thr →
    checkSigs.go thr vals sigs cum = true
  | [], [], cum, thr, _, _, h => by simpa [checkSigs.go] using h
  | [], _ :: _, _, _, hl, _, _ => by simp at hl
  | _ :: _, [], _, _, hl, _, _ => by simp at hl
  | v :: vs, sg :: sgs, cum, thr, hl, hv, h => by
    have hl' : vs.length = sgs.length := by simpa using hl
    have hv' : ∀ x ∈ sgs, x ≠ some false := fun x hx => hv x (by simp [hx])
    cases sg with
    | none =>
      simp only [checkSigs.go]
      apply checkSigs_go_ok vs sgs cum thr hl' hv'
      simpa [List.zip_cons_cons, List.filter] using h
    | some b =>
      cases b with
      | false => exact absurd rfl (hv (some false) (by simp))
      | true =>
        simp only [checkSigs.go]
        split
        · rfl
        · apply checkSigs_go_ok vs sgs (cum + v.power) thr hl' hv'
          simp only [List.zip_cons_cons, List.filter, beq_self_eq_true, List.foldl_cons] at h
          have key : ∀ (l : List (BVal × Option Bool)) (a : Nat), l.foldl (fun acc p => acc + p.1.power) a = a + l.foldl (fun acc p => acc + p.1.power) 0 := by
            intro l; induction l with
            | nil => intro a; simp
            | cons x xs ih => intro a; simp only [List.foldl_cons]; rw [ih (a + x.1.power), ih (0 + x.1.power)]; omega
          rw [key] at h
          omega

/-- signed power of a slot assignment -/
def signedPower (vals : Set) (sigs : List (Option Bool)) : Nat :=
  ((vals.zip sigs).filter (fun p => p.2 == some true)).foldl (fun acc p => acc + p.1.power) 0

/-- **C16 (followable).** For consecutive checkpoints `k`, `k'` (any hash functions): if the submitted signatures have one
slot per member of `k`'s set, every present signature verifies, the signers hold more than two thirds of `k`'s total
power, `k'` is not older than `k` and its set has total power at least 2, then the contract's update rule accepts the
step from the state of `k` and ends in exactly the state of `k'`. -/
theorem C16_followable (H : Hash) (k k' : Ckpt) (sigs : List (Option Bool))
    (hthr : k.threshold = totalPower k.set * 2 / 3) (hthr' : k'.threshold = totalPower k'.set * 2 / 3)
    (hts : k.ts ≤ k'.ts) (htot' : 2 ≤ totalPower k'.set)
    (hlen : k.set.length = sigs.length) (hvalid : ∀ sg ∈ sigs, sg ≠ some false)
    (hpower : 3 * signedPower k.set sigs > 2 * totalPower k.set) :
    updateValidatorSet H (cstateOf H k) (H.set k'.set) k'.threshold k'.ts k.set sigs = some (cstateOf H k') := by
  unfold updateValidatorSet cstateOf
  have h1 : ¬ k.set.length ≠ sigs.length := by simpa using hlen
  have h2 : ¬ k'.ts < k.ts := by omega
  have h3 : ¬ k'.threshold = 0 := by rw [hthr']; omega
  have h5 : checkSigs k.set sigs k.threshold = true := by
    unfold checkSigs
    apply checkSigs_go_ok k.set sigs 0 k.threshold hlen hvalid
    unfold signedPower at hpower
    rw [hthr]; omega
  simp [h1, h2, h3, h5]

/-! ### tie of the contract model to evm/contracts/bridge/BlobstreamO.sol (table regenerated on every run) -/

/-- **C16 (the contract model is the contract).** The guard conditions and the control/effect skeleton of
`updateValidatorSet` and `_checkValidatorSignatures`, as scanned from the Solidity source on this run, are the ones
`Valset.updateValidatorSet` / `Valset.checkSigs` model branch by branch: length mismatch, timestamp decrease, zero
threshold, checkpoint mismatch (hash of the supplied set under the *stored* threshold and timestamp), signature check against
the *stored* threshold; in the loop: nil signature → continue, invalid → revert, add power, `≥ threshold` → break; after the
loop `< threshold` → revert; then the three state assignments.  (The first guard of `_checkValidatorSignatures`, the
unbonding-period staleness against the EVM clock, is outside the model: see DESIGN.md.) -/
theorem C16_contract_tie :
    Abi.lookup Gen.solAbi ["BlobstreamO.sol", "updateValidatorSet", "zz", "conditions"] =
      some "_currentValidatorSet.length != _sigs.length ;; _newValidatorTimestamp < validatorTimestamp ;; _newPowerThreshold == 0 ;; _domainSeparateValidatorSetHash( powerThreshold, validatorTimestamp, _currentValidatorSetHash ) != lastValidatorSetCheckpoint" ∧
    Abi.lookup Gen.solAbi ["BlobstreamO.sol", "updateValidatorSet", "zz", "flow"] =
      some "if ;; revert MalformedCurrentValidatorSet ;; if ;; revert ValidatorTimestampMustIncrease ;; if ;; revert InvalidPowerThreshold ;; let _currentValidatorSetHash = keccak256(abi.encode(_currentValidatorSet)) ;; if ;; revert SuppliedValidatorSetInvalid ;; let _newCheckpoint = _domainSeparateValidatorSetHash( _newPowerThreshold, _newValidatorTimestamp, _newValidatorSetHash ) ;; call _checkValidatorSignatures(_currentValidatorSet, _sigs, _newCheckpoint, powerThreshold) ;; lastValidatorSetCheckpoint = _newCheckpoint ;; powerThreshold = _newPowerThreshold ;; validatorTimestamp = _newValidatorTimestamp" ∧
    Abi.lookup Gen.solAbi ["BlobstreamO.sol", "_checkValidatorSignatures", "zz", "conditions"] =
      some "block.timestamp - (validatorTimestamp / 1000) > unbondingPeriod ;; _sigs[_i].r == 0 && _sigs[_i].s == 0 && _sigs[_i].v == 0 ;; !_verifySig(_currentValidators[_i].addr, _digest, _sigs[_i]) ;; _cumulativePower >= _powerThreshold ;; _cumulativePower < _powerThreshold" ∧
    Abi.lookup Gen.solAbi ["BlobstreamO.sol", "_checkValidatorSignatures", "zz", "flow"] =
      some "if ;; revert StaleValidatorSet ;; let _cumulativePower = 0 ;; for uint256 _i = 0; _i < _currentValidators.length; _i++ ;; if ;; continue ;; if ;; call _verifySig(_currentValidators[_i].addr, _digest, _sigs[_i]) ;; revert InvalidSignature ;; _cumulativePower += _currentValidators[_i].power ;; if ;; break ;; if ;; revert InsufficientVotingPower" := by
  refine ⟨?_, ?_, ?_, ?_⟩ <;> rfl

end Layer.Valset

namespace Layer.Valset

theorem foldl_max_ge_init (l : List Nat) (a : Nat) : a ≤ l.foldl max a := by
  induction l generalizing a with
  | nil => exact Nat.le_refl a
  | cons x xs ih => exact Nat.le_trans (Nat.le_max_left a x) (ih (max a x))

theorem foldl_max_ge_mem (l : List Nat) (a x : Nat) (h : x ∈ l) : x ≤ l.foldl max a := by
  induction l generalizing a with
  | nil => cases h
  | cons y ys ih =>
    rcases List.mem_cons.mp h with rfl | hm
    · exact Nat.le_trans (Nat.le_max_right a x) (foldl_max_ge_init ys (max a x))
    · exact ih (max a y) hm

/-- **C16 / C02 (the bridge end blocker cannot fail).** Whenever a set is saved there is a checkpoint with a positive timestamp
not later than the block (the chain invariant gives that), and then the end blocker returns a state for every staking validator
list — including the list in which no bonded validator has registered an EVM address (fix cae414c). -/
theorem C16_endblock_total (s : St) (vals : List SVal) (blockMs : Nat)
    (h : s.saved.isSome = true → ∃ k ∈ s.ckpts, 0 < k.ts ∧ k.ts ≤ blockMs) : (endBlock s vals blockMs).isSome = true := by
  unfold endBlock
  cases hc : currentSet vals with
  | none => rfl
  | some cur =>
    simp only []
    cases hs : s.saved with
    | none => rfl
    | some last =>
      simp only []
      obtain ⟨k, hk, hpos, hle⟩ := h (by simp [hs])
      have hst : (stale s blockMs).isSome = true := by
        unfold stale
        simp only []
        have hmem : k.ts ∈ ((s.ckpts.filter (fun c => (c.ts : Int) < (blockMs : Int) + 1000)).map (·.ts)) := by
          apply List.mem_map.mpr
          exact ⟨k, List.mem_filter.mpr ⟨hk, by simp; omega⟩, rfl⟩
        have hge := foldl_max_ge_mem _ 0 k.ts hmem
        have hne : tsBefore s ((blockMs : Int) + 1000) ≠ 0 := by unfold tsBefore; omega
        simp [hne]
      cases hsv : stale s blockMs with
      | none => simp [hsv] at hst
      | some b =>
        simp only []
        split
        · rfl
        · split <;> rfl

end Layer.Valset
