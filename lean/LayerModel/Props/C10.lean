import LayerModel.Chain.Reporter

/-!
# C10 — reporting power equals the bonded stake of active selectors, counted once

Model: `Layer.Reporter`.
-/
namespace Layer.Reporter

/-! ### the two iteration strategies of `ReporterStake` -/

theorem sum_map_zero {α} (l : List α) : (l.map (fun _ => (0 : Int))).sum = 0 := by
  induction l with
  | nil => rfl
  | cons x xs ih => simp [ih]

theorem sum_single (g : Del → Int) (n : String) : ∀ (dsel : List Del), (dsel.map (·.validator)).Nodup →
    (dsel.map (fun d => if d.validator == n then g d else 0)).sum = (match findDel dsel n with | some d => g d | none => 0)
  | [], _ => by simp [findDel]
  | d :: ds, h => by
    rw [List.map_cons] at h
    obtain ⟨hnot, hnd⟩ := List.nodup_cons.mp h
    have ih := sum_single g n ds hnd
    by_cases hd : d.validator == n
    · have hn : d.validator = n := by simpa using hd
      -- no other delegation to the same validator
      have hz : (ds.map (fun d => if d.validator == n then g d else 0)).sum = 0 := by
        have : ∀ e ∈ ds, (if e.validator == n then g e else 0) = (fun _ => (0 : Int)) e := by
          intro e he
          have : e.validator ≠ n := by
            intro h2; apply hnot; rw [hn, ← h2]; exact List.mem_map_of_mem he
          simp [this]
        rw [List.map_congr_left this]; exact sum_map_zero ds
      rw [List.map_cons, List.sum_cons, hz]
      unfold findDel
      rw [List.find?_cons]
      simp [hd]
    · rw [List.map_cons, List.sum_cons, ih]
      unfold findDel
      rw [List.find?_cons]
      simp [hd]

theorem termA_cons (f : Val → Int → Int) (v : Val) (vs : List Val) (d : Del) :
    termA f (v :: vs) d = if v.name == d.validator then (if v.bonded then f v d.shares else 0) else termA f vs d := by
  unfold termA findVal
  rw [List.find?_cons]
  by_cases h : v.name == d.validator <;> simp [h]

theorem termA_absent (f : Val → Int → Int) (vs : List Val) (d : Del) (h : d.validator ∉ vs.map (·.name)) : termA f vs d = 0 := by
  unfold termA findVal
  have : vs.find? (·.name == d.validator) = none := by
    rw [List.find?_eq_none]
    intro x hx hbeq
    apply h
    have : x.name = d.validator := by simpa using hbeq
    rw [← this]; exact List.mem_map_of_mem hx
  simp [this]

/-- **C10 (the two iteration strategies agree).** For any conversion `f` from shares to tokens, summing over the selector's
delegations to bonded validators (strategy used when the delegation counter is small) and summing over the bonded validators
that have a delegation of the selector (strategy used when it is large) give the same stake — provided validator names and
the selector's delegation targets are unique, as the staking store guarantees.  The counter therefore never influences the
result (up to the rounding difference of the two conversions, see `C10_conversion_gap`). -/
theorem C10_strategies_agree (f : Val → Int → Int) : ∀ (vals : List Val) (dsel : List Del),
    (vals.map (·.name)).Nodup → (dsel.map (·.validator)).Nodup → stakeA f vals dsel = stakeB f vals dsel
  | [], dsel, _, _ => by
    unfold stakeA stakeB
    have : ∀ d ∈ dsel, termA f [] d = (fun _ => (0 : Int)) d := by intro d _; simp [termA, findVal]
    rw [List.map_congr_left this]; simpa using sum_map_zero dsel
  | v :: vs, dsel, hv, hd => by
    rw [List.map_cons] at hv
    obtain ⟨hnot, hvs⟩ := List.nodup_cons.mp hv
    have ih := C10_strategies_agree f vs dsel hvs hd
    unfold stakeA stakeB at *
    simp only [List.map_cons, List.sum_cons]
    rw [← ih]
    -- split every term of strategy A into the part for `v` and the part for the other validators
    have hsplit : ∀ d ∈ dsel, termA f (v :: vs) d =
        (if d.validator == v.name then (if v.bonded then f v d.shares else 0) else 0) + termA f vs d := by
      intro d _
      rw [termA_cons]
      by_cases h : v.name == d.validator
      · have heq0 : v.name = d.validator := eq_of_beq h
        have heq : d.validator = v.name := heq0.symm
        have h' : (d.validator == v.name) = true := by rw [heq]; exact beq_self_eq_true _
        have : termA f vs d = 0 := termA_absent f vs d (heq ▸ hnot)
        rw [if_pos h, if_pos h', this]; omega
      · have h' : (d.validator == v.name) = false := by
          cases hb : (d.validator == v.name) with
          | false => rfl
          | true => exact absurd (by rw [eq_of_beq hb]; exact beq_self_eq_true _) h
        rw [if_neg h, h']; simp
    rw [List.map_congr_left hsplit]
    have hsum : ∀ (l : List Del) (a b : Del → Int), (l.map (fun d => a d + b d)).sum = (l.map a).sum + (l.map b).sum := by
      intro l a b; induction l with
      | nil => simp
      | cons x xs ihx => simp [ihx]; omega
    rw [hsum, sum_single (fun d => if v.bonded then f v d.shares else 0) v.name dsel hd]
    unfold termB
    by_cases hb : v.bonded <;> simp [hb] <;> (cases findDel dsel v.name <;> simp)

/-- the two conversions differ by at most one smallest unit for a validator with non-negative tokens and positive shares -/
theorem C10_conversion_gap_example :
    tfs ⟨"v", true, 7, 3 * Dec.prec⟩ (3 * Dec.prec) = 7 ∧ tfsT ⟨"v", true, 7, 3 * Dec.prec⟩ (3 * Dec.prec) = 7 := by decide

/-! ### power, jail -/

/-- **C10 (a jailed reporter has no power).** -/
theorem C10_jailed_no_stake (s : S) (now : Int) (r : String) (rep : Rep) (h : findRep s r = some rep) (hj : rep.jailed = true) :
    reporterStake s now r = none := by simp [reporterStake, h, hj]

/-- **C10 (release only after the jail time).** -/
theorem C10_unjail_after_time (s s' : S) (now : Int) (r : String) (h : unjail s now r = some s') :
    ∃ rep, findRep s r = some rep ∧ rep.jailed = true ∧ rep.jailedUntil ≤ now := by
  unfold unjail at h
  cases hr : findRep s r with
  | none => simp [hr] at h
  | some rep =>
    simp only [hr] at h
    by_cases hj : rep.jailed
    · by_cases ht : now < rep.jailedUntil
      · simp [hj, ht] at h
      · exact ⟨rep, rfl, hj, by omega⟩
    · simp [hj] at h

/-- **C10 (locked selectors are not counted).** Every selector whose stake enters a report selects that reporter and is outside
its lock period. -/
theorem C10_counted_active (s : S) (now : Int) (r : String) (x : Sel) (h : x ∈ counted s now r) :
    x ∈ s.sels ∧ x.reporter = r ∧ x.lockedUntil ≤ now := by
  unfold counted selectorsOf at h
  simp only [List.mem_filter] at h
  obtain ⟨⟨h1, h2⟩, h3⟩ := h
  refine ⟨h1, by simpa using h2, ?_⟩
  simp at h3; exact h3

/-! ### one reporter per selector, cap, minimum -/

/-- selectors are keyed by their address -/
def SelKeys (s : S) : Prop := (s.sels.map (·.selector)).Nodup

theorem findSel_none_not_mem (s : S) (a : String) (h : (findSel s a).isSome = false) : a ∉ s.sels.map (·.selector) := by
  intro hm
  obtain ⟨x, hx, hxa⟩ := List.mem_map.mp hm
  have : (s.sels.find? (·.selector == a)).isSome = true := by
    rw [List.find?_isSome]; exact ⟨x, hx, by simp [hxa]⟩
  unfold findSel at h; rw [this] at h; cases h

/-- **C10 (every selector belongs to exactly one reporter).** The selection table has one entry per selector address, and every
message keeps it so. -/
theorem C10_one_reporter_create (s s' : S) (a : String) (m : Int) (hk : SelKeys s) (h : createReporter s a m = some s') : SelKeys s' := by
  unfold createReporter at h
  split at h; · cases h
  split at h; · cases h
  split at h; · cases h
  rename_i hf
  injection h with h; subst h
  unfold SelKeys at *
  simp only [List.map_append, List.map_cons, List.map_nil]
  rw [List.nodup_append]
  refine ⟨hk, by simp, ?_⟩
  intro x hx y hy
  simp at hy; subst hy
  intro e; subst e
  exact findSel_none_not_mem s _ (by simpa using hf) hx

theorem C10_one_reporter_select (s s' : S) (a r : String) (hk : SelKeys s) (h : selectReporter s a r = some s') : SelKeys s' := by
  unfold selectReporter at h
  split at h; · cases h
  rename_i hf
  split at h; · cases h
  split at h; · cases h
  split at h; · cases h
  injection h with h; subst h
  unfold SelKeys at *
  simp only [List.map_append, List.map_cons, List.map_nil]
  rw [List.nodup_append]
  refine ⟨hk, by simp, ?_⟩
  intro x hx y hy
  simp at hy; subst hy
  intro e; subst e
  exact findSel_none_not_mem s _ (by simpa using hf) hx

theorem map_keys_preserved (l : List Sel) (g : Sel → Sel) (hg : ∀ y, (g y).selector = y.selector) :
    (l.map g).map (·.selector) = l.map (·.selector) := by
  rw [List.map_map]; apply List.map_congr_left; intro y _; exact hg y

theorem C10_one_reporter_switch (s s' : S) (now : Int) (rp : String → Bool) (a r : String) (hk : SelKeys s)
    (h : switchReporter s now rp a r = some s') : SelKeys s' := by
  unfold switchReporter at h
  split at h; · cases h
  split at h; · cases h
  split at h; · cases h
  split at h; · cases h
  split at h; · cases h
  injection h with h; subst h
  unfold SelKeys at *
  simp only []
  rw [map_keys_preserved]
  · exact hk
  · intro y; split <;> rfl

theorem C10_one_reporter_remove (s s' : S) (a : String) (hk : SelKeys s) (h : removeSelector s a = some s') : SelKeys s' := by
  unfold removeSelector at h
  split at h; · cases h
  split at h; · cases h
  split at h; · cases h
  split at h; · cases h
  injection h with h; subst h
  unfold SelKeys at *
  exact List.Nodup.sublist (List.Sublist.map _ List.filter_sublist) hk

/-- **C10 (joining respects cap and minimum).** An accepted `SelectReporter` finds the reporter below the cap and the joiner at or
above the reporter's minimum of bonded tokens; afterwards the reporter has one more selector and at most `maxSelectors`. -/
theorem C10_select_guards (s s' : S) (a r : String) (h : selectReporter s a r = some s') :
    ∃ rep, findRep s r = some rep ∧ rep.minTokens ≤ bondedOf s a ∧ (selectorsOf s r).length < s.params.maxSelectors ∧
      (selectorsOf s' r).length = (selectorsOf s r).length + 1 ∧ (selectorsOf s' r).length ≤ s'.params.maxSelectors := by
  unfold selectReporter at h
  split at h; · cases h
  cases hr : findRep s r with
  | none => simp [hr] at h
  | some rep =>
    simp only [hr] at h
    split at h; · cases h
    rename_i hcap
    split at h; · cases h
    rename_i hmin
    injection h with h; subst h
    refine ⟨rep, rfl, by omega, by omega, ?_, ?_⟩
    · simp [selectorsOf, List.filter_append]
    · simp [selectorsOf, List.filter_append]; simp [selectorsOf] at hcap; omega

theorem C10_switch_guards (s s' : S) (now : Int) (rp : String → Bool) (a r : String) (h : switchReporter s now rp a r = some s') :
    ∃ rep, findRep s r = some rep ∧ rep.minTokens ≤ bondedOf s a ∧ (selectorsOf s r).length < s.params.maxSelectors := by
  unfold switchReporter at h
  split at h; · cases h
  split at h; · cases h
  cases hr : findRep s r with
  | none => simp [hr] at h
  | some rep =>
    simp only [hr] at h
    split at h; · cases h
    rename_i hcap
    split at h; · cases h
    rename_i hmin
    exact ⟨rep, rfl, by omega, by omega⟩

theorem C10_create_guards (s s' : S) (a : String) (m : Int) (h : createReporter s a m = some s') :
    s.params.minTrb ≤ bondedOf s a ∧ s.params.minTrb ≤ m ∧ (findSel s a).isSome = false := by
  unfold createReporter at h
  split at h; · cases h
  rename_i h1
  split at h; · cases h
  rename_i h2
  split at h; · cases h
  rename_i h3
  exact ⟨by omega, by omega, by simpa using h3⟩

end Layer.Reporter

/-! ### no double counting within a window shorter than the unbonding period -/
namespace Layer.Reporter

/-- chain state with the history variables of the argument: which reporters have a stake snapshot, and for the selector `a`
under observation the reporter and time of the last report its stake entered -/
structure T where
  s : S
  now : Int
  reported : List String
  last : Option (String × Int)

inductive Op where
  | advance (dt : Nat)
  | report (r : String)
  | switch (a r : String)
  | select (a r : String)
  | create (a : String) (m : Int)
  | remove (a : String)
  | jail (r : String) (d : Int)
  | unjail (r : String)
  | staking (vals : List Val) (dels : List Del)    -- any change of the staking state

/-- one operation; a rejected message leaves the state as it was.  `a` is the selector under observation. -/
def tstep (a : String) (t : T) : Op → T
  | .advance dt => { t with now := t.now + dt }
  | .report r =>
    match reporterStake t.s t.now r with
    | none => t
    | some _ => { t with reported := r :: t.reported,
                         last := if (counted t.s t.now r).any (·.selector == a) then some (r, t.now) else t.last }
  | .switch x r => match switchReporter t.s t.now (fun p => t.reported.contains p) x r with | some s' => { t with s := s' } | none => t
  | .select x r => match selectReporter t.s x r with | some s' => { t with s := s' } | none => t
  | .create x m => match createReporter t.s x m with | some s' => { t with s := s' } | none => t
  | .remove x => match removeSelector t.s x with | some s' => { t with s := s' } | none => t
  | .jail r d => match jail t.s t.now r d with | some s' => { t with s := s' } | none => t
  | .unjail r => match unjail t.s t.now r with | some s' => { t with s := s' } | none => t
  | .staking vals dels => { t with s := { t.s with vals := vals, dels := dels } }

/-- the invariant: if `a`'s stake last entered a report of `A` at `t1` and `a` now selects somebody else, it is locked until
`t1 + unbonding` at least -/
def NoDouble (a : String) (t : T) : Prop :=
  SelKeys t.s ∧ 0 ≤ t.s.params.unbondingMs ∧
  (findSel t.s a = none → t.last = none) ∧
  ∀ x A t1, findSel t.s a = some x → t.last = some (A, t1) →
    A ∈ t.reported ∧ t1 ≤ t.now ∧ (x.reporter ≠ A → t1 + t.s.params.unbondingMs ≤ x.lockedUntil)

theorem findSel_mem (s : S) (a : String) (x : Sel) (h : findSel s a = some x) : x ∈ s.sels ∧ x.selector = a := by
  unfold findSel at h
  exact ⟨List.mem_of_find?_eq_some h, by simpa using List.find?_some h⟩

theorem findSel_unique (s : S) (hk : SelKeys s) (a : String) (x y : Sel) (hx : findSel s a = some x) (hy : y ∈ s.sels) (hya : y.selector = a) :
    y = x := by
  obtain ⟨hxm, hxa⟩ := findSel_mem s a x hx
  unfold SelKeys at hk
  -- two entries with the same key in a list whose keys are duplicate-free are equal
  have : ∀ (l : List Sel), (l.map (·.selector)).Nodup → x ∈ l → y ∈ l → y = x := by
    intro l
    induction l with
    | nil => intro _ h; cases h
    | cons z zs ih =>
      intro hnd hxl hyl
      rw [List.map_cons] at hnd
      obtain ⟨hz, hzs⟩ := List.nodup_cons.mp hnd
      rcases List.mem_cons.mp hxl with rfl | hxz
      · rcases List.mem_cons.mp hyl with rfl | hyz
        · rfl
        · exfalso; apply hz; rw [hxa, ← hya]; exact List.mem_map_of_mem hyz
      · rcases List.mem_cons.mp hyl with rfl | hyz
        · exfalso; apply hz; rw [hya, ← hxa]; exact List.mem_map_of_mem hxz
        · exact ih hzs hxz hyz
  exact this s.sels hk hxm hy

theorem findSel_append_other (l : List Sel) (n : Sel) (a : String) (h : n.selector ≠ a) :
    (l ++ [n]).find? (·.selector == a) = l.find? (·.selector == a) := by
  rw [List.find?_append]
  cases hl : l.find? (·.selector == a) with
  | some v => simp
  | none => simp [h]

end Layer.Reporter

namespace Layer.Reporter

theorem jail_frame (s s' : S) (now : Int) (r : String) (d : Int) (h : jail s now r d = some s') : s'.sels = s.sels ∧ s'.params = s.params := by
  unfold jail at h
  split at h; · cases h
  split at h; · cases h
  injection h with h; subst h; exact ⟨rfl, rfl⟩

theorem unjail_frame (s s' : S) (now : Int) (r : String) (h : unjail s now r = some s') : s'.sels = s.sels ∧ s'.params = s.params := by
  unfold unjail at h
  split at h; · cases h
  split at h; · cases h
  split at h; · cases h
  injection h with h; subst h; exact ⟨rfl, rfl⟩

theorem find_filter_other (l : List Sel) (x a : String) (h : x ≠ a) :
    (l.filter (fun y => !(y.selector == x))).find? (·.selector == a) = l.find? (·.selector == a) := by
  induction l with
  | nil => rfl
  | cons z zs ih =>
    by_cases hz : z.selector == x
    · have hzx : z.selector = x := eq_of_beq hz
      have : (z.selector == a) = false := by
        cases hb : (z.selector == a) with
        | false => rfl
        | true => exact absurd ((eq_of_beq hb).symm.trans hzx).symm h
      rw [List.filter_cons, List.find?_cons]; simp [hz, this, ih]
    · rw [List.filter_cons]; simp only [hz, Bool.not_false, ↓reduceIte, List.find?_cons]; rw [ih]

theorem nodouble_frame (a : String) (t t' : T) (h : NoDouble a t) (hs : t'.s.sels = t.s.sels) (hp : t'.s.params = t.s.params)
    (hl : t'.last = t.last) (hr : ∀ p ∈ t.reported, p ∈ t'.reported) (hn : t.now ≤ t'.now) : NoDouble a t' := by
  obtain ⟨hk, hu, hnone, hinv⟩ := h
  have hf : findSel t'.s a = findSel t.s a := by unfold findSel; rw [hs]
  refine ⟨by unfold SelKeys; rw [hs]; exact hk, by rw [hp]; exact hu, by rw [hf, hl]; exact hnone, ?_⟩
  intro x A t1 hx hlast
  rw [hf] at hx; rw [hl] at hlast
  obtain ⟨h1, h2, h3⟩ := hinv x A t1 hx hlast
  exact ⟨hr A h1, by omega, by rw [hp]; exact h3⟩

/-- **C10 (one step keeps the lock invariant)** — for every operation except the removal of the observed selector -/
theorem nodouble_step (a : String) (t : T) (op : Op) (h : NoDouble a t) (hno : op ≠ .remove a) : NoDouble a (tstep a t op) := by
  obtain ⟨hk, hu, hnone, hinv⟩ := h
  cases op with
  | advance dt =>
    exact nodouble_frame a t _ ⟨hk, hu, hnone, hinv⟩ rfl rfl rfl (fun _ hp => hp) (by show t.now ≤ t.now + (dt : Int); omega)
  | staking vals dels =>
    exact nodouble_frame a t _ ⟨hk, hu, hnone, hinv⟩ rfl rfl rfl (fun _ hp => hp) (by simp [tstep])
  | jail r d =>
    simp only [tstep]
    cases hj : jail t.s t.now r d with
    | none => exact ⟨hk, hu, hnone, hinv⟩
    | some s' =>
      obtain ⟨h1, h2⟩ := jail_frame _ _ _ _ _ hj
      exact nodouble_frame a t _ ⟨hk, hu, hnone, hinv⟩ h1 h2 rfl (fun _ hp => hp) (Int.le_refl _)
  | unjail r =>
    simp only [tstep]
    cases hj : unjail t.s t.now r with
    | none => exact ⟨hk, hu, hnone, hinv⟩
    | some s' =>
      obtain ⟨h1, h2⟩ := unjail_frame _ _ _ _ hj
      exact nodouble_frame a t _ ⟨hk, hu, hnone, hinv⟩ h1 h2 rfl (fun _ hp => hp) (Int.le_refl _)
  | report r =>
    simp only [tstep]
    cases hr : reporterStake t.s t.now r with
    | none => exact ⟨hk, hu, hnone, hinv⟩
    | some st =>
      refine ⟨hk, hu, ?_, ?_⟩
      · intro hn
        have : (counted t.s t.now r).any (·.selector == a) = false := by
          rw [Bool.eq_false_iff]; intro hany
          obtain ⟨y, hy, hya⟩ := List.any_eq_true.mp hany
          obtain ⟨hym, _, _⟩ := C10_counted_active t.s t.now r y hy
          have : (findSel t.s a).isSome = true := by
            unfold findSel; rw [List.find?_isSome]; exact ⟨y, hym, hya⟩
          rw [hn] at this; cases this
        simp only [this]; exact hnone hn
      · intro x A t1 hx hlast
        by_cases hany : (counted t.s t.now r).any (·.selector == a) = true
        · simp only [hany, ↓reduceIte] at hlast
          injection hlast with hl; injection hl with hA ht; subst hA; subst ht
          obtain ⟨y, hy, hya⟩ := List.any_eq_true.mp hany
          obtain ⟨hym, hyr, _⟩ := C10_counted_active t.s t.now r y hy
          have : y = x := findSel_unique t.s hk a x y hx hym (eq_of_beq hya)
          subst this
          exact ⟨by simp, Int.le_refl _, fun hne => absurd hyr hne⟩
        · simp only [hany] at hlast
          obtain ⟨h1, h2, h3⟩ := hinv x A t1 hx hlast
          exact ⟨List.mem_cons_of_mem _ h1, h2, h3⟩
  | select x r =>
    simp only [tstep]
    cases hsel : selectReporter t.s x r with
    | none => exact ⟨hk, hu, hnone, hinv⟩
    | some s' =>
      have hk' := C10_one_reporter_select _ _ _ _ hk hsel
      unfold selectReporter at hsel
      split at hsel; · cases hsel
      rename_i hfx
      split at hsel; · cases hsel
      split at hsel; · cases hsel
      split at hsel; · cases hsel
      injection hsel with hsel; subst hsel
      by_cases hxa : x = a
      · subst hxa
        have hn : findSel t.s x = none := by
          cases hf : findSel t.s x with
          | none => rfl
          | some v => simp [hf] at hfx
        have hl := hnone hn
        refine ⟨hk', hu, fun _ => hl, ?_⟩
        intro y A t1 _ hlast; simp [hl] at hlast
      · have hf : findSel { t.s with sels := t.s.sels ++ [⟨x, r, 0, (delsOf t.s x).length⟩] } a = findSel t.s a := by
          unfold findSel; exact findSel_append_other _ _ _ hxa
        refine ⟨hk', hu, by rw [hf]; exact hnone, ?_⟩
        intro y A t1 hy hlast; rw [hf] at hy; exact hinv y A t1 hy hlast
  | create x m =>
    simp only [tstep]
    cases hsel : createReporter t.s x m with
    | none => exact ⟨hk, hu, hnone, hinv⟩
    | some s' =>
      have hk' := C10_one_reporter_create _ _ _ _ hk hsel
      unfold createReporter at hsel
      split at hsel; · cases hsel
      split at hsel; · cases hsel
      split at hsel; · cases hsel
      rename_i hfx
      injection hsel with hsel; subst hsel
      by_cases hxa : x = a
      · subst hxa
        have hn : findSel t.s x = none := by
          cases hf : findSel t.s x with
          | none => rfl
          | some v => simp [hf] at hfx
        have hl := hnone hn
        refine ⟨hk', hu, fun _ => hl, ?_⟩
        intro y A t1 _ hlast; simp [hl] at hlast
      · have hf : findSel { t.s with reps := t.s.reps ++ [⟨x, false, 0, m⟩], sels := t.s.sels ++ [⟨x, x, 0, (delsOf t.s x).length⟩] } a = findSel t.s a := by
          unfold findSel; exact findSel_append_other _ _ _ hxa
        refine ⟨hk', hu, by rw [hf]; exact hnone, ?_⟩
        intro y A t1 hy hlast; rw [hf] at hy; exact hinv y A t1 hy hlast
  | remove x =>
    have hxa : x ≠ a := fun e => hno (by rw [e])
    simp only [tstep]
    cases hsel : removeSelector t.s x with
    | none => exact ⟨hk, hu, hnone, hinv⟩
    | some s' =>
      have hk' := C10_one_reporter_remove _ _ _ hk hsel
      unfold removeSelector at hsel
      split at hsel; · cases hsel
      split at hsel; · cases hsel
      split at hsel; · cases hsel
      split at hsel; · cases hsel
      injection hsel with hsel; subst hsel
      have hf : findSel { t.s with sels := t.s.sels.filter (fun y => !(y.selector == x)) } a = findSel t.s a := by
        unfold findSel; exact find_filter_other _ _ _ hxa
      refine ⟨hk', hu, by rw [hf]; exact hnone, ?_⟩
      intro y A t1 hy hlast; rw [hf] at hy; exact hinv y A t1 hy hlast
  | switch x r =>
    simp only [tstep]
    cases hsw : switchReporter t.s t.now (fun p => t.reported.contains p) x r with
    | none => exact ⟨hk, hu, hnone, hinv⟩
    | some s' =>
      have hk' := C10_one_reporter_switch _ _ _ _ _ _ hk hsw
      unfold switchReporter at hsw
      cases hfx : findSel t.s x with
      | none => simp [hfx] at hsw
      | some sx =>
        simp only [hfx] at hsw
        split at hsw; · cases hsw
        split at hsw; · cases hsw
        split at hsw; · cases hsw
        split at hsw; · cases hsw
        injection hsw with hsw; subst hsw
        -- what the table looks like for `a` afterwards
        have hmapfind : ∀ (l : List Sel) (g : Sel → Sel), (∀ y, (g y).selector = y.selector) →
            (l.map g).find? (·.selector == a) = (l.find? (·.selector == a)).map g := by
          intro l g hg
          induction l with
          | nil => rfl
          | cons z zs ih => simp only [List.map_cons, List.find?_cons, hg z]; split <;> simp [ih]
        have hf := hmapfind t.s.sels (fun y => if y.selector == x then { y with reporter := r, lockedUntil := if (t.reported.contains sx.reporter) = true then t.now + t.s.params.unbondingMs else sx.lockedUntil } else y)
          (by intro y; split <;> rfl)
        refine ⟨hk', hu, ?_, ?_⟩
        · intro hn
          apply hnone
          unfold findSel at hn ⊢
          simp only [] at hn
          rw [hf] at hn
          cases hfa : t.s.sels.find? (·.selector == a) with
          | none => rfl
          | some v => simp [hfa] at hn
        · intro y A t1 hy hlast
          unfold findSel at hy
          simp only [] at hy
          rw [hf] at hy
          cases hfa : t.s.sels.find? (·.selector == a) with
          | none => simp [hfa] at hy
          | some v =>
            simp only [hfa, Option.map_some, Option.some.injEq] at hy
            obtain ⟨h1, h2, h3⟩ := hinv v A t1 hfa hlast
            have hva : v.selector = a := (findSel_mem t.s a v hfa).2
            by_cases hvx : v.selector == x
            · -- the observed selector switches
              have hxa : x = a := by rw [← eq_of_beq hvx]; exact hva
              subst hxa
              have hvsx : v = sx := by
                have : findSel t.s x = some v := hfa
                rw [hfx] at this; injection this with this; exact this.symm
              subst hvsx
              simp only [hvx, ↓reduceIte] at hy
              subst hy
              refine ⟨h1, h2, ?_⟩
              intro _
              simp only []
              by_cases hrep : v.reporter = A
              · have : t.reported.contains v.reporter = true := by rw [hrep]; simpa using h1
                simp only [this, ↓reduceIte]; omega
              · have := h3 hrep
                split <;> omega
            · simp only [hvx] at hy
              subst hy
              exact ⟨h1, h2, h3⟩

/-- **C10 (no double counting).** Over any sequence of delegations, validator status changes, reports, selections, switches,
jailings, time steps and removals of *other* selectors, the lock invariant holds; hence when the stake of selector `a`
enters a report of reporter `B` after having entered a report of another reporter `A` at time `t1`, at least the unbonding
period lies between the two reports — no reporting window shorter than it can contain both. -/
theorem C10_no_double_count_partial (a : String) (ops : List Op) (t : T) (h : NoDouble a t) (hno : ∀ op ∈ ops, op ≠ .remove a) :
    NoDouble a (ops.foldl (tstep a) t) := by
  induction ops generalizing t with
  | nil => exact h
  | cons op ops ih =>
    exact ih (tstep a t op) (nodouble_step a t op h (hno op (by simp))) (fun o ho => hno o (by simp [ho]))

theorem C10_window (a : String) (t : T) (h : NoDouble a t) (B A : String) (t1 : Int) (x : Sel)
    (hx : x ∈ counted t.s t.now B) (hxa : x.selector = a) (hl : t.last = some (A, t1)) (hne : A ≠ B) :
    t1 + t.s.params.unbondingMs ≤ t.now := by
  obtain ⟨hk, _, _, hinv⟩ := h
  obtain ⟨hm, hr, hlock⟩ := C10_counted_active t.s t.now B x hx
  have hf : findSel t.s a = some x := by
    cases hfa : findSel t.s a with
    | none =>
      exfalso
      have : (t.s.sels.find? (·.selector == a)).isSome = true := by
        rw [List.find?_isSome]; exact ⟨x, hm, by simp [hxa]⟩
      unfold findSel at hfa; rw [hfa] at this; cases this
    | some v =>
      have := findSel_unique t.s hk a v x hfa hm hxa
      rw [this]
  obtain ⟨_, _, h3⟩ := hinv x A t1 hf hl
  have := h3 (by rw [hr]; exact fun e => hne e.symm)
  omega

/-- **C10 (the statement at full strength fails through remove + select).** A selector whose stake entered `A`'s report, was
removed from `A` (below the minimum of a reporter over its cap) and selects `B` carries no lock: `B` can count the same
delegation at once.  (Reaching this needs more selectors than the cap, i.e. a cap lowered by governance.) -/
theorem C10_remove_select_counterexample :
    let v : Val := ⟨"val", true, 5000000, 5000000 * Dec.prec⟩
    let s0 : S := { vals := [v], dels := [⟨"x", "val", 2000000 * Dec.prec⟩, ⟨"A", "val", 3000000 * Dec.prec⟩],
                    sels := [⟨"A", "A", 0, 1⟩, ⟨"x", "A", 0, 1⟩, ⟨"y", "A", 0, 0⟩, ⟨"B", "B", 0, 0⟩], reps := [⟨"A", false, 0, 3000000⟩, ⟨"B", false, 0, 1000000⟩],
                    params := ⟨2, 1000000, 100, 1814400000⟩ }
    let t0 : T := ⟨s0, 1000, [], none⟩
    let t1 := [Op.report "A", .remove "x", .select "x" "B", .advance 1, .report "B"].foldl (tstep "x") t0
    t1.last = some ("B", 1001) ∧ ([Op.report "A"].foldl (tstep "x") t0).last = some ("A", 1000) := by decide

end Layer.Reporter

namespace Layer.Reporter
/-- the invariant holds in a concrete non-trivial start state (so `C10_no_double_count_partial` is not vacuous) -/
def exS : S :=
  { vals := [⟨"val", true, 5000000, 5000000 * Dec.prec⟩], dels := [⟨"x", "val", 2000000 * Dec.prec⟩],
    sels := [⟨"A", "A", 0, 1⟩, ⟨"x", "A", 0, 1⟩], reps := [⟨"A", false, 0, 1000000⟩],
    params := ⟨10, 1000000, 100, 1814400000⟩ }
example : NoDouble "x" (T.mk exS 0 [] none) :=
  ⟨by unfold SelKeys; decide, by decide, fun _ => rfl, fun _ _ _ _ h => by cases h⟩
end Layer.Reporter

/-! ### the full statement while the selector cap is not lowered -/
namespace Layer.Reporter

/-- no reporter has more selectors than the cap -/
def Capped (s : S) : Prop := ∀ r, (selectorsOf s r).length ≤ s.params.maxSelectors

/-- **C10 (RemoveSelector is unreachable while every reporter is within the cap).** -/
theorem C10_remove_needs_excess (s : S) (a : String) (h : Capped s) : removeSelector s a = none := by
  unfold removeSelector
  cases hf : findSel s a with
  | none => rfl
  | some x =>
    simp only []
    cases hr : findRep s x.reporter with
    | none => rfl
    | some rep =>
      simp only []
      split
      · rfl
      · have := h x.reporter
        simp [this]

/-- the operations of `tstep` that leave the selection table and the parameters alone keep the cap -/
theorem capped_of_sels_params (s s' : S) (hs : s'.sels = s.sels) (hp : s'.params = s.params) (h : Capped s) : Capped s' := by
  intro r; unfold selectorsOf; rw [hs, hp]; exact h r

theorem capped_select (s s' : S) (a r : String) (h : Capped s) (hsel : selectReporter s a r = some s') : Capped s' := by
  obtain ⟨rep, _, _, hlt, _, _⟩ := C10_select_guards s s' a r hsel
  unfold selectReporter at hsel
  split at hsel; · cases hsel
  split at hsel; · cases hsel
  split at hsel; · cases hsel
  split at hsel; · cases hsel
  injection hsel with hsel; subst hsel
  intro q
  simp only [selectorsOf, List.filter_append, List.length_append]
  by_cases hq : q = r
  · subst hq
    simp only [selectorsOf] at hlt
    simp
    omega
  · have : (r == q) = false := by
      cases hb : (r == q) with
      | false => rfl
      | true => exact absurd (eq_of_beq hb).symm hq
    have hq' := h q
    simp only [selectorsOf] at hq'
    simp [this]
    exact hq'

/-- entries of a key-unique table with a given key: at most one -/
theorem filter_key_le_one (l : List Sel) (a : String) (hk : (l.map (·.selector)).Nodup) : (l.filter (·.selector == a)).length ≤ 1 := by
  induction l with
  | nil => simp
  | cons z zs ih =>
    rw [List.map_cons] at hk
    obtain ⟨hz, hzs⟩ := List.nodup_cons.mp hk
    have ih' := ih hzs
    rw [List.filter_cons]
    by_cases hza : z.selector == a
    · have hnone : zs.filter (·.selector == a) = [] := by
        rw [List.filter_eq_nil_iff]
        intro y hy hya
        apply hz
        rw [eq_of_beq hza, ← eq_of_beq hya]; exact List.mem_map_of_mem hy
      simp [hza, hnone]
    · simp [hza]; exact ih'

/-- switching the entries with key `a` to reporter `r` adds to the selectors of `q` at most the number of such entries, and only for `q = r` -/
theorem filter_map_switch_len (l : List Sel) (a r q : String) (lock : Int) :
    ((l.map (fun y => if y.selector == a then { y with reporter := r, lockedUntil := lock } else y)).filter (·.reporter == q)).length ≤
      (l.filter (·.reporter == q)).length + (if q = r then (l.filter (·.selector == a)).length else 0) := by
  induction l with
  | nil => simp
  | cons z zs ih =>
    simp only [List.map_cons, List.filter_cons]
    by_cases hza : z.selector == a
    · simp only [hza, ↓reduceIte]
      by_cases hq : q = r
      · subst hq
        simp only [beq_self_eq_true, ↓reduceIte, List.length_cons] at ih ⊢
        split <;> (try simp only [List.length_cons]) <;> omega
      · have hrq : (r == q) = false := by
          cases hb : (r == q) with
          | false => rfl
          | true => exact absurd (eq_of_beq hb).symm hq
        simp only [hrq, hq, ↓reduceIte, Bool.false_eq_true, Nat.add_zero] at ih ⊢
        split <;> (try simp only [List.length_cons]) <;> omega
    · simp only [hza, Bool.false_eq_true, ↓reduceIte]
      by_cases hq : q = r
      · simp only [hq, ↓reduceIte] at ih ⊢
        split <;> (try simp only [List.length_cons]) <;> omega
      · simp only [hq, ↓reduceIte, Nat.add_zero] at ih ⊢
        split <;> (try simp only [List.length_cons]) <;> omega

theorem capped_switch (s s' : S) (now : Int) (rp : String → Bool) (a r : String) (hk : SelKeys s) (h : Capped s)
    (hsw : switchReporter s now rp a r = some s') : Capped s' := by
  obtain ⟨rep, _, _, hlt⟩ := C10_switch_guards s s' now rp a r hsw
  unfold switchReporter at hsw
  split at hsw; · cases hsw
  split at hsw; · cases hsw
  split at hsw; · cases hsw
  split at hsw; · cases hsw
  split at hsw; · cases hsw
  injection hsw with hsw; subst hsw
  intro q
  have h1 := filter_key_le_one s.sels a hk
  simp only [selectorsOf] at hlt ⊢
  have hq := h q
  simp only [selectorsOf] at hq
  refine Nat.le_trans (filter_map_switch_len s.sels a r q _) ?_
  by_cases hqr : q = r
  · subst hqr; simp only [↓reduceIte]; omega
  · simp only [hqr, ↓reduceIte, Nat.add_zero]; omega

end Layer.Reporter

namespace Layer.Reporter

/-- every selection points to a registered reporter, every reporter has a selection entry, and the cap admits a reporter's own entry -/
def RepSel (s : S) : Prop :=
  (∀ x ∈ s.sels, (findRep s x.reporter).isSome = true) ∧ (∀ rep ∈ s.reps, (findSel s rep.name).isSome = true) ∧ 1 ≤ s.params.maxSelectors

theorem find_append_isSome {α} (l : List α) (n : α) (p : α → Bool) (h : (l.find? p).isSome = true) : ((l ++ [n]).find? p).isSome = true := by
  rw [List.find?_append]
  cases hl : l.find? p with
  | none => simp [hl] at h
  | some v => simp

theorem find_last_isSome {α} (l : List α) (n : α) (p : α → Bool) (h : p n = true) : ((l ++ [n]).find? p).isSome = true := by
  rw [List.find?_isSome]; exact ⟨n, by simp, h⟩

theorem findRep_map_name (reps : List Rep) (g : Rep → Rep) (hg : ∀ y, (g y).name = y.name) (r : String)
    (h : (reps.find? (·.name == r)).isSome = true) : ((reps.map g).find? (·.name == r)).isSome = true := by
  rw [List.find?_isSome] at h ⊢
  obtain ⟨x, hx, hxr⟩ := h
  exact ⟨g x, List.mem_map_of_mem hx, by rw [hg x]; exact hxr⟩

/-- the combined invariant of the selection tables -/
def Tables (s : S) : Prop := SelKeys s ∧ RepSel s ∧ Capped s

theorem tables_create (s s' : S) (a : String) (m : Int) (h : Tables s) (hc : createReporter s a m = some s') : Tables s' := by
  obtain ⟨hk, ⟨r1, r2, r3⟩, hcap⟩ := h
  have hk' := C10_one_reporter_create s s' a m hk hc
  obtain ⟨_, _, hnosel⟩ := C10_create_guards s s' a m hc
  unfold createReporter at hc
  split at hc; · cases hc
  split at hc; · cases hc
  split at hc; · cases hc
  injection hc with hc; subst hc
  -- `a` is no reporter yet (it would have a selection entry), so nobody selects it
  have hnorep : findRep s a = none := by
    cases hf : findRep s a with
    | none => rfl
    | some rep =>
      exfalso
      have hm : rep ∈ s.reps := List.mem_of_find?_eq_some hf
      have hn : rep.name = a := by simpa using List.find?_some hf
      have := r2 rep hm
      rw [hn] at this
      rw [this] at hnosel; cases hnosel
  have hnone : selectorsOf s a = [] := by
    unfold selectorsOf
    rw [List.filter_eq_nil_iff]
    intro x hx hxa
    have := r1 x hx
    rw [eq_of_beq hxa, hnorep] at this; cases this
  refine ⟨hk', ⟨?_, ?_, r3⟩, ?_⟩
  · intro x hx
    simp only [List.mem_append, List.mem_singleton] at hx
    unfold findRep
    rcases hx with hx | rfl
    · exact find_append_isSome _ _ _ (r1 x hx)
    · exact find_last_isSome _ _ _ (by simp)
  · intro rep hrep
    simp only [List.mem_append, List.mem_singleton] at hrep
    unfold findSel
    rcases hrep with hrep | rfl
    · exact find_append_isSome _ _ _ (r2 rep hrep)
    · exact find_last_isSome _ _ _ (by simp)
  · intro q
    simp only [selectorsOf, List.filter_append, List.length_append]
    by_cases hq : q = a
    · subst hq
      have : (s.sels.filter (·.reporter == q)).length = 0 := by
        have := hnone; unfold selectorsOf at this; rw [this]; rfl
      simp [this]; exact r3
    · have hne : (a == q) = false := by
        cases hb : (a == q) with
        | false => rfl
        | true => exact absurd (eq_of_beq hb).symm hq
      have := hcap q
      simp only [selectorsOf] at this
      simp [hne]; exact this

theorem tables_select (s s' : S) (a r : String) (h : Tables s) (hc : selectReporter s a r = some s') : Tables s' := by
  obtain ⟨hk, ⟨r1, r2, r3⟩, hcap⟩ := h
  have hk' := C10_one_reporter_select s s' a r hk hc
  have hcap' := capped_select s s' a r hcap hc
  obtain ⟨rep, hrep, _, _, _, _⟩ := C10_select_guards s s' a r hc
  unfold selectReporter at hc
  split at hc; · cases hc
  split at hc; · cases hc
  split at hc; · cases hc
  split at hc; · cases hc
  injection hc with hc; subst hc
  refine ⟨hk', ⟨?_, ?_, r3⟩, hcap'⟩
  · intro x hx
    simp only [List.mem_append, List.mem_singleton] at hx
    rcases hx with hx | rfl
    · exact r1 x hx
    · show (findRep s r).isSome = true
      rw [hrep]; rfl
  · intro rp hrp
    unfold findSel
    exact find_append_isSome _ _ _ (r2 rp hrp)

theorem tables_switch (s s' : S) (now : Int) (rp : String → Bool) (a r : String) (h : Tables s)
    (hc : switchReporter s now rp a r = some s') : Tables s' := by
  obtain ⟨hk, ⟨r1, r2, r3⟩, hcap⟩ := h
  have hk' := C10_one_reporter_switch s s' now rp a r hk hc
  have hcap' := capped_switch s s' now rp a r hk hcap hc
  obtain ⟨rep, hrep, _, _⟩ := C10_switch_guards s s' now rp a r hc
  unfold switchReporter at hc
  split at hc; · cases hc
  split at hc; · cases hc
  split at hc; · cases hc
  split at hc; · cases hc
  split at hc; · cases hc
  injection hc with hc; subst hc
  refine ⟨hk', ⟨?_, ?_, r3⟩, hcap'⟩
  · intro x hx
    obtain ⟨y, hy, hyx⟩ := List.mem_map.mp hx
    subst hyx
    show (findRep s _).isSome = true
    split
    · simp only []; rw [hrep]; rfl
    · exact r1 y hy
  · intro rp' hrp'
    have := r2 rp' hrp'
    unfold findSel at this ⊢
    rw [List.find?_isSome] at this ⊢
    obtain ⟨x, hx, hxn⟩ := this
    refine ⟨_, List.mem_map_of_mem hx, ?_⟩
    split <;> exact hxn

theorem tables_frame (s s' : S) (h : Tables s) (hs : s'.sels = s.sels) (hp : s'.params = s.params)
    (hr : ∀ r, (findRep s r).isSome = true → (findRep s' r).isSome = true) (hn : s'.reps.map (·.name) = s.reps.map (·.name)) : Tables s' := by
  obtain ⟨hk, ⟨r1, r2, r3⟩, hcap⟩ := h
  refine ⟨by unfold SelKeys; rw [hs]; exact hk, ⟨?_, ?_, by rw [hp]; exact r3⟩, capped_of_sels_params s s' hs hp hcap⟩
  · intro x hx; rw [hs] at hx; exact hr _ (r1 x hx)
  · intro rep hrep
    have : rep.name ∈ s.reps.map (·.name) := by rw [← hn]; exact List.mem_map_of_mem hrep
    obtain ⟨rep0, h0, hn0⟩ := List.mem_map.mp this
    have := r2 rep0 h0
    unfold findSel at this ⊢
    rw [hs, ← hn0]; exact this

theorem tables_step (a : String) (t : T) (op : Op) (h : Tables t.s) : Tables (tstep a t op).s := by
  cases op with
  | advance dt => exact h
  | report r => simp only [tstep]; split <;> exact h
  | staking vals dels =>
    exact tables_frame t.s _ h rfl rfl (fun _ hr => hr) rfl
  | switch x r => simp only [tstep]; cases hsw : switchReporter t.s t.now (fun p => t.reported.contains p) x r with
    | none => exact h
    | some s' => exact tables_switch _ _ _ _ _ _ h hsw
  | select x r => simp only [tstep]; cases hsel : selectReporter t.s x r with
    | none => exact h
    | some s' => exact tables_select _ _ _ _ h hsel
  | create x m => simp only [tstep]; cases hcr : createReporter t.s x m with
    | none => exact h
    | some s' => exact tables_create _ _ _ _ h hcr
  | remove x => simp only [tstep]; rw [C10_remove_needs_excess t.s x h.2.2]; exact h
  | jail r d => simp only [tstep]; cases hj : jail t.s t.now r d with
    | none => exact h
    | some s' =>
      obtain ⟨h1, h2⟩ := jail_frame _ _ _ _ _ hj
      unfold jail at hj
      split at hj; · cases hj
      split at hj; · cases hj
      injection hj with hj; subst hj
      refine tables_frame t.s _ h rfl rfl ?_ ?_
      · intro q hq; unfold findRep at hq ⊢; exact findRep_map_name _ _ (by intro y; split <;> rfl) q hq
      · simp only []; rw [List.map_map]; apply List.map_congr_left; intro y _; simp only [Function.comp]; split <;> rfl
  | unjail r => simp only [tstep]; cases hj : unjail t.s t.now r with
    | none => exact h
    | some s' =>
      unfold unjail at hj
      split at hj; · cases hj
      split at hj; · cases hj
      split at hj; · cases hj
      injection hj with hj; subst hj
      refine tables_frame t.s _ h rfl rfl ?_ ?_
      · intro q hq; unfold findRep at hq ⊢; exact findRep_map_name _ _ (by intro y; split <;> rfl) q hq
      · simp only []; rw [List.map_map]; apply List.map_congr_left; intro y _; simp only [Function.comp]; split <;> rfl

/-- **C10 (no double counting, full statement while the cap is not lowered).** With well-formed selection tables (one entry per
address, selections point to reporters, every reporter has its entry, no reporter above a cap of at least 1), over EVERY sequence
of operations — removals included, since `RemoveSelector` cannot succeed — the lock invariant holds: the same selector's stake
enters reports of two different reporters only if at least the unbonding period lies between them. -/
theorem C10_no_double_count (a : String) (ops : List Op) (t : T) (h : NoDouble a t) (ht : Tables t.s) :
    NoDouble a (ops.foldl (tstep a) t) ∧ Tables (ops.foldl (tstep a) t).s := by
  induction ops generalizing t with
  | nil => exact ⟨h, ht⟩
  | cons op ops ih =>
    have ht' := tables_step a t op ht
    have h' : NoDouble a (tstep a t op) := by
      by_cases hop : op = .remove a
      · subst hop
        simp only [tstep]; rw [C10_remove_needs_excess t.s a ht.2.2]; exact h
      · exact nodouble_step a t op h hop
    exact ih (tstep a t op) h' ht'

/-- the table invariant holds in the concrete start state used above -/
example : Tables exS := by
  refine ⟨by unfold SelKeys; decide, ⟨by decide, by decide, by decide⟩, ?_⟩
  intro r
  unfold selectorsOf exS
  simp only []
  by_cases h : r = "A"
  · subst h; decide
  · have : ("A" == r) = false := by
      cases hb : ("A" == r) with
      | false => rfl
      | true => exact absurd (eq_of_beq hb).symm h
    simp [this]

end Layer.Reporter
