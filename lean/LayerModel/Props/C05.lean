import LayerModel.Chain.Ledger

/-!
# C05 — the staked-token ledger is always backed by the staking pools

Model: `Layer.Ledger` (pool balances against validator tokens + unbonding balances under the reporter / dispute modules'
direct pool moves).
-/
namespace Layer.Ledger

/-- number of entries credited by an operation -/
def entriesOf : Op → Int
  | .giveBack _ entries => entries.length
  | _ => 0

/-- **C05 (taking and giving back keep the pools in front of the ledger).** One operation never lowers the surplus of the pools over
the ledger, and raises it by at most one smallest unit per returned entry. -/
theorem C05_step (s : St) (op : Op) (h : wf op) :
    slack s ≤ slack (step s op) ∧
    slack (step s op) - slack s ≤ entriesOf op := by
  cases op with
  | take parts => simp only [step, slack, entriesOf]; constructor <;> omega
  | staking d => simp only [step, slack, entriesOf]; constructor <;> omega
  | giveBack amt entries =>
    obtain ⟨h1, h2⟩ := h
    simp only [step, slack, entriesOf]
    constructor <;> omega

/-- **C05 (for every history).** Starting from pools that back the ledger, after any sequence of stake taken for disputes or fees,
stake or rewards put back and ordinary staking operations, the pools still hold at least what validators and unbonding entries
record, and what stays behind in the pools is at most one unit per returned entry. -/
theorem C05_backed (ops : List Op) (s : St) (h0 : 0 ≤ slack s) (hw : ∀ op ∈ ops, wf op) :
    0 ≤ slack (ops.foldl step s) ∧
    slack (ops.foldl step s) - slack s ≤ (ops.map entriesOf).sum := by
  induction ops generalizing s with
  | nil => simp; exact h0
  | cons op ops ih =>
    obtain ⟨a, b⟩ := C05_step s op (hw op (by simp))
    obtain ⟨c, d⟩ := ih (step s op) (by omega) (fun o ho => hw o (by simp [ho]))
    simp only [List.foldl_cons, List.map_cons, List.sum_cons]
    constructor <;> omega

/-- **C05 (what was taken is what was recorded).** -/
theorem C05_take_recorded (s : St) (parts : List Int) :
    s.pool - (step s (.take parts)).pool = parts.sum ∧ s.ledger - (step s (.take parts)).ledger = parts.sum := by
  simp only [step]; constructor <;> omega

/-- the premises are satisfiable: a return of 10 loya credited as 3 + 3 + 3 -/
example : wf (.giveBack 10 [3, 3, 3]) ∧ slack (step ⟨100, 100⟩ (.giveBack 10 [3, 3, 3])) = 1 := by
  constructor
  · exact ⟨by decide, by decide⟩
  · decide

end Layer.Ledger
