import LayerModel.Chain.Ledger
import Mathlib.Tactic.Linarith
import LayerModel.Lemmas.FeeStake

/-!
# C05 — the staked-token ledger is always backed by the staking pools

Model: `Layer.Ledger` (pool balances against validator tokens + unbonding balances under the reporter / dispute modules'
direct pool moves).
-/
namespace Layer.Ledger

/-- number of entries credited by an operation -/
def entriesOf : Op → Int
  | .giveBack _ entries => entries.length
  | _ => 0

/-- **C05 (taking and giving back keep the pools in front of the ledger).** One operation never lowers the surplus of the pools over
the ledger, and raises it by at most one smallest unit per returned entry. -/
theorem C05_step (s : St) (op : Op) (h : wf op) :
    slack s ≤ slack (step s op) ∧
    slack (step s op) - slack s ≤ entriesOf op := by
  cases op with
  | take parts => simp only [step, slack, entriesOf]; constructor <;> omega
  | staking d => simp only [step, slack, entriesOf]; constructor <;> omega
  | giveBack amt entries =>
    obtain ⟨h1, h2⟩ := h
    simp only [step, slack, entriesOf]
    constructor <;> omega

/-- **C05 (for every history).** Starting from pools that back the ledger, after any sequence of stake taken for disputes or fees,
stake or rewards put back and ordinary staking operations, the pools still hold at least what validators and unbonding entries
record, and what stays behind in the pools is at most one unit per returned entry. -/
theorem C05_backed (ops : List Op) (s : St) (h0 : 0 ≤ slack s) (hw : ∀ op ∈ ops, wf op) :
    0 ≤ slack (ops.foldl step s) ∧
    slack (ops.foldl step s) - slack s ≤ (ops.map entriesOf).sum := by
  induction ops generalizing s with
  | nil => simp; exact h0
  | cons op ops ih =>
    obtain ⟨a, b⟩ := C05_step s op (hw op (by simp))
    obtain ⟨c, d⟩ := ih (step s op) (by omega) (fun o ho => hw o (by simp [ho]))
    simp only [List.foldl_cons, List.map_cons, List.sum_cons]
    constructor <;> omega

/-- **C05 (what was taken is what was recorded).** -/
theorem C05_take_recorded (s : St) (parts : List Int) :
    s.pool - (step s (.take parts)).pool = parts.sum ∧ s.ledger - (step s (.take parts)).ledger = parts.sum := by
  simp only [step]; constructor <;> omega

/-- the premises are satisfiable: a return of 10 loya credited as 3 + 3 + 3 -/
example : wf (.giveBack 10 [3, 3, 3]) ∧ slack (step ⟨100, 100⟩ (.giveBack 10 [3, 3, 3])) = 1 := by
  constructor
  · exact ⟨by decide, by decide⟩
  · decide

end Layer.Ledger


/-! ## Fee paid from stake (`FeefromReporterStake`, model `Layer.FeeStake`; helper lemmas in `Lemmas/FeeStake.lean`) -/
namespace Layer.FeeStake
open Layer

/-- **C05 (the per-backer record of a fee paid from stake sums to what was taken).**  For every group of selectors, every set of
delegations and every fee the keeper accepts, each record entry equals what was unbonded at that delegation — so the record sums to
the amount that left the bonded pool and the ledger. -/
theorem C05_fee_record_sums (sels : List Selector) (fee : Int) (os : List Origin) (h : feeFromStake sels fee = some os) :
    (∀ o ∈ os, o.recorded = o.taken) ∧ recordedSum os = moved os := by
  have h1 : ∀ o ∈ os, o.recorded = o.taken := by
    unfold feeFromStake at h
    simp only [] at h
    split at h
    · simp at h
    · simp only [Option.some.injEq] at h
      subst h
      intro o ho
      obtain ⟨s, _, hs⟩ := List.mem_flatMap.mp ho
      exact takeFrom_recorded _ _ _ o hs
  refine ⟨h1, ?_⟩
  unfold recordedSum moved
  congr 1
  exact List.map_congr_left h1

/-- **C05 (counterexample before fix c715962).**  A selector whose first delegation (100) cannot cover its share (300): the old record
held 200 — what was still to take — for the delegation from which 100 was taken, and summed to 400 for 300 moved. -/
theorem C05_fee_record_counterexample :
    let os := takeFromOld "s" [⟨"v1", 100⟩, ⟨"v0", 1000⟩] (Dec.ofInt 300)
    moved os = 300 ∧ recordedSum os = 400 := by decide

/-- **C05 (a fee from stake never overdraws a delegation).**  Every entry takes a non-negative amount, from a delegation of the
selector it names, and at most what that delegation holds. -/
theorem C05_fee_within_delegations (sels : List Selector) (fee : Int) (os : List Origin) (hf : 0 ≤ fee)
    (hd : ∀ s ∈ sels, ∀ d ∈ s.dels, 0 ≤ d.tokens) (h : feeFromStake sels fee = some os) :
    ∀ o ∈ os, 0 ≤ o.taken ∧ ∃ s ∈ sels, s.addr = o.del ∧ ∃ d ∈ s.dels, d.val = o.val ∧ o.taken ≤ d.tokens := by
  unfold feeFromStake at h
  simp only [] at h
  split at h
  · simp at h
  · simp only [Option.some.injEq] at h
    subst h
    intro o ho
    obtain ⟨s, hs, hso⟩ := List.mem_flatMap.mp ho
    have hsel : 0 ≤ selTokens s := tokens_sum_nonneg _ (hd s hs)
    have htot : 0 ≤ totalTokens sels := by
      unfold totalTokens
      have : ∀ l : List Selector, (∀ s ∈ l, ∀ d ∈ s.dels, 0 ≤ d.tokens) → 0 ≤ (l.map selTokens).sum := by
        intro l hl
        induction l with
        | nil => simp
        | cons x xs ih =>
          have := tokens_sum_nonneg _ (hl x (by simp)); have := ih (fun y hy => hl y (by simp [hy]))
          simp only [List.map_cons, List.sum_cons]; unfold selTokens at *; omega
      exact this sels hd
    obtain ⟨a, b, d, hdm, c⟩ := takeFrom_within s.addr s.dels _ (share_nonneg _ _ _ hsel htot hf) (hd s hs) o hso
    exact ⟨a, s, hs, b.symm, d, hdm, c⟩

/-- **C05 / C13 (how much a fee paid from stake moves).**  For every group of selectors with any delegations and every fee (below
10^18 loya) that the keeper accepts, the amount that leaves the bonded pool for the dispute account lies strictly between
`fee − 2·n` and `fee + n`, `n` the number of selectors: each selector's share is rounded and cut to whole loya on its own.  The
dispute module nevertheless books the whole `fee` (recorded finding from-bond-fee-dust: the difference is missing from, or left over
in, the dispute account). -/
theorem C05_fee_moved_bounds (sels : List Selector) (fee : Int) (os : List Origin)
    (hd : ∀ s ∈ sels, ∀ d ∈ s.dels, 0 ≤ d.tokens) (hf : 0 < fee) (hfP : fee < Dec.prec)
    (h : feeFromStake sels fee = some os) :
    fee - 2 * sels.length < moved os ∧ moved os < fee + sels.length := by
  obtain ⟨hT0, hle⟩ := selTokens_le_total sels hd
  unfold feeFromStake at h
  simp only [] at h
  split at h
  · simp at h
  · rename_i hnot
    simp only [Option.some.injEq] at h
    subst h
    have hfT : fee ≤ totalTokens sels := by unfold Dec.ofInt Dec.prec at hnot; omega
    have hT : 0 < totalTokens sels := by omega
    rw [moved_flatMap]
    -- every selector's contribution, by `takeFrom_sum` and `sel_bounds`
    have hb : ∀ s ∈ sels, selTokens s * fee - 2 * totalTokens sels <
          moved (takeFrom s.addr s.dels (share (selTokens s) (totalTokens sels) fee)) * totalTokens sels ∧
        moved (takeFrom s.addr s.dels (share (selTokens s) (totalTokens sels) fee)) * totalTokens sels <
          selTokens s * fee + totalTokens sels := by
      intro s hs
      have ht : 0 ≤ selTokens s := tokens_sum_nonneg _ (hd s hs)
      rw [takeFrom_sum s.addr s.dels _ (share_nonneg _ _ _ ht hT0 (by omega)) (hd s hs)]
      exact sel_bounds (selTokens s) (totalTokens sels) fee ht hT (by omega) hfP hfT
    obtain ⟨lo, hi⟩ := sum_bounds (totalTokens sels) fee sels _ hb
    have hn : (1 : Int) ≤ sels.length := by
      cases sels with
      | nil => simp [totalTokens] at hT
      | cons x xs => simp only [List.length_cons]; push_cast; omega
    constructor
    · by_contra hc
      have : (List.map (fun s => moved (takeFrom s.addr s.dels (share (selTokens s) (totalTokens sels) fee))) sels).sum ≤ fee - 2 * sels.length := by omega
      have := Int.mul_le_mul_of_nonneg_right this (Int.le_of_lt hT)
      nlinarith
    · by_contra hc
      have : fee + sels.length ≤ (List.map (fun s => moved (takeFrom s.addr s.dels (share (selTokens s) (totalTokens sels) fee))) sels).sum := by omega
      have := Int.mul_le_mul_of_nonneg_right this (Int.le_of_lt hT)
      nlinarith

/-- the shortfall occurs (the history of the recorded finding): a reporter with one selector that delegates to two validators pays
55 000 000 from stake; 54 999 999 are moved.  The premises of the theorems above are satisfiable. -/
theorem C05_fee_short_counterexample :
    (feeFromStake [⟨"v1", [⟨"v1", 1054767137⟩]⟩, ⟨"a3", [⟨"v1", 100000⟩, ⟨"v0", 5547792⟩]⟩] 55000000).map moved = some 54999999 := by
  decide

end Layer.FeeStake
