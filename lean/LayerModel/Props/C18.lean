import LayerModel.Lemmas.Ante
import LayerModel.Gen.Formulas

/-!
# C18 — staking transactions cannot move bonded stake more than 5 % per 12-hour period

Model: `Layer.Ante.handle` (the decorator's loop), `Layer.Ante.track` (`TrackStakeChange`).
-/
namespace Layer.Ante

/-- **C18 (admission).** If the decorator lets a transaction through, then bonded stake plus the
*combined* amount of its stake-adding messages is at most `base + ⌊base/20⌋` (hence ≤ 105 % of
`base`) and bonded stake minus the *combined* amount of its undelegate messages is at least
`base − ⌊base/20⌋` (hence ≥ 95 %).  Each bound is stated for transactions that contain a message of
that kind (a transaction without stake-adding messages is not constrained from above: it adds
nothing). -/
theorem C18_admit_implies_bounds (base bonded : Int) (msgs : List Msg)
    (hadm : handle (some base) bonded msgs = true) (hpos : amountsPos msgs) :
    (hasInc msgs = true → bonded + sumInc msgs ≤ upper base) ∧
    (hasUndel msgs = true → bonded - sumUndel msgs ≥ lower base) := by
  have := loop_bounds base bonded msgs 0 0 (by simpa [handle] using hadm) hpos
  simpa using this

/-- `⌊base/20⌋ ≤ base/20` for a non-negative baseline: the integer bounds imply the 105 % / 95 %
bounds of the statement (written without division: `20·x ≤ 21·base`, `20·x ≥ 19·base`). -/
theorem C18_bounds_imply_percent (base x : Int) (hb : 0 ≤ base) :
    (x ≤ upper base → 20 * x ≤ 21 * base) ∧ (x ≥ lower base → 20 * x ≥ 19 * base) := by
  unfold upper lower
  have h1 : Int.tdiv base 20 = base / 20 := Int.tdiv_eq_ediv_of_nonneg hb
  rw [h1]
  constructor <;> intro h <;> omega

/-- **C18 (the bounds are the code's formulas).** `allowedLowerBound` / `allowedUpperBound` as
regenerated from x/reporter/ante/ante.go on every run are the model's `lower` / `upper`. -/
theorem C18_formulas : (∀ b, lower b = Layer.Gen.anteLower b) ∧ (∀ b, upper b = Layer.Gen.anteUpper b) :=
  ⟨fun _ => rfl, fun _ => rfl⟩

/-- Non-vacuity: a two-message transaction that is admitted and meets the hypotheses. -/
example : handle (some 1000) 1000 [.inc 20, .other, .undel 30, .inc 30] = true ∧
    amountsPos [.inc 20, .other, .undel 30, .inc 30] := by
  refine ⟨by decide, ?_⟩
  simp [amountsPos]

/-- **C18 (counterexample for the per-message comparison)** — the code before the `fix:` commit
admitted two delegations of 4 % each in one transaction: base 100, bonded 100, +4 and +4 gives 108 >
105. -/
theorem C18_two_delegates_counterexample :
    loopPerMsg 100 100 [.inc 4, .inc 4] = true ∧ ¬ (100 + sumInc [.inc 4, .inc 4] ≤ upper 100) := by
  decide

/-- **C18 (per-message comparison, partial).** With at most one staking message the per-message
loop and the cumulative loop coincide. -/
theorem C18_single_msg_partial (base bonded : Int) (m : Msg) :
    loopPerMsg base bonded [m] = loop base bonded 0 0 [m] := by
  cases m <;> simp [loopPerMsg, loop, msgAmount]

/-- **C18 (refresh).** The recorded amount changes only when the block time has reached the
recorded expiry, and then it becomes the bonded total of that moment with a new expiry exactly
12 h later. -/
theorem C18_refresh_only_after_expiry (tr : Tracker) (t bonded : Int) :
    (t < tr.expiry → track tr t bonded = tr) ∧
    (tr.expiry ≤ t → track tr t bonded = { amount := bonded, expiry := t + twelveHours }) := by
  unfold track
  constructor <;> intro h
  · simp [h]
  · have : ¬ t < tr.expiry := by omega
    simp [this]

/-- **C18 (baseline is the period start).** Over any sequence of blocks with non-decreasing times,
once refreshed at `t0`, the tracker keeps amount and expiry for every block time before
`t0 + 12 h`. -/
theorem C18_baseline_is_period_start (tr : Tracker) (blocks : List (Int × Int))
    (hall : ∀ b ∈ blocks, b.1 < tr.expiry) :
    blocks.foldl (fun s b => track s b.1 b.2) tr = tr := by
  induction blocks with
  | nil => rfl
  | cons b bs ih =>
    have hb : b.1 < tr.expiry := hall b (by simp)
    have : track tr b.1 b.2 = tr := by simp [track, hb]
    simp only [List.foldl_cons, this]
    exact ih (fun c hc => hall c (by simp [hc]))

end Layer.Ante
