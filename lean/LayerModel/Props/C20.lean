import LayerModel.Lemmas.Median
import LayerModel.Gen.LockSites

/-!
# C20 — the price daemon serves the true median of fresh exchange prices

Models: `Layer.Median.medianU64/medianI64` (lib/math.go), `Layer.PriceCache.*` (the cache).
The concurrency part (every interleaving of lock-protected calls equals the sequential execution in
lock-acquisition order) is `Props/C20Sched.lean`.
-/
namespace Layer.Median

/-- **C20 (median, uint64).** For every non-empty list of 64-bit prices the result is the middle
element of the sorted list (odd length) or `⌈(x+y)/2⌉` of the two middle elements (even length) —
the mean rounded away from zero — computed without overflow (the model wraps every machine
operation at 2^64; the equality shows no wrap changes the result). -/
theorem C20_median_spec_u64 (xs : List Nat) (hne : xs ≠ []) (hb : ∀ x ∈ xs, x < 18446744073709551616) :
    medianU64 xs = some (
      let s := sortNat xs
      if xs.length % 2 = 1 then s.getD (xs.length / 2) 0
      else (s.getD (xs.length / 2 - 1) 0 + s.getD (xs.length / 2) 0 + 1) / 2) := by
  have hl : xs.length ≠ 0 := by simpa using hne
  unfold medianU64
  simp only [hl, if_false]
  split
  · rfl
  · rename_i hodd
    have hlen := sortNat_length xs
    have hmid : xs.length / 2 < (sortNat xs).length := by omega
    have hle := sorted_getD_le (sortNat_sorted xs) (i := xs.length / 2 - 1) (j := xs.length / 2) (by omega) hmid
    have hbs : ∀ x ∈ sortNat xs, x < 18446744073709551616 := fun x hx => hb x ((sortNat_perm xs).subset hx)
    have hy := getD_mem_lt hbs hmid
    simp only [midU64_spec _ _ hle hy]

/-- **C20 (median, int64 branch arithmetic).** For two 64-bit signed values `x ≤ y` the even branch
returns their mean rounded away from zero, all intermediates inside the type. -/
theorem C20_median_spec_i64 (x y : Int) (hxy : x ≤ y) (hx : -9223372036854775808 ≤ x)
    (hy : y < 9223372036854775808) : midI64 x y = meanAwayFromZero x y := midI64_spec x y hxy hx hy

/-- **C20 (order independence).** The median does not depend on the order in which the prices are
collected (Go collects them by ranging over a map). -/
theorem C20_median_perm (xs ys : List Nat) (h : xs.Perm ys) : medianU64 xs = medianU64 ys := by
  unfold medianU64
  rw [sortNat_eq_of_perm h, h.length_eq]

/-- non-vacuity: the overflow-prone pair (2^64−1, 2^64−2) -/
example : medianU64 [18446744073709551615, 18446744073709551614] = some 18446744073709551615 := by
  rw [C20_median_spec_u64 _ (by simp) (by intro x hx; simp at hx; rcases hx with rfl | rfl <;> omega)]
  have : sortNat [18446744073709551615, 18446744073709551614] = [18446744073709551614, 18446744073709551615] := by
    simp [sortNat, List.mergeSort]
  simp [this]

end Layer.Median

namespace Layer.PriceCache
open Layer.Median

/-- **C20 (freshness and minimum number of exchanges).** For one market parameter `(id, min)` the
daemon serves a price iff the market is known, at least `min` of its exchanges are fresh
(`lastUpdate ≥ readTime − maxAge`) and at least one is, and the served price is the median of
exactly the fresh exchanges' latest prices. -/
theorem C20_served_spec (c : Cache) (maxAge : Int) (id min : Nat) (readTime : Int) :
    getValidMedianPrices c maxAge [(id, min)] readTime =
      match lookup id c with
      | none => []
      | some ex =>
        let fresh := (ex.filter (fun e => decide (e.2.last ≥ readTime - maxAge))).map (·.2.price)
        if fresh.length ≥ min then
          match medianU64 fresh with
          | some m => [(id, m)]
          | none => []
        else [] := by
  unfold getValidMedianPrices validPrices
  simp only [List.foldl_cons, List.foldl_nil]
  have hf : ∀ ex : Exchanges, (ex.filter (fun e => !decide (e.2.last < readTime - maxAge))) =
      (ex.filter (fun e => decide (e.2.last ≥ readTime - maxAge))) := by
    intro ex; congr 1; funext e
    by_cases h : e.2.last < readTime - maxAge
    · have : ¬ (e.2.last ≥ readTime - maxAge) := by omega
      simp [h, this]
    · have : e.2.last ≥ readTime - maxAge := by omega
      simp [h, this]
  cases lookup id c with
  | none => rfl
  | some ex =>
    simp only [hf]
    split
    · cases medianU64 _ <;> simp [upsert]
    · rfl

/-- no price is served from an empty fresh set even when `min = 0` -/
theorem C20_no_price_from_nothing (xs : List Nat) : medianU64 xs = none ↔ xs = [] := by
  unfold medianU64
  constructor
  · intro h; by_cases hl : xs.length = 0
    · exact List.length_eq_zero_iff.mp hl
    · simp only [hl, if_false] at h; split at h <;> simp at h
  · rintro rfl; rfl

/-- **C20 (an exchange's stored price only moves forward in update time).** -/
theorem C20_update_monotone (pt : PT) (price : Nat) (t : Int) :
    (pt.update price t).last ≥ pt.last ∧
    (pt.update price t ≠ pt → (pt.update price t).last > pt.last ∧ (pt.update price t) = ⟨t, price⟩) := by
  unfold PT.update
  split
  · exact ⟨by simp; omega, fun _ => ⟨by simpa using ‹t > pt.last›, rfl⟩⟩
  · exact ⟨by simp, fun h => absurd rfl h⟩

end Layer.PriceCache

namespace Layer.C20

/-- lock discipline of the price cache at the verified commit: the two exported methods of
`MarketToExchangePrices` take the mutex (`Lock(); defer Unlock()`) before touching the map, and they are
the only functions that touch `marketToExchangePrices`; `ExchangeToPrice` / `PriceTimestamp` methods touch
their fields without a lock of their own and are reachable only through those two methods. -/
def expectedLockSites : List (List String) := [

  ["daemons/pricefeed/types/price_timestamp.go", "PriceTimestamp.GetValidPrice", "no", "LastUpdateTime Price"],
  ["daemons/pricefeed/types/price_timestamp.go", "PriceTimestamp.UpdatePrice", "no", "LastUpdateTime Price"],
  ["daemons/server/types/pricefeed/exchange_to_price.go", "ExchangeToPrice.GetValidPrices", "no", "call:GetValidPrice call:GetValidPrices exchangeToPriceTimestamp"],
  ["daemons/server/types/pricefeed/exchange_to_price.go", "ExchangeToPrice.UpdatePrices", "no", "LastUpdateTime Price call:UpdatePrice exchangeToPriceTimestamp"],
  ["daemons/server/types/pricefeed/market_to_exchange_prices.go", "MarketToExchangePrices.GetValidMedianPrices", "yes", "call:GetValidPrices call:Lock call:Unlock marketToExchangePrices"],
  ["daemons/server/types/pricefeed/market_to_exchange_prices.go", "MarketToExchangePrices.UpdatePrices", "yes", "call:Lock call:Unlock call:UpdatePrices marketToExchangePrices"]
]

/-- **C20 (lock sites).** Regenerated from the source on every run: a method that reads or writes the
guarded map outside the lock, a new accessor, or a changed call structure fails here. -/
theorem C20_lock_sites : Layer.Gen.lockSites = expectedLockSites := rfl

end Layer.C20
