import LayerModel.Chain.Proposal

/-!
# C17 — vote-extension data reaches state only as signed; proposals stay coherent

Model: `Layer.Proposal` (derivations, inject, compare, registrations).  The handlers themselves are exercised on
the real application by family `proposal` (hostile extension payloads, single-field mutations of the injected
transaction, absent voters), with monitors for acceptance, rejection, panics and the bridge maps after PreBlock.
-/
namespace Layer.Proposal
open Layer

/-- **C17 (coherence).** Every proposal an honest proposer builds from an extended commit that passes
`ValidateVoteExtensions` is accepted by every validator on the same state — for every commit (any mix of
commit/absent votes, undecodable, empty, oversized or hostile extension contents). -/
theorem C17_coherent (env : Env) (commitValid : List Vote → Bool) (commit : List Vote) (h : commitValid commit = true) :
    process env commitValid (prepare env commit) = true := by
  simp [process, prepare, h]

/-- **C17 (tamper).** An accepted proposal carries exactly the data derived from its commit's vote extensions:
any proposal whose registrations, validator-set signatures or attestations differ in any element (or in nil-vs-empty
shape) from what the commit contains is rejected. -/
theorem C17_tamper (env : Env) (commitValid : List Vote → Bool) (inj : Injected)
    (h : process env commitValid inj = true) :
    inj = prepare env inj.commit ∧ commitValid inj.commit = true := by
  simp only [process, Bool.and_eq_true, decide_eq_true_eq] at h
  obtain ⟨⟨⟨hv, h1⟩, h2⟩, h3⟩ := h
  refine ⟨?_, hv⟩
  cases inj
  simp_all [prepare]

theorem zip_fst_snd {α β} : ∀ (l : List (α × β)), (l.map (·.1)).zip (l.map (·.2)) = l
  | [] => rfl
  | x :: xs => by simp [zip_fst_snd xs]

theorem toSlice_getD {α} (l : List α) : (toSlice l).getD [] = l := by
  unfold toSlice; cases l <;> simp

/-- **C17 (parallel lists are aligned).** The derived lists that PreBlocker indexes by position always have equal
lengths, so an accepted proposal never makes it index out of range. -/
theorem C17_lists_aligned (env : Env) (votes : List Vote) :
    ((deriveInit env votes).ops.getD []).length = ((deriveInit env votes).evms.getD []).length ∧
    ((deriveValset votes).ops.getD []).length = ((deriveValset votes).tss.getD []).length ∧
    ((deriveValset votes).ops.getD []).length = ((deriveValset votes).sigs.getD []).length ∧
    ((deriveAtts votes).atts.getD []).length = ((deriveAtts votes).snaps.getD []).length ∧
    ((deriveAtts votes).atts.getD []).length = ((deriveAtts votes).ops.getD []).length := by
  refine ⟨?_, ?_, ?_, ?_, ?_⟩
  · unfold deriveInit; simp only []; split <;> simp
  all_goals simp [deriveValset, deriveAtts, toSlice_getD]

/-- **C17 (an EVM address is registered once, from the validator's own signatures).** The registrations of an
accepted proposal are exactly the (operator, recovered address) pairs of commit votes whose operator has NO address
yet and whose two initial signatures recover to one address: an operator that already has an address is never
written again, and the address comes from that operator's own vote. -/
theorem C17_register_once (env : Env) (commitValid : List Vote → Bool) (inj : Injected)
    (h : process env commitValid inj = true) :
    ∀ p ∈ registrations inj, env.hasEvm p.1 = false ∧
      ∃ v ∈ inj.commit, v.commit = true ∧ v.operator = some p.1 ∧
        ∃ e, v.ext = some e ∧ 64 ≤ e.sigA.length ∧ 64 ≤ e.sigB.length ∧ env.recover e.sigA e.sigB = some p.2 := by
  obtain ⟨hinj, _⟩ := C17_tamper env commitValid inj h
  intro p hp
  have hreg : registrations inj = collectInit env inj.commit := by
    rw [hinj]
    simp only [registrations, prepare, deriveInit]
    split
    · rename_i he; simp [List.isEmpty_iff.mp he]
    · simp [zip_fst_snd]
  rw [hreg] at hp
  unfold collectInit at hp
  obtain ⟨v, hv, hf⟩ := List.mem_filterMap.mp hp
  -- unpack the chain of guards
  by_cases hc : v.commit = true
  · simp only [hc, Bool.not_true, Bool.false_eq_true, if_false] at hf
    cases he : v.ext with
    | none => simp [he] at hf
    | some e =>
      simp only [he] at hf
      split at hf
      · simp at hf
      · split at hf
        · simp at hf
        · rename_i h0 h64
          cases hr : env.recover e.sigA e.sigB with
          | none => simp [hr] at hf
          | some addr =>
            simp only [hr] at hf
            cases ho : v.operator with
            | none => simp [ho] at hf
            | some op =>
              simp only [ho] at hf
              split at hf
              · simp at hf
              · rename_i hne
                injection hf with e1
                subst e1
                refine ⟨by simpa using hne, v, hv, hc, ho, e, he, by omega, by omega, hr⟩
  · simp [hc] at hf

/-- **C17 (no panic on short signatures).** With the guard, address recovery is only reached with two signatures of
at least 64 bytes, where the slicing `sig[:64]` is defined — for every vote-extension payload. -/
theorem C17_no_short_sig_panic (env : Env) (a b : Bytes) (ha : 64 ≤ a.length) (hb : 64 ≤ b.length) :
    recoverOrPanic env a b = some (env.recover a b) := by
  unfold recoverOrPanic
  have : ¬ (a.length < 64 ∨ b.length < 64) := by omega
  simp [this]

/-- **C17 (counterexample before fix 5ee174c).** A 63-byte initial signature passes VerifyVoteExtension's upper
bound and reaches `sig[:64]`: a panic inside Prepare/ProcessProposal. -/
theorem C17_short_sig_counterexample (env : Env) :
    recoverOrPanic env (List.replicate 63 0) (List.replicate 63 0) = none := by
  simp [recoverOrPanic]

/-- **C17 (an attestation lands only in its sender's slot).** Writing an attestation of the validator with EVM address
`addr` into the slots of a snapshot changes no slot other than those whose member (in the validator set the slots are laid out
by) is `addr`, keeps the number of slots, and does write the signature into the sender's slot when it has one. -/
theorem C17_att_own_slot (set : List String) (slots : List Bytes) (addr : String) (sig : Bytes) :
    (placeAtt set slots addr sig).length = slots.length ∧
    (∀ i : Nat, (placeAtt set slots addr sig)[i]? ≠ slots[i]? → set[i]? = some addr) ∧
    (∀ i : Nat, i < slots.length → set[i]? = some addr → (placeAtt set slots addr sig)[i]? = some sig) := by
  refine ⟨by simp [placeAtt], ?_, ?_⟩
  · intro i h
    by_cases hi : i < slots.length
    · by_cases hs : set[i]? = some addr
      · exact hs
      · exfalso; apply h; simp [placeAtt, List.getElem?_mapIdx, hs]
    · exfalso; apply h
      simp [placeAtt, List.getElem?_eq_none (Nat.le_of_not_lt hi)]
  · intro i hi hs
    simp [placeAtt, List.getElem?_mapIdx, hs, List.getElem?_eq_getElem hi]

/-- **C17 (counterexample before fix c849ea3).** Laid out by the *last saved* set after a checkpoint swapped the order of two
validators, A's attestation for a snapshot taken under `[A, B]` lands in slot 0 of `[B, A]`'s layout … i.e. in slot 1 of the
snapshot's own set, which belongs to B. -/
theorem C17_att_slot_counterexample :
    let snapSet := ["A", "B"]; let lastSaved := ["B", "A"]
    (placeAtt lastSaved [[], []] "A" [1])[1]? = some [1] ∧ snapSet[1]? ≠ some "A" := by decide

end Layer.Proposal
