import LayerModel.Lemmas.Escrow

/-!
# C04 — escrow accounts always cover what the chain says it owes

Models: `Layer.Escrow.Oracle` (oracle account vs. unpaid tips), `Layer.Escrow.Tips` (tips escrow vs. selector
credits).  The dispute account's cover is part of the settlement ledger (C13); "the bridge account holds
nothing" and all four statements on the real application are checked block by block by the chain-mode family
`escrow`.
-/
namespace Layer.Escrow
open Layer

def OInv (s : Oracle) : Prop := s.bal = total s.queries

/-- **C04 (oracle account = unpaid tips, exactly).** Over every sequence of tips, round payouts, clean-ups and
query creations the oracle account holds exactly the sum of the unpaid tips of the open queries. -/
theorem C04_oracle_exact (ops : List OOp) (s : Oracle) (h : OInv s) : OInv (ops.foldl ostep s) := by
  induction ops generalizing s with
  | nil => exact h
  | cons op ops ih =>
    apply ih
    unfold OInv at *
    cases op with
    | tip q a => simp [ostep, total] at *; omega
    | pay q =>
      simp only [ostep]
      have := sum_filter_split s.queries q
      omega
    | clear q =>
      simp only [ostep]
      split
      · rename_i hz
        have := sum_filter_split s.queries q
        simp only []; omega
      · exact h
    | open_ q => simp [ostep, total] at *; exact h

def TInv (s : Tips) : Prop :=
  (∀ c ∈ s.credits, 0 ≤ c.2) ∧ creditTotal s.credits ≤ s.bal * Dec.prec + s.events

def validOp : TOp → Prop
  | .pay r cs => validPay r cs
  | .withdraw _ => True

theorem tstep_inv (s : Tips) (op : TOp) (h : TInv s) (hv : validOp op) : TInv (tstep s op) := by
  obtain ⟨hnn, hcov⟩ := h
  cases op with
  | pay r cs =>
    obtain ⟨_, hcs, hsum⟩ := hv
    refine ⟨?_, ?_⟩
    · intro c hc
      simp only [tstep, List.mem_append] at hc
      rcases hc with hc | hc
      · exact hcs c hc
      · exact hnn c hc
    · simp only [tstep, creditTotal, List.map_append, List.sum_append_int] at *
      push_cast
      nlinarith [hcov, hsum]
  | withdraw sel =>
    have hco := creditOf_nonneg s.credits sel hnn
    obtain ⟨_, hlo, _⟩ := trunc_bounds (creditOf s.credits sel) hco
    have hsplit := credit_filter_split s.credits sel
    refine ⟨?_, ?_⟩
    · intro c hc
      simp only [tstep, payout, List.mem_cons] at hc
      rcases hc with rfl | hc
      · simp only []; omega
      · exact hnn c (List.mem_filter.mp hc).1
    · simp only [tstep, payout, creditTotal, List.map_cons, List.sum_cons] at *
      nlinarith [hcov, hsplit]

/-- **C04 (tips escrow covers the credits).** After every sequence of reward payments (each satisfying what C09
proves about `DivvyingTips`: non-negative credits summing to the reward up to one raw unit per credit) and tip
withdrawals, the credited amounts never exceed the escrow balance by more than 10^-18 loya per credit event. -/
theorem C04_escrow_covers (ops : List TOp) (s : Tips) (h : TInv s) (hv : ∀ op ∈ ops, validOp op) :
    TInv (ops.foldl tstep s) := by
  induction ops generalizing s with
  | nil => exact h
  | cons op ops ih =>
    exact ih _ (tstep_inv s op h (hv op (by simp))) (fun o ho => hv o (by simp [ho]))

/-- **C04 (no withdrawal fails for lack of funds).** As long as fewer than 10^18 credit events have happened, the
whole-loya amount `WithdrawTip` pays to any selector is covered by the escrow balance. -/
theorem C04_withdraw_never_short (s : Tips) (sel : String) (h : TInv s) (hev : (s.events : Int) < Dec.prec) :
    payout s sel ≤ s.bal := by
  obtain ⟨hnn, hcov⟩ := h
  have hco := creditOf_nonneg s.credits sel hnn
  have hle := creditOf_le_total s.credits sel hnn
  obtain ⟨_, hlo, _⟩ := trunc_bounds (creditOf s.credits sel) hco
  unfold payout
  have hP : 0 < Dec.prec := by unfold Dec.prec; omega
  by_contra hc
  have : s.bal + 1 ≤ Dec.truncateInt (creditOf s.credits sel) := by omega
  nlinarith [this, hlo, hle, hcov, hev]

/-- non-vacuity: a payment of 1000 loya credited as 600.5 + 399.5, then a withdrawal -/
example : TInv (([TOp.pay 1000 [("a", 600500000000000000000), ("b", 399500000000000000000)], TOp.withdraw "a"].foldl tstep
    { bal := 0, credits := [], events := 0 })) := by
  apply C04_escrow_covers
  · exact ⟨by simp, by simp [creditTotal]⟩
  · intro op hop
    simp at hop
    rcases hop with rfl | rfl
    · refine ⟨by omega, ?_, ?_⟩
      · intro c hc; simp at hc; rcases hc with rfl | rfl <;> simp
      · simp [creditTotal, Dec.prec]
    · trivial

end Layer.Escrow
