import Mathlib.Tactic.Ring
import Mathlib.Tactic.Linarith
import LayerModel.Chain.Settle
import LayerModel.Lemmas.DecBounds

/-!
# C13 — dispute settlement pays out exactly what was paid in, once

Model: `Layer.Settle` (execution amounts per outcome, pro-rata refunds and bond shares with 10^-6 remainders, dust, voter
rewards).
-/
namespace Layer.Settle
open Layer Layer.Dec

/-- `LegacyDec` division of two whole numbers followed by `TruncateInt` is integer division (divisors up to 10^18) -/
theorem truncate_ofInt_quo (a b : Int) (ha : 0 ≤ a) (hb : 0 < b) (hbP : b ≤ prec) :
    Dec.truncateInt (Dec.quo (Dec.ofInt a) (Dec.ofInt b)) = a / b := by
  unfold Dec.truncateInt
  have hP : (0 : Int) < prec := prec_pos
  obtain ⟨q1, q2⟩ := quo_int_bound (Dec.ofInt a) b (by unfold Dec.ofInt; exact Int.mul_nonneg ha (Int.le_of_lt hP)) hb
  generalize Dec.quo (Dec.ofInt a) (Dec.ofInt b) = q at *
  unfold Dec.ofInt at q1 q2
  have hdiv := Int.mul_ediv_add_emod a b
  have hr0 := Int.emod_nonneg a (Int.ne_of_gt hb)
  have hr1 := Int.emod_lt_of_pos a hb
  have hk0 : 0 ≤ a / b := Int.ediv_nonneg ha (Int.le_of_lt hb)
  generalize a / b = k at *
  generalize a % b = r at *
  -- k·P ≤ q < (k+1)·P
  have hlow : k * prec ≤ q := by
    by_contra hlt
    have h1 : q ≤ k * prec - 1 := by omega
    have h2 : q * b ≤ (k * prec - 1) * b := Int.mul_le_mul_of_nonneg_right h1 (Int.le_of_lt hb)
    nlinarith
  have hup : q < (k + 1) * prec := by
    by_contra hge
    have h1 : (k + 1) * prec ≤ q := by omega
    have h2 : (k + 1) * prec * b ≤ q * b := Int.mul_le_mul_of_nonneg_right h1 (Int.le_of_lt hb)
    nlinarith
  have hq0 : 0 ≤ q := by nlinarith
  rw [Int.tdiv_eq_ediv_of_nonneg hq0]
  have h3 : k ≤ q / prec := Int.le_ediv_of_mul_le hP hlow
  have h4 : q / prec < k + 1 := Int.ediv_lt_of_lt_mul hP hup
  omega

/-- **C13 (burn amount).** 5 % of the fee, rounded down; half of it (rounded down) is burned at execution and the same amount
is the voters' pot, so at most one loya of the burn amount is neither. -/
theorem C13_burn_amounts (slash : Int) (h : 0 ≤ slash) :
    burnAmount slash = slash / 20 ∧ halfBurn (burnAmount slash) = slash / 20 / 2 ∧
    0 ≤ burnAmount slash - 2 * halfBurn (burnAmount slash) ∧ burnAmount slash - 2 * halfBurn (burnAmount slash) ≤ 1 := by
  have hb : burnAmount slash = slash / 20 := by
    unfold burnAmount Dec.mul
    have e : Dec.ofInt slash * Dec.ofInt 1 = (slash * prec) * prec := by unfold Dec.ofInt; ring
    rw [e, chopRound_mul_prec]
    exact truncate_ofInt_quo slash 20 h (by omega) (by unfold prec; omega)
  have hh : halfBurn (slash / 20) = slash / 20 / 2 :=
    truncate_ofInt_quo (slash / 20) 2 (Int.ediv_nonneg h (by omega)) (by omega) (by unfold prec; omega)
  rw [hb, hh]
  refine ⟨rfl, rfl, ?_, ?_⟩ <;> omega

/-- **C13 (execution conserves the escrow, for any number of rounds).** What execution burns, returns to the reporter's side and
sets aside for fee payers (refund pot, and the reporter's bond when the dispute is supported) and voters adds up to the fees of all
rounds plus the escrowed stake (2·slash + roundFees), except for the odd loya of the burn amount when somebody voted. -/
theorem C13_execute_conserves (slash burn roundFees : Int) (anyVoter : Bool) (o : Outcome) :
    let e := execute slash burn anyVoter o roundFees
    e.burned + e.toReporter + e.payerPot + e.bondPot + e.voterReward + (if anyVoter then burn - 2 * halfBurn burn else 0) = 2 * slash + roundFees := by
  cases o <;> cases anyVoter <;> simp [execute] <;> omega

/-- `fee·pot·10^6 / feeTotal` computed through LegacyDec is the integer quotient -/
theorem share12_exact (fee pot F : Int) (hf : 0 ≤ fee) (hp : 0 ≤ pot) (hF : 0 < F) (hFP : F ≤ prec) :
    Dec.truncateInt (share12Dec fee pot F) = fee * pot * 1000000 / F := by
  unfold share12Dec Dec.mul
  have e1 : Dec.ofInt fee * Dec.ofInt pot = (fee * pot * prec) * prec := by unfold Dec.ofInt; ring
  rw [e1, chopRound_mul_prec]
  have e2 : fee * pot * prec * Dec.ofInt 1000000 = (fee * pot * 1000000 * prec) * prec := by unfold Dec.ofInt; ring
  rw [e2, chopRound_mul_prec]
  have e3 : fee * pot * 1000000 * prec = Dec.ofInt (fee * pot * 1000000) := by unfold Dec.ofInt; ring
  rw [e3]
  exact truncate_ofInt_quo _ F (by positivity) hF hFP

/-- **C13 (a refund is the pro-rata part, rounded down, never more).** -/
theorem C13_refund_pro_rata (fee pot F : Int) (hf : 0 ≤ fee) (hp : 0 ≤ pot) (hF : 0 < F) (hFP : F ≤ prec) :
    (refund fee pot F).1 * F ≤ fee * pot ∧ fee * pot < ((refund fee pot F).1 + 1) * F ∧
    0 ≤ (refund fee pot F).2 ∧ (refund fee pot F).2 < 1000000 := by
  unfold refund
  simp only []
  rw [share12_exact fee pot F hf hp hF hFP]
  have hn : 0 ≤ fee * pot * 1000000 := by positivity
  have hq0 : 0 ≤ fee * pot * 1000000 / F := Int.ediv_nonneg hn (Int.le_of_lt hF)
  rw [Int.tdiv_eq_ediv_of_nonneg hq0, Int.tmod_eq_emod_of_nonneg hq0]
  have d1 := Int.mul_ediv_add_emod (fee * pot * 1000000) F
  have r1 := Int.emod_nonneg (fee * pot * 1000000) (Int.ne_of_gt hF)
  have r2 := Int.emod_lt_of_pos (fee * pot * 1000000) hF
  have d2 := Int.mul_ediv_add_emod (fee * pot * 1000000 / F) 1000000
  have s1 := Int.emod_nonneg (fee * pot * 1000000 / F) (by omega : (1000000 : Int) ≠ 0)
  have s2 := Int.emod_lt_of_pos (fee * pot * 1000000 / F) (by omega : (0 : Int) < 1000000)
  generalize fee * pot * 1000000 / F = q at *
  generalize fee * pot * 1000000 % F = r at *
  generalize q / 1000000 = m at *
  generalize q % 1000000 = s at *
  refine ⟨?_, ?_, s1, s2⟩ <;> nlinarith

/-- **C13 (refunds never exceed their pot; at most one loya per payer stays behind).** For payers whose recorded fees add up to
the fee total, the refunds add up to at most the pot, and the pot exceeds them by less than the number of payers. -/
theorem C13_refunds_within_pot (fees : List Int) (pot F : Int) (hfees : ∀ f ∈ fees, 0 ≤ f) (hp : 0 ≤ pot) (hF : 0 < F) (hFP : F ≤ prec)
    (hsum : fees.sum = F) :
    (fees.map (fun f => (refund f pot F).1)).sum ≤ pot ∧ pot - (fees.map (fun f => (refund f pot F).1)).sum < fees.length := by
  have key : ∀ (l : List Int), (∀ f ∈ l, 0 ≤ f) →
      (l.map (fun f => (refund f pot F).1)).sum * F ≤ l.sum * pot ∧ l.sum * pot < ((l.map (fun f => (refund f pot F).1)).sum + l.length) * F ∨ l = [] := by
    intro l
    induction l with
    | nil => intro _; right; rfl
    | cons x xs ih =>
      intro hx
      left
      have h0 := C13_refund_pro_rata x pot F (hx x (by simp)) hp hF hFP
      rcases ih (fun f hf => hx f (by simp [hf])) with ⟨i1, i2⟩ | hnil
      · simp only [List.map_cons, List.sum_cons, List.length_cons]
        constructor <;> push_cast <;> nlinarith [h0.1, h0.2.1]
      · subst hnil
        simp only [List.map_cons, List.map_nil, List.sum_cons, List.sum_nil, List.length_cons, List.length_nil]
        constructor <;> push_cast <;> nlinarith [h0.1, h0.2.1]
  rcases key fees hfees with ⟨k1, k2⟩ | hnil
  · rw [hsum] at k1 k2
    constructor
    · have : (fees.map (fun f => (refund f pot F).1)).sum * F ≤ pot * F := by nlinarith
      exact le_of_mul_le_mul_right this hF
    · have : pot * F < ((fees.map (fun f => (refund f pot F).1)).sum + fees.length) * F := by nlinarith
      have := lt_of_mul_lt_mul_right this (Int.le_of_lt hF)
      omega
  · subst hnil; simp at hsum; omega

/-- **C13 (claims happen once).** A payer record is consumed by its refund: the second request finds none. -/
def withdrawRecord (recs : List (String × Int)) (payer : String) : Option (Int × List (String × Int)) :=
  match recs.find? (·.1 == payer) with
  | none => none
  | some r => some (r.2, recs.filter (fun x => !(x.1 == payer)))

theorem C13_refund_once (recs : List (String × Int)) (payer : String) (amt : Int) (rest : List (String × Int))
    (h : withdrawRecord recs payer = some (amt, rest)) : withdrawRecord rest payer = none := by
  unfold withdrawRecord at h
  cases hf : recs.find? (·.1 == payer) with
  | none => simp [hf] at h
  | some r =>
    simp only [hf, Option.some.injEq, Prod.mk.injEq] at h
    obtain ⟨_, hrest⟩ := h
    subst hrest
    unfold withdrawRecord
    have : (recs.filter (fun x => !(x.1 == payer))).find? (·.1 == payer) = none := by
      rw [List.find?_eq_none]
      intro x hx
      have := (List.mem_filter.mp hx).2
      simpa using this
    simp [this]

/-- **C13 (a sole voter of every voting group receives the whole pot).** (Before the tips-lookup fix the user group's share was
computed from the tips at the block numbered like the dispute id and was lost.) -/
theorem C13_sole_voter_whole_pot (vr u r h : Int) (hvr : 0 ≤ vr) (hu : 0 < u) (hr : 0 < r) (hh : 0 < h) :
    reward vr u r h u r h = some vr := by
  unfold reward
  have hu' : ¬ u = 0 := by omega
  have hr' : ¬ r = 0 := by omega
  have hh' : ¬ h = 0 := by omega
  simp only [hu', hr', hh', ↓reduceIte]
  have hP : (0 : Int) < prec := prec_pos
  have one : ∀ a : Int, 0 < a → Dec.quo (Dec.mul (Dec.ofInt a) (Dec.ofInt 1000000)) (Dec.ofInt a) = 1000000 * prec := by
    intro a ha
    unfold Dec.mul Dec.quo
    have e1 : Dec.ofInt a * Dec.ofInt 1000000 = (a * 1000000 * prec) * prec := by unfold Dec.ofInt; ring
    rw [e1, chopRound_mul_prec]
    have e2 : a * 1000000 * prec * prec * prec = (1000000 * prec * prec) * (Dec.ofInt a) := by unfold Dec.ofInt; ring
    rw [e2, Int.mul_tdiv_cancel _ (by unfold Dec.ofInt; exact Int.ne_of_gt (Int.mul_pos ha hP))]
    have e3 : (1000000 : Int) * prec * prec = (1000000 * prec) * prec := by ring
    rw [e3, chopRound_mul_prec]
  rw [one u hu, one r hr, one h hh]
  have eg : ((1 : Int) + 1 + 1) = 3 := by norm_num
  simp only [eg]
  unfold Dec.mul Dec.quo Dec.truncateInt
  have e4 : (1000000 * prec + 1000000 * prec + 1000000 * prec) * Dec.ofInt vr = (3000000 * vr * prec) * prec := by unfold Dec.ofInt; ring
  rw [e4, chopRound_mul_prec]
  have e5 : Dec.ofInt 3 * Dec.ofInt 1000000 = (3000000 * prec) * prec := by unfold Dec.ofInt; ring
  rw [e5, chopRound_mul_prec]
  have e6 : 3000000 * vr * prec * prec * prec = (vr * prec * prec) * (3000000 * prec) := by ring
  rw [e6, Int.mul_tdiv_cancel _ (by unfold prec; omega)]
  have e7 : vr * prec * prec = (vr * prec) * prec := by ring
  rw [e7, chopRound_mul_prec, Int.mul_tdiv_cancel _ (Int.ne_of_gt hP)]
  simp

/-- hypotheses are satisfiable: a 10 000 000 loya dispute with three payers -/
example : (refund 2500000 9500000 10000000).1 = 2375000 ∧ ([2500000, 2500000, 5000000] : List Int).sum = 10000000 := by decide

end Layer.Settle
