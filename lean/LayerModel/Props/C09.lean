import LayerModel.Lemmas.Rewards
import LayerModel.Lemmas.DecBounds
import LayerModel.Gen.Formulas

/-!
# C09 — each reward is split exactly, non-negatively and in proportion to backing stake

Models: `Layer.Rewards.allocate` (`AllocateRewards`), `Layer.Rewards.divvy` (`DivvyingTips`),
over the exact `LegacyDec` model (`Layer.Dec`).  All amounts are raw 10^-18 integers.
-/
namespace Layer.Rewards
open Layer Layer.Agg

/-- **C09 (the share formula is the code's).** `amount := power.Quo(tPower).Mul(reward.ToLegacyDec())`
as regenerated from x/oracle/keeper/rewards.go on every run is the model's `calculateRewardAmount`. -/
theorem C09_formula (rp cnt tp : Nat) (reward : Int) :
    calculateRewardAmount rp cnt tp reward = Layer.Gen.rewardAmount (i64 rp) (i64 cnt) (i64 tp) reward := rfl

/-- **C09 (allocation is exact).** Whenever a non-zero reward is paid for aggregates that list at
least one reporter, the amounts handed to `AllocateTip` sum to the reward exactly — for every
number of reporters, powers, counts and reward size (the last reporter in address order absorbs
the rounding remainder). -/
theorem C09_allocated_sum_exact (aggs : List (String × List AggReporter)) (reward : Int)
    (hr : reward ≠ 0) (hne : ∃ a ∈ aggs, a.2 ≠ []) :
    amountSum (allocate aggs reward) = Dec.ofInt reward := by
  unfold allocate
  simp only [hr, if_false]
  have hm : (collect aggs).1 ≠ [] := collect_ne_nil aggs ([], 0) (Or.inl hne)
  have hs : sortByAddr (collect aggs).1 ≠ [] := by
    intro h
    have := (List.mergeSort_perm (collect aggs).1 (fun a b => decide (a.addr ≤ b.addr))).length_eq
    simp only [sortByAddr] at h
    rw [h] at this
    exact hm (List.length_eq_zero_iff.mp this.symm)
  have := payLoop_sum (collect aggs).2 reward _ 0 hs
  simpa using this

/-- **C09 (commission exactly once).** The credits of one `DivvyingTips` call are the pro-rata
shares of the net reward plus the commission, once — whether the reporter has one, several or no
token origins of its own. -/
theorem C09_commission_once (reporter : String) (rate reward : Int) (os : List Origin) (total : Int) :
    creditSum (divvy reporter rate reward os total) =
      Dec.mul reward rate + shareSum (reward - Dec.mul reward rate) total os := by
  unfold divvy
  simp only []
  have hsum := divvyLoop_sum reporter (Dec.mul reward rate) (reward - Dec.mul reward rate) total os false
  cases hp : (divvyLoop reporter (Dec.mul reward rate) (reward - Dec.mul reward rate) total false os).2 with
  | true =>
    simp only [hp, Bool.not_true, Bool.false_and, Bool.false_eq_true, if_false] at *
    rw [hsum]; simp; omega
  | false =>
    simp only [hp] at hsum
    by_cases hc : Dec.mul reward rate = 0
    · simp only [Bool.not_false, Bool.true_and, hc, ne_eq, not_true_eq_false, decide_false, Bool.false_eq_true, if_false] at *
      rw [hsum]; simp
    · simp only [Bool.not_false, Bool.true_and, ne_eq, hc, not_false_eq_true, decide_true, if_true]
      simp only [creditSum, List.map_append, List.sum_append_int, List.map_cons, List.map_nil, List.sum_cons, List.sum_nil] at *
      rw [hsum]; simp; omega

/-- **C09 (the credits sum to the reward, to within 10^-18 per credit).** When the recorded total is the
sum of the recorded origins (as the report snapshot guarantees), the commission rate is in [0, 1] and the
reward non-negative, the credits of one `DivvyingTips` call differ from the reward by at most one raw unit
(10^-18 loya) per token origin — for every reward, rate, number of origins and amounts. -/
theorem C09_divvy_sum (reporter : String) (rate reward : Int) (os : List Origin) (total : Int)
    (hr0 : 0 ≤ rate) (hr1 : rate ≤ Dec.prec) (hrew : 0 ≤ reward) (ht : 0 < total)
    (ha : ∀ o ∈ os, 0 ≤ o.amount) (hsum : amtSum os = total) :
    creditSum (divvy reporter rate reward os total) - reward ≤ os.length ∧
    reward - creditSum (divvy reporter rate reward os total) ≤ os.length := by
  have hc0 : 0 ≤ Dec.mul reward rate := Dec.chopRound_nonneg (Int.mul_nonneg hrew hr0)
  have hc1 : Dec.mul reward rate ≤ reward :=
    Dec.chopRound_le_of_le_mul (Int.mul_nonneg hrew hr0) (Int.mul_le_mul_of_nonneg_left hr1 hrew)
  have hn : 0 ≤ reward - Dec.mul reward rate := by omega
  rw [C09_commission_once]
  obtain ⟨h1, h2⟩ := shareSum_bound (reward - Dec.mul reward rate) total hn ht os ha
  rw [hsum] at h1 h2
  generalize shareSum (reward - Dec.mul reward rate) total os = S at *
  generalize Dec.mul reward rate = c at *
  generalize (os.length : Int) = n at *
  constructor <;> nlinarith [h1, h2, ht]

/-- **C09 (no negative credit).** For a commission rate in [0, 1], a non-negative reward, non-negative
recorded amounts and a positive recorded total, every credit is non-negative. -/
theorem C09_divvy_nonneg (reporter : String) (rate reward : Int) (os : List Origin) (total : Int)
    (hr0 : 0 ≤ rate) (hr1 : rate ≤ Dec.prec) (hrew : 0 ≤ reward) (ht : 0 < total)
    (ha : ∀ o ∈ os, 0 ≤ o.amount) :
    ∀ c ∈ divvy reporter rate reward os total, 0 ≤ c.2 := by
  have hc0 : 0 ≤ Dec.mul reward rate := Dec.chopRound_nonneg (Int.mul_nonneg hrew hr0)
  have hc1 : Dec.mul reward rate ≤ reward :=
    Dec.chopRound_le_of_le_mul (Int.mul_nonneg hrew hr0) (Int.mul_le_mul_of_nonneg_left hr1 hrew)
  have hn : 0 ≤ reward - Dec.mul reward rate := by omega
  intro c hc
  unfold divvy at hc
  simp only [] at hc
  have hloop := divvyLoop_nonneg reporter hc0 hn ht os false ha
  split at hc
  · rcases List.mem_append.mp hc with h | h
    · exact hloop c h
    · simp at h; subst h; exact hc0
  · exact hloop c hc

/-- non-vacuity of the hypotheses: rate ½, reward 1000, two origins of the reporter, one of a selector -/
example : divvy "r" 500000000000000000 (1000 * Dec.prec) [⟨"r", "v1", 10⟩, ⟨"r", "v2", 10⟩, ⟨"s", "v1", 20⟩] 40 =
    [("r", 625 * Dec.prec), ("r", 125 * Dec.prec), ("s", 250 * Dec.prec)] := by decide

/-- **C09 (counterexample, recorded finding `commission-range`).** `CreateReporter` accepts rates up to
100 (and negative ones) while `DivvyingTips` uses the rate as a fraction: with rate 2 the selectors'
credits are negative. -/
theorem C09_commission_range_counterexample :
    ∃ c ∈ divvy "r" (2 * Dec.prec) (1000 * Dec.prec) [⟨"r", "v", 10⟩, ⟨"s", "v", 10⟩] 20, c.2 < 0 :=
  ⟨("s", -500 * Dec.prec), by decide, by decide⟩

/-- **C09 (counterexample for the loop before the `fix:` commit).** Two own origins doubled the commission:
1500 credited for a reward of 1000. -/
theorem C09_double_commission_counterexample :
    creditSum (divvyOld "r" 500000000000000000 (1000 * Dec.prec) [⟨"r", "v1", 10⟩, ⟨"r", "v2", 10⟩] 20) = 1500 * Dec.prec := by
  decide

end Layer.Rewards
