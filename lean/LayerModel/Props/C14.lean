import LayerModel.Chain.BridgeClaim
import LayerModel.Props.C07

/-!
# C14 — bridge deposits mint once, conditionally; withdrawals burn what they attest

Model: `Layer.BridgeClaim` (claims, batches, withdrawals).  The withdrawal value's byte layout and the query ids
are C15's (`goWithdrawValue`, `goQueryData`); "no reporter can create or influence an aggregate for a withdrawal
query" is `C07_withdrawal_never_reportable` together with the oracle model in which the only other writer of
aggregates (`aggregateOne`) consumes stored reports.
-/
namespace Layer.BridgeClaim

/-- **C14 (a claim succeeds only if …).** Success implies, in this order: the aggregate exists, is not flagged, the
id was not claimed before, a checkpoint strictly older than the aggregate exists and its threshold is at most the
aggregate's power, the aggregate is at least 12 h old at the block time, the value decodes with a valid recipient. -/
theorem C14_claim_only_if (claimed : List Nat) (x : ClaimIn) (c' : List Nat) (p : Payout)
    (h : claim claimed x = .ok (c', p)) :
    ∃ agg thr d, x.agg = some agg ∧ agg.flagged = false ∧ x.depositId ∉ claimed ∧ x.threshold = some thr ∧
      thr ≤ agg.power ∧ twelveHoursNs ≤ x.nowNs - (agg.tsMs : Int) * 1000000 ∧ x.decoded = some d ∧ d.recipientOk = true ∧
      c' = x.depositId :: claimed := by
  unfold claim at h
  cases hagg : x.agg with
  | none => simp [hagg] at h
  | some agg =>
    simp only [hagg] at h
    split at h
    · simp at h
    · rename_i hfl
      split at h
      · simp at h
      · rename_i hcl
        cases hthr : x.threshold with
        | none => simp [hthr] at h
        | some thr =>
          simp only [hthr] at h
          split at h
          · simp at h
          · rename_i hpw
            split at h
            · simp at h
            · rename_i hage
              cases hd : x.decoded with
              | none => simp [hd] at h
              | some d =>
                simp only [hd] at h
                split at h
                · simp at h
                · rename_i hrec
                  have hc' : c' = x.depositId :: claimed := by
                    repeat' split at h
                    all_goals first | (simp at h; done) | (injection h with e; injection e with e1 _; exact e1.symm)
                  exact ⟨agg, thr, d, rfl, by simpa using hfl, by simpa using hcl, rfl, by omega, by omega, rfl,
                    by simpa using hrec, hc'⟩

/-- claimed ids stay claimed -/
theorem claim_mono (claimed : List Nat) (x : ClaimIn) (c' : List Nat) (p : Payout) (h : claim claimed x = .ok (c', p)) :
    ∀ i ∈ claimed, i ∈ c' := by
  obtain ⟨_, _, _, _, _, _, _, _, _, _, _, hc⟩ := C14_claim_only_if claimed x c' p h
  intro i hi; rw [hc]; simp [hi]

theorem claimBatch_mono : ∀ (batch : List ClaimIn) (claimed c' : List Nat) (ps : List Payout),
    claimBatch claimed batch = .ok (c', ps) → ∀ i ∈ claimed, i ∈ c'
  | [], claimed, c', ps, h, i, hi => by simp [claimBatch] at h; rw [← h.1]; exact hi
  | x :: xs, claimed, c', ps, h, i, hi => by
    unfold claimBatch at h
    cases hc : claim claimed x with
    | error e => simp [hc] at h
    | ok r =>
      obtain ⟨c1, p⟩ := r
      simp only [hc] at h
      cases hb : claimBatch c1 xs with
      | error e => simp [hb] at h
      | ok r2 =>
        obtain ⟨c2, ps2⟩ := r2
        simp only [hb] at h
        injection h with e; injection e with e1 _; subst e1
        exact claimBatch_mono xs c1 c2 ps2 hb i (claim_mono claimed x c1 p hc i hi)

/-- **C14 (once claimed, never again).** If `id` is in the claimed set, every later claim of `id` — alone or anywhere
inside a batch — fails, in every reachable state. -/
theorem C14_no_second_claim (claimed : List Nat) (x : ClaimIn) (hid : x.depositId ∈ claimed) :
    ∀ c' p, claim claimed x ≠ .ok (c', p) := by
  intro c' p h
  obtain ⟨_, _, _, _, _, hn, _⟩ := C14_claim_only_if claimed x c' p h
  exact hn hid

/-- a successful batch claims every id in it exactly once: ids inside one batch are pairwise distinct and new -/
theorem C14_batch_distinct : ∀ (batch : List ClaimIn) (claimed c' : List Nat) (ps : List Payout),
    claimBatch claimed batch = .ok (c', ps) →
    (batch.map (·.depositId)).Nodup ∧ ∀ x ∈ batch, x.depositId ∉ claimed
  | [], _, _, _, _ => by simp
  | x :: xs, claimed, c', ps, h => by
    unfold claimBatch at h
    cases hc : claim claimed x with
    | error e => simp [hc] at h
    | ok r =>
      obtain ⟨c1, p⟩ := r
      simp only [hc] at h
      cases hb : claimBatch c1 xs with
      | error e => simp [hb] at h
      | ok r2 =>
        obtain ⟨c2, ps2⟩ := r2
        obtain ⟨_, _, _, _, _, hn, _, _, _, _, _, hc1⟩ := C14_claim_only_if claimed x c1 p hc
        obtain ⟨hnd, hnew⟩ := C14_batch_distinct xs c1 c2 ps2 hb
        refine ⟨?_, ?_⟩
        · simp only [List.map_cons, List.nodup_cons]
          refine ⟨?_, hnd⟩
          intro hmem
          obtain ⟨y, hy, hyid⟩ := List.mem_map.mp hmem
          have := hnew y hy
          rw [hc1, hyid] at this
          simp at this
        · intro y hy
          rcases List.mem_cons.mp hy with rfl | hy'
          · exact hn
          · intro hin
            have := hnew y hy'
            rw [hc1] at this
            exact this (by simp [hin])

/-- **C14 (a deposit id is claimed at most once).** Once an id is in the claimed set it stays there through every
later transaction, and every later transaction that contains a claim of it — alone or inside a batch, in any
position — is rejected as a whole; a successful claim puts the id into the set.  Hence over every history the number
of successful claims of one id is at most one. -/
theorem C14_claim_once (claimed : List Nat) (id : Nat) (hid : id ∈ claimed) :
    (∀ batch : List ClaimIn, (∃ x ∈ batch, x.depositId = id) → txStep claimed batch = (claimed, [])) ∧
    (∀ batch : List ClaimIn, id ∈ (txStep claimed batch).1) := by
  constructor
  · rintro batch ⟨x, hx, hxid⟩
    unfold txStep
    cases hb : claimBatch claimed batch with
    | error e => rfl
    | ok r =>
      obtain ⟨c, ps⟩ := r
      have := (C14_batch_distinct batch claimed c ps hb).2 x hx
      rw [hxid] at this
      exact absurd hid this
  · intro batch
    unfold txStep
    cases hb : claimBatch claimed batch with
    | error e => exact hid
    | ok r =>
      obtain ⟨c, ps⟩ := r
      exact claimBatch_mono batch claimed c ps hb id hid

/-- **C14 (minted amount and split).** For every reported amount (no size bound since the fix of the `Int64()` conversion) and a
tip with `⌊tip/10^12⌋ ≤ ⌊amount/10^12⌋`, a successful claim mints exactly `⌊amount/10^12⌋`, pays `⌊tip/10^12⌋` to the
claimer and the rest to the reported recipient. -/
theorem C14_mint_amount (claimed : List Nat) (x : ClaimIn) (c' : List Nat) (p : Payout) (d : Decoded)
    (h : claim claimed x = .ok (c', p)) (hd : x.decoded = some d)
    (htip : d.tip / 1000000000000 ≤ d.amount / 1000000000000) :
    p.minted = d.amount / 1000000000000 ∧ p.toClaimer = d.tip / 1000000000000 ∧ p.toClaimer + p.toRecipient = p.minted := by
  unfold claim at h
  cases hagg : x.agg with
  | none => simp [hagg] at h
  | some agg =>
    simp only [hagg, hd] at h
    repeat' split at h
    all_goals first
      | (simp at h; done)
      | (injection h with e; injection e with _ e2; subst e2; simp only []; omega)

/-- **C14 (counterexample before the fix).** `DecodeDepositReportValue` converted `⌊amount/10^12⌋` with `big.Int.Int64()`: for a
reported amount of (2^64 + 5)·10^12 the claim succeeded and minted 5. -/
theorem C14_mint_wrap_counterexample :
    claimOld [] { depositId := 1, agg := some ⟨false, 0, 10⟩, threshold := some 5, nowNs := 50000000000000,
                  decoded := some ⟨true, 18446744073709551621000000000000, 0⟩ } =
      .ok ([1], { minted := 5, toClaimer := 0, toRecipient := 5 }) := by rfl

/-- **C14 (withdrawal).** A withdrawal reduces the supply by exactly the requested amount and takes a fresh id,
one above the previous (the first is 1): ids strictly increase over any sequence of withdrawals. -/
theorem C14_withdraw (s : WSt) (amount : Nat) :
    (withdraw s amount).1.supply = s.supply - amount ∧
    (withdraw s amount).1.lastId = some (withdraw s amount).2 ∧
    (∀ i, s.lastId = some i → (withdraw s amount).2 = i + 1) ∧ (s.lastId = none → (withdraw s amount).2 = 1) := by
  unfold withdraw
  cases s.lastId <;> simp

/-- **C14 (no reporter can create an aggregate for a withdrawal query).** Restated from C07. -/
theorem C14_no_report_influence (s : Oracle.S) (h : Nat) (qid : String) (spec : Oracle.Spec) (ri : Oracle.RepIn) :
    Oracle.submit s h qid .withdraw spec ri = none := Oracle.C07_withdrawal_never_reportable s h qid spec ri

end Layer.BridgeClaim
