import LayerModel.Chain.Authz
import LayerModel.Lemmas.Abi
import LayerModel.Gen.AuthoritySites
import LayerModel.Gen.GovernedWrites
import LayerModel.Gen.GovernedCalls
import LayerModel.Gen.SignerFields

/-!
# C19 — privileged changes need governance; messages touch only the signer's assets

Model: `Layer.Authz`.  The theorems below cover the privileged half of the statement for every transaction sequence; the
tables regenerated from /repo on every run (handler guards, governed store writes, declared signer fields) are proved to
be exactly the ones the model assumes.  The frame half (no message reduces a non-signer's holdings outside the three
listed exceptions) is decided on the real application by the chain family `authz` (see DESIGN.md).
-/
namespace Layer.Authz

theorem step_exec (gov : String) (g : Gov) (s : String) (m : Msg) (hx : (step gov g s m).2 = true) :
    s = m.signer ∧ (handle gov g m).isSome = true := by
  unfold step at hx
  split at hx
  · simp at hx
  · rename_i hs
    refine ⟨by simpa using hs, ?_⟩
    split at hx
    · rename_i h; simp [h]
    · simp at hx

theorem step_fst (gov : String) (g : Gov) (s : String) (m : Msg) :
    (step gov g s m).1 = if s = m.signer then (handle gov g m).getD g else g := by
  unfold step
  by_cases hs : s = m.signer
  · simp only [hs, ne_eq, not_true_eq_false, ↓reduceIte]
    cases handle gov g m <;> rfl
  · simp [hs]

theorem handle_priv (gov : String) (g : Gov) (m : Msg) (hp : m.privileged = true) (h : (handle gov g m).isSome = true) :
    m.signer = gov := by
  cases m with
  | updateParams mo a v => by_cases ha : a = gov; exact ha; simp [handle, ha] at h
  | updateCyclelist a l => by_cases ha : a = gov; exact ha; simp [handle, ha] at h
  | updateDataSpec a t sp => by_cases ha : a = gov; exact ha; simp [handle, ha] at h
  | mintInit a => by_cases ha : a = gov; exact ha; simp [handle, ha] at h
  | updateSnapshotLimit a n => by_cases ha : a = gov; exact ha; simp [handle, ha] at h
  | updateTeam c n => simp [Msg.privileged] at hp
  | registerSpec r t sp => simp [Msg.privileged] at hp
  | other o => simp [Msg.privileged] at hp

/-- **C19 (a privileged message is executed only for the governance authority).** -/
theorem C19_privileged_needs_gov (gov : String) (g : Gov) (s : String) (m : Msg) (hp : m.privileged = true)
    (hx : (step gov g s m).2 = true) : s = gov := by
  obtain ⟨h1, h2⟩ := step_exec gov g s m hx
  rw [h1]; exact handle_priv gov g m hp h2

/-- a rejected or unprivileged step by somebody else keeps every governed component except that new spec types may be added -/
def frozen (g g' : Gov) : Prop :=
  g'.params = g.params ∧ g'.cyclelist = g.cyclelist ∧ g'.mintStarted = g.mintStarted ∧ g'.snapshotLimit = g.snapshotLimit ∧
  g'.team = g.team ∧ ∀ t v, lookup g.specs t = some v → lookup g'.specs t = some v

theorem frozen_refl (g : Gov) : frozen g g := ⟨rfl, rfl, rfl, rfl, rfl, fun _ _ h => h⟩

theorem frozen_trans {a b c : Gov} (h1 : frozen a b) (h2 : frozen b c) : frozen a c := by
  obtain ⟨p1, c1, m1, s1, t1, f1⟩ := h1
  obtain ⟨p2, c2, m2, s2, t2, f2⟩ := h2
  exact ⟨p2.trans p1, c2.trans c1, m2.trans m1, s2.trans s1, t2.trans t1, fun t v h => f2 t v (f1 t v h)⟩

theorem lookup_append_of_some (l : List (String × String)) (t v k w : String) (h : lookup l t = some v) :
    lookup (l ++ [(k, w)]) t = some v := by
  unfold lookup at *
  rw [List.find?_append]
  cases hf : l.find? (·.1 == t) with
  | none => simp [hf] at h
  | some p => simpa [hf] using h

/-- what the handler does for a signer that is neither the authority nor the team -/
theorem handle_frozen (gov : String) (g : Gov) (m : Msg) (hs : m.signer ≠ gov) (ht : m.signer ≠ g.team) :
    frozen g ((handle gov g m).getD g) := by
  cases m with
  | updateParams mo a v => have : a ≠ gov := hs; simp [handle, this]; exact frozen_refl g
  | updateCyclelist a l => have : a ≠ gov := hs; simp [handle, this]; exact frozen_refl g
  | updateDataSpec a t sp => have : a ≠ gov := hs; simp [handle, this]; exact frozen_refl g
  | mintInit a => have : a ≠ gov := hs; simp [handle, this]; exact frozen_refl g
  | updateSnapshotLimit a n => have : a ≠ gov := hs; simp [handle, this]; exact frozen_refl g
  | updateTeam c n => have : c ≠ g.team := ht; simp [handle, this]; exact frozen_refl g
  | registerSpec r t sp =>
    simp only [handle]
    split
    · exact frozen_refl g
    · exact ⟨rfl, rfl, rfl, rfl, rfl, fun t' v h => lookup_append_of_some _ _ _ _ _ h⟩
  | other o => exact frozen_refl g

theorem step_frozen (gov : String) (g : Gov) (s : String) (m : Msg) (hs : s ≠ gov) (ht : s ≠ g.team) :
    frozen g (step gov g s m).1 := by
  rw [step_fst]
  split
  · rename_i h; exact handle_frozen gov g m (h ▸ hs) (h ▸ ht)
  · exact frozen_refl g

/-- **C19 (the team address changes only at the request of the current team address).** -/
theorem C19_team_only_by_team (gov : String) (g : Gov) (s : String) (m : Msg)
    (hc : (step gov g s m).1.team ≠ g.team) : s = g.team ∧ ∃ n, m = .updateTeam g.team n := by
  rw [step_fst] at hc
  split at hc
  · rename_i hs
    cases m with
    | updateParams mo a v => exfalso; apply hc; simp only [handle]; split <;> rfl
    | updateCyclelist a l => exfalso; apply hc; simp only [handle]; split <;> (try split) <;> rfl
    | updateDataSpec a t sp => exfalso; apply hc; simp only [handle]; split <;> (try split) <;> rfl
    | mintInit a => exfalso; apply hc; simp only [handle]; split <;> (try split) <;> rfl
    | updateSnapshotLimit a n => exfalso; apply hc; simp only [handle]; split <;> rfl
    | updateTeam c n =>
      by_cases hct : c = g.team
      · subst hct; exact ⟨hs, n, rfl⟩
      · exfalso; apply hc; simp [handle, hct]
    | registerSpec r t sp => exfalso; apply hc; simp only [handle]; split <;> rfl
    | other o => exfalso; apply hc; rfl
  · exact absurd rfl hc

/-- **C19 (governed state is out of reach).** Whatever transactions accounts other than the governance authority and the
team address sign — any message, any value in the authority field, any order — parameters, cycle list, the start of
minting, the snapshot limit and the team address stay as they are, and every registered data spec keeps its content
(re-registration cannot replace it). -/
theorem C19_governed_frozen (gov : String) (txs : List (String × Msg)) (g : Gov)
    (h : ∀ t ∈ txs, t.1 ≠ gov ∧ t.1 ≠ g.team) : frozen g (run gov g txs) := by
  induction txs generalizing g with
  | nil => exact frozen_refl g
  | cons t ts ih =>
    have h0 := h t (by simp)
    have hstep := step_frozen gov g t.1 t.2 h0.1 h0.2
    have hteam : (step gov g t.1 t.2).1.team = g.team := hstep.2.2.2.2.1
    have := ih (step gov g t.1 t.2).1 (fun t' ht' => by
      have := h t' (by simp [ht']); rw [hteam]; exact this)
    exact frozen_trans hstep this

/-- **C19 (re-registration).** A `RegisterSpec` for a type that has a spec is not executed, by anybody. -/
theorem C19_register_no_replace (gov : String) (g : Gov) (s r t sp v : String) (h : lookup g.specs t = some v) :
    step gov g s (.registerSpec r t sp) = (g, false) := by
  unfold step; split
  · rfl
  · simp [handle, h]

/-- hypotheses of the theorems are met by concrete non-trivial data -/
example : (step "gov" ⟨[], ["q"], [("spot", "s")], false, 5, "team"⟩ "mallory" (.updateSnapshotLimit "gov" 9)).2 = false ∧
    (step "gov" ⟨[], ["q"], [("spot", "s")], false, 5, "team"⟩ "gov" (.updateSnapshotLimit "gov" 9)).1.snapshotLimit = 9 := by decide

/-! ### the model's assumptions are the code's (tables regenerated from /repo on every run) -/

def rowsWith (tbl : List (List String)) (i : Nat) (p : String → Bool) : List (List String) :=
  tbl.filter (fun r => p (r.getD i ""))

/-- **C19 (guards).** The handlers with a leading guard are exactly: the six privileged ones (authority comparison as statement 0,
no store write before it), `UpdateTeam` (team comparison, no write before it), `RegisterSpec` (existence check, no write
before it). -/
theorem C19_guard_table :
    (rowsWith Gen.authoritySites 2 (· != "none")).map (fun r => r.drop 1) =
      [["msgServer.UpdateSnapshotLimit", "authority", "0", "0"],
       ["msgServer.UpdateTeam", "team", "4", "0"],
       ["msgServer.Init", "authority", "0", "0"],
       ["msgServer.UpdateCyclelist", "authority", "0", "0"],
       ["msgServer.UpdateParams", "authority", "0", "0"],
       ["msgServer.RegisterSpec", "notexists", "2", "0"],
       ["msgServer.UpdateDataSpec", "authority", "0", "0"],
       ["msgServer.UpdateParams", "authority", "0", "0"]] := by decide

def governedWriterFns : List String :=
  (Gen.governedWrites.map (fun r => r.getD 1 "")) ++ (Gen.governedCalls.map (fun r => r.getD 1 ""))

/-- the message-server methods allowed to write governed state (each one guarded, see `C19_guard_table`) -/
def guardedWriters : List String :=
  ["msgServer.UpdateSnapshotLimit", "msgServer.UpdateTeam", "msgServer.Init", "msgServer.UpdateCyclelist", "msgServer.UpdateParams",
   "msgServer.RegisterSpec", "msgServer.UpdateDataSpec"]

/-- genesis, begin/end-block code and the keeper helpers the guarded handlers call -/
def systemWriters : List String :=
  ["InitGenesis", "Keeper.InitGenesis", "SetPreviousBlockTime", "Keeper.GenesisCycleList", "Keeper.InitCycleListQuery",
   "Keeper.RotateQueries", "Keeper.SetParams", "Keeper.SetDataSpec", "BeginBlocker"]

/-- **C19 (who writes governed state).** Every function that writes a governed collection — directly or through one of the
writing helpers — is one of the seven guarded message handlers or genesis / block code; no other message handler does. -/
theorem C19_governed_writers :
    governedWriterFns.all (fun f => guardedWriters.contains f || systemWriters.contains f) = true ∧
    guardedWriters.all (fun f => governedWriterFns.contains f) = true ∧
    (Gen.authoritySites.filter (fun r => guardedWriters.contains (r.getD 1 ""))).all (fun r => r.getD 2 "" != "none") = true := by decide

/-- **C19 (declared signers).** The privileged messages declare `authority` as their signer, `UpdateTeam` the current team
address, and every message declares exactly one signer field. -/
theorem C19_signer_table :
    (Gen.signerFields.filter (fun r => r.getD 3 "" == "authority")).map (fun r => (r.getD 0 "", r.getD 1 "")) =
      [("bridge", "UpdateSnapshotLimit"), ("mint", "Init"), ("oracle", "UpdateCyclelist"), ("oracle", "UpdateParams"),
       ("registry", "UpdateDataSpec"), ("reporter", "UpdateParams")] ∧
    Abi.lookup Gen.signerFields ["dispute", "UpdateTeam", "MsgUpdateTeam"] = some "current_team_address" ∧
    Gen.signerFields.all (fun r => r.getD 4 "" == "1") = true ∧
    Gen.signerFields.length = 25 := by decide

end Layer.Authz
