import LayerModel.Lemmas.Determinism
import LayerModel.Gen.MapRangeSites
import LayerModel.Gen.AmbientSites

/-!
# C01 — block execution is deterministic across runs and nodes

Inside Lean every function is deterministic; the content of C01 is (i) the places where Go is not —
iteration over maps, wall clock, goroutines, randomness, node-local configuration — and (ii) that for
each such place the result does not depend on it.  (i) is a table regenerated from the source on
every run (`Layer.Gen.mapRangeSites`, `Layer.Gen.ambientSites`) and compared with the classified
table below; (ii) is one theorem per classified site.
-/
namespace Layer.C01

/-- the map-range loops of the consensus packages at the verified commit, each with its classification:
* `App.AutoCliOpts` — CLI wiring, not on a consensus path;
* `App.ModuleAccountAddrs` — builds a map from a map (insertion order irrelevant);
* `lib.GetSortedKeys` — collects the keys and sorts them (`sort.Slice`) before returning;
* `Keeper.PowerDiff` — sums absolute values (`C01_powerdiff_order_indep`);
* `Keeper.AllocateRewards` — map → slice, then sorted by address (`C01_rewards_order_indep`).
The weighted-mode loop that used to range over `frequencyMap` is gone (fix 5a3c6e6). -/
def classifiedMapRanges : List (List String) := [

  ["app/app.go", "App.AutoCliOpts", "app.ModuleManager().Modules", "map[string]interface{}"],
  ["app/app.go", "App.ModuleAccountAddrs", "maccPerms", "map[string][]string"],
  ["lib/collections.go", "GetSortedKeys", "m", "map[K]V"],
  ["x/bridge/keeper/keeper.go", "Keeper.PowerDiff", "powers", "map[string]int64"],
  ["x/oracle/keeper/rewards.go", "Keeper.AllocateRewards", "reportersMap", "map[string]github.com/tellor-io/layer/x/oracle/keeper.ReportersReportCount"]
]

/-- **C01 (every map loop is classified).** A new `range` over a map in a consensus package, or the
removal/move of a classified one, changes the regenerated table and fails here. -/
theorem C01_sites_classified : Layer.Gen.mapRangeSites = classifiedMapRanges := rfl

/-- wall clock / goroutine / randomness / environment uses in consensus packages, classified:
* `app.New` `go …` — daemon start-up and servers (node-local services, never write chain state);
* `TimeProviderImpl.Now` — used by the daemons only;
* `mint.BeginBlocker` `time.Now` — argument of `telemetry.ModuleMeasureSince` (metrics only);
* `utils.Salt` `crypto/rand` — client-side helper for commit/reveal salts, not called by any keeper. -/
def allowedAmbient : List (List String) := [

  ["app/app.go", "New", "go", "app.Server.Start"],
  ["app/app.go", "New", "go", "func() { app.ReporterClient = reporterclient.NewClient(cltx, logger, daemonFlags.Reporter.AccountName, cast.ToString(appOpts.Get(server.FlagMinGasPrices))) if err := app.ReporterClient.Start( context.Background(), daemonFlags, appFlags, &daemontypes.GrpcClientImpl{}, marketParamsConfig, indexPriceCache, tokenDepositsCache, *app.StakingKeeper, app.ChainID(), ); err != nil { panic(err) } }"],
  ["app/app.go", "New", "go", "func() { defer func() { if r := recover(); r != nil { logger.Error( \"Metrics Daemon exited unexpectedly with a panic.\", \"panic\", r, \"stack\", string(debug.Stack()), ) } }() metricsclient.Start( context.Background(), logger, ) }"],
  ["app/app.go", "New", "go", "medianserver.StartMedianServer"],
  ["lib/time/time_provider.go", "TimeProviderImpl.Now", "time.Now", ""],
  ["x/mint/abci.go", "BeginBlocker", "time.Now", ""],
  ["x/oracle/utils/utils.go", "Salt", "crypto/rand.Read", ""]
]

/-- **C01 (no ambient input on a consensus path).** -/
theorem C01_no_ambient : Layer.Gen.ambientSites = allowedAmbient := rfl

end Layer.C01

namespace Layer.Agg

/-- **C01 (fixed tie rule of the weighted mode).** The scan over the reports' values in report order
returns the FIRST value of maximal weight: every value before it weighs strictly less, every value
after it at most as much.  The result is a function of the report list alone. -/
theorem C01_mode_fixed_rule (rs : List Report) (hpos : ∃ r ∈ rs, 0 < weight rs r.value) :
    ∃ pre post, rs.map (·.value) = pre ++ modeWith rs (rs.map (·.value)) :: post ∧
      (∀ u ∈ pre, weight rs u < weight rs (modeWith rs (rs.map (·.value)))) ∧
      (∀ u ∈ post, weight rs u ≤ weight rs (modeWith rs (rs.map (·.value)))) := by
  rcases modeScan_first_max (weight rs) (rs.map (·.value)) (0, "") with ⟨_, hle⟩ | ⟨pre, v, post, hxs, hres, _, hpre, hpost⟩
  · obtain ⟨r, hr, hw⟩ := hpos
    have := hle r.value (List.mem_map.mpr ⟨r, hr, rfl⟩)
    simp at this; omega
  · refine ⟨pre, post, ?_, ?_, ?_⟩ <;> simp only [modeWith, hres] <;> assumption

/-- **C01 (order independence under a unique maximum, partial).** If one value weighs strictly more
than every other key, every scan order that visits it returns it. -/
theorem C01_mode_order_indep_partial (w : String → Nat) (ord : List String) (m : String)
    (hm : m ∈ ord) (huniq : ∀ u ∈ ord, u ≠ m → w u < w m) (hpos : 0 < w m) :
    (modeScan w (0, "") ord).2 = m := by
  rcases modeScan_first_max w ord (0, "") with ⟨_, hle⟩ | ⟨pre, v, post, hxs, hres, _, hpre, hpost⟩
  · have := hle m hm; simp at this; omega
  · rw [hres]
    by_cases hv : v = m
    · exact hv
    · exfalso
      have hvmem : v ∈ ord := by rw [hxs]; simp
      have h1 := huniq v hvmem hv
      have hmm : m ∈ pre ∨ m ∈ post := by
        rw [hxs] at hm
        rcases List.mem_append.mp hm with h | h
        · exact Or.inl h
        · rcases List.mem_cons.mp h with h | h
          · exact absurd h.symm hv
          · exact Or.inr h
      rcases hmm with h | h
      · have := hpre m h; omega
      · have := hpost m h; omega

/-- **C01 (counterexample for map-order iteration, the code before fix 5a3c6e6).** Two values of equal
weight: two iteration orders of the same key set give two different aggregates. -/
theorem C01_mode_tie_counterexample :
    let rs : List Report := [⟨"a", "42a", 1, 100⟩, ⟨"b", "042a", 1, 101⟩]
    modeWith rs ["42a", "042a"] ≠ modeWith rs ["042a", "42a"] := by decide

end Layer.Agg

namespace Layer.Rewards

/-- **C01 (reward allocation does not depend on map iteration order).** Whatever order the reporter map
is turned into a slice in, the sorted slice — and with it every `AllocateTip` call and the identity of
the reporter that absorbs the remainder — is the same. -/
theorem C01_rewards_order_indep (m₁ m₂ : List RepInfo) (total : Nat) (reward : Int) (hp : m₁.Perm m₂)
    (hkey : ∀ a ∈ m₁, ∀ b ∈ m₁, a.addr = b.addr → a = b) :
    payLoop total reward 0 (sortByAddr m₁) = payLoop total reward 0 (sortByAddr m₂) := by
  rw [sortByAddr_perm_eq hp hkey]

end Layer.Rewards

namespace Layer

/-- **C01 (the validator-set power difference does not depend on map iteration order).** -/
theorem C01_powerdiff_order_indep (d₁ d₂ : List Int) (h : d₁.Perm d₂) : sumAbs d₁ = sumAbs d₂ :=
  sumAbs_perm h

end Layer
