import LayerModel.Props.C07

/-!
# C08 — aggregate history is append-only, time-ordered and correctly retrievable

Model: the `aggs` list of `Layer.Oracle.S` in creation order; `hist s q` is query `q`'s chronological list.
The getters are the code's range walks; the theorems relate them to that list.  On the real application the same
getters are probed after every history (timestamps before / between / equal / after stored ones, indexes in and out
of range) and compared with the model (family `oracle`).
-/
namespace Layer.Oracle
open Layer

/-- **C08 (append only).** Storing an aggregate under a fresh key (no aggregate of that query at this block time)
appends it to that query's chronological list and leaves every other query's list — and every stored entry —
unchanged. -/
theorem C08_append_only (s : S) (a : Agg) (hfresh : ∀ x ∈ s.aggs, ¬ (x.qid = a.qid ∧ x.ts = a.ts)) (qid : String) :
    hist { s with aggs := setAgg s.aggs a } qid = hist s qid ++ (if a.qid == qid then [a] else []) := by
  unfold hist
  simp only [setAgg_fresh s.aggs a hfresh]
  exact hist_append s a qid

/-- **C08 (sequence numbers increase by one).** Both writers of aggregates — round aggregation and bridge
withdrawals — store the query's previous sequence number plus one. -/
theorem C08_nonce_succ (s : S) (h ts : Nat) (q : Query) (s' : S) (hagg : aggregateOne s h ts q = some s') :
    ∃ a ∈ s'.aggs, a.qid = q.qid ∧ a.nonce = nonceOf s.nonces q.qid + 1 ∧ nonceOf s'.nonces q.qid = nonceOf s.nonces q.qid + 1 := by
  unfold aggregateOne at hagg
  simp only [] at hagg
  split at hagg
  · simp at hagg
  · split at hagg
    · simp at hagg
    · rename_i a0 hres
      injection hagg with e
      subst e
      refine ⟨{ qid := q.qid, ts := ts, value := a0.value, reporter := a0.reporter, power := a0.power,
                nonce := nonceOf s.nonces q.qid + 1, flagged := false, height := h, microHeight := a0.microHeight,
                metaId := q.id, aggIndex := a0.index, reporters := a0.reporters }, ?_, rfl, rfl, ?_⟩
      · unfold setAgg
        split
        · rename_i hany
          obtain ⟨x, hx, hk⟩ := List.any_eq_true.mp hany
          exact List.mem_map.mpr ⟨x, hx, by simp [hk]⟩
        · simp
      · exact nonceOf_setNonce _ _ _

/-- **C08 (timestamps strictly increase in creation order).** If every stored aggregate of the query is older than
the block time (block times strictly increase and a query aggregates at most once per block), appending keeps each
query's list strictly increasing. -/
theorem C08_ts_strict (s : S) (a : Agg) (hs : TsSorted s) (hnew : ∀ x ∈ hist s a.qid, x.ts < a.ts) :
    TsSorted { s with aggs := setAgg s.aggs a } := by
  have hfresh : ∀ x ∈ s.aggs, ¬ (x.qid = a.qid ∧ x.ts = a.ts) := by
    intro x hx ⟨h1, h2⟩
    have := hnew x (List.mem_filter.mpr ⟨hx, by simp [h1]⟩)
    omega
  intro qid
  rw [C08_append_only s a hfresh qid]
  by_cases hq : a.qid == qid
  · simp only [hq, if_true]
    have hq' : a.qid = qid := by simpa using hq
    apply List.pairwise_append.mpr
    refine ⟨hs qid, by simp, ?_⟩
    intro x hx y hy
    simp at hy; subst hy
    exact hnew x (hq' ▸ hx)
  · simp only [hq, Bool.false_eq_true, if_false, List.append_nil]
    exact hs qid

/-- **C08 (flagging alters nothing but the flag).** `FlagAggregateReport` leaves the list of aggregates unchanged
up to the `flagged` field, and only sets it (an entry that was flagged stays flagged). -/
theorem C08_flag_only_flag (s : S) (qid : String) (micro : Nat) (reporter : String) :
    (flag s qid micro reporter).aggs.map (fun a => { a with flagged := false }) = s.aggs.map (fun a => { a with flagged := false }) ∧
    (flag s qid micro reporter).aggs.map (fun a => a.flagged || true) = s.aggs.map (fun a => a.flagged || true) ∧
    ∀ a ∈ s.aggs, a.flagged = true → ∃ b ∈ (flag s qid micro reporter).aggs, b.qid = a.qid ∧ b.ts = a.ts ∧ b.flagged = true := by
  unfold flag
  simp only []
  split
  · exact ⟨rfl, rfl, fun a ha hf => ⟨a, ha, rfl, rfl, hf⟩⟩
  · refine ⟨?_, ?_, ?_⟩
    · rw [List.map_map]
      apply List.map_congr_left
      intro x _
      simp only [Function.comp]
      split <;> rfl
    · rw [List.map_map]
      apply List.map_congr_left
      intro x _
      simp
    · intro a ha hf
      refine ⟨_, List.mem_map.mpr ⟨a, ha, rfl⟩, ?_⟩
      split <;> simp [hf]

/-- **C08 ('current' is the last of the chronological list).** -/
theorem C08_current_is_last (s : S) (qid : String) : getCurrent s qid = (hist s qid).getLast? := rfl

/-- **C08 ('data before T' is the latest unflagged entry strictly before T).** With strictly increasing
timestamps the returned entry is unflagged, older than `T`, and no unflagged entry older than `T` is newer. -/
theorem C08_before_skips_flagged (s : S) (hs : TsSorted s) (qid : String) (t : Nat) (a : Agg)
    (h : getBefore s qid t = some a) :
    a ∈ hist s qid ∧ a.ts < t ∧ a.flagged = false ∧
    ∀ b ∈ hist s qid, b.ts < t → b.flagged = false → b.ts ≤ a.ts := by
  unfold getBefore at h
  have hmem := List.mem_of_getLast? h
  obtain ⟨hin, hc⟩ := List.mem_filter.mp hmem
  simp only [Bool.and_eq_true, decide_eq_true_eq, Bool.not_eq_true'] at hc
  refine ⟨hin, hc.1, hc.2, ?_⟩
  intro b hb hbt hbf
  have hsub : ((hist s qid).filter (fun a => decide (a.ts < t) && !a.flagged)).Pairwise (fun a b => a.ts < b.ts) :=
    (hs qid).sublist List.filter_sublist
  exact getLast_max _ hsub a h b (List.mem_filter.mpr ⟨hb, by simp [hbt, hbf]⟩)

/-- **C08 (timestamp before / after).** `GetTimestampBefore(T)` is the greatest stored timestamp below `T` and
`GetTimestampAfter(T)` the least above `T` (0 when there is none). -/
theorem C08_ts_before_after (s : S) (hs : TsSorted s) (qid : String) (t : Nat) :
    (∀ b ∈ hist s qid, b.ts < t → b.ts ≤ tsBefore s qid t) ∧
    (tsBefore s qid t ≠ 0 → ∃ a ∈ hist s qid, a.ts = tsBefore s qid t ∧ a.ts < t) ∧
    (∀ b ∈ hist s qid, b.ts > t → tsAfter s qid t ≠ 0 ∨ b.ts = 0) ∧
    (tsAfter s qid t ≠ 0 → ∃ a ∈ hist s qid, a.ts = tsAfter s qid t ∧ a.ts > t ∧ ∀ b ∈ hist s qid, b.ts > t → a.ts ≤ b.ts) := by
  have hsubB : ((hist s qid).filter (fun a => decide (a.ts < t))).Pairwise (fun a b => a.ts < b.ts) :=
    (hs qid).sublist List.filter_sublist
  have hsubA : ((hist s qid).filter (fun a => decide (a.ts > t))).Pairwise (fun a b => a.ts < b.ts) :=
    (hs qid).sublist List.filter_sublist
  refine ⟨?_, ?_, ?_, ?_⟩
  · intro b hb hbt
    unfold tsBefore
    cases hl : ((hist s qid).filter (fun a => decide (a.ts < t))).getLast? with
    | none =>
      have : b ∈ (hist s qid).filter (fun a => decide (a.ts < t)) := List.mem_filter.mpr ⟨hb, by simp [hbt]⟩
      rw [List.getLast?_eq_none_iff.mp hl] at this; simp at this
    | some a =>
      simp only [Option.map_some, Option.getD_some]
      exact getLast_max _ hsubB a hl b (List.mem_filter.mpr ⟨hb, by simp [hbt]⟩)
  · intro hne
    unfold tsBefore at hne ⊢
    cases hl : ((hist s qid).filter (fun a => decide (a.ts < t))).getLast? with
    | none => simp [hl] at hne
    | some a =>
      have hm := List.mem_filter.mp (List.mem_of_getLast? hl)
      exact ⟨a, hm.1, by simp, by simpa using hm.2⟩
  · intro b hb hbt
    unfold tsAfter
    cases hl : ((hist s qid).filter (fun a => decide (a.ts > t))).head? with
    | none =>
      have : b ∈ (hist s qid).filter (fun a => decide (a.ts > t)) := List.mem_filter.mpr ⟨hb, by simp [hbt]⟩
      rw [List.head?_eq_none_iff.mp hl] at this; simp at this
    | some a =>
      have hm := List.mem_filter.mp (List.mem_of_head? hl)
      left
      simp only [Option.map_some, Option.getD_some]
      have : a.ts > t := by simpa using hm.2
      omega
  · intro hne
    unfold tsAfter at hne ⊢
    cases hl : ((hist s qid).filter (fun a => decide (a.ts > t))).head? with
    | none => simp [hl] at hne
    | some a =>
      have hm := List.mem_filter.mp (List.mem_of_head? hl)
      refine ⟨a, hm.1, by simp, by simpa using hm.2, ?_⟩
      intro b hb hbt
      exact head_min _ hsubA a hl b (List.mem_filter.mpr ⟨hb, by simp [hbt]⟩)

/-- **C08 (by index).** `GetAggregateByIndex(i)` is the `i`-th entry of the chronological list. -/
theorem C08_by_index (s : S) (qid : String) (i : Nat) : getByIndex s qid i = (hist s qid)[i]? := rfl

end Layer.Oracle
