import LayerModel.Lemmas.Abi
import LayerModel.Gen.GoAbi
import LayerModel.Gen.SolAbi
import LayerModel.Gen.Formulas

/-!
# C15 — bridge byte encodings agree with what the EVM contracts compute and verify

`Layer.Abi.enc` is the Solidity ABI head/tail encoding (the specification).  The keeper's byte
strings (`goValsetBytes`, `goCheckpointPre`, `goAttestPre`, `goQueryData`, `goWithdrawValue`) are
modelled as the code builds them; the contract's as `abi.encode` of the argument lists the Solidity
scanner regenerates.  Equal pre-images give equal digests for ANY hash function, so keccak-256
never has to be reasoned about.
-/
namespace Layer.Abi
open Layer Layer.Bytes

/-- **C15 (validator-set encoding).** The hand-rolled `offset ‖ length ‖ items` layout of
`EncodeAndHashValidatorSet` is `abi.encode(Validator[])`, for every list of validators (any length,
any address bytes, any powers). -/
theorem C15_valset_encoding (vs : List (Bytes × Nat)) : goValsetBytes vs = enc [.vals vs] := by
  simp only [goValsetBytes, enc, heads, tailOf, enc_two_words, List.flatMap_cons, List.flatMap_nil, List.length_cons,
    List.length_nil, List.append_nil, List.append_assoc]
  rfl

/-- consequently the validator-set hash is the contract's, for any hash function `H` -/
theorem C15_valset_hash (H : Bytes → Bytes) (vs : List (Bytes × Nat)) :
    H (goValsetBytes vs) = H (enc [.vals vs]) := by rw [C15_valset_encoding]

/-- contract side of the checkpoint: `abi.encode(VALIDATOR_SET_HASH_DOMAIN_SEPARATOR, threshold, ts, hash)` -/
def solCheckpointPre (sep : Bytes) (threshold ts : Nat) (valsetHash : Bytes) : Bytes :=
  enc [.word sep, .word (u256 threshold), .word (u256 ts), .word valsetHash]

/-- 0x636865636b706f696e7400000000000000000000000000000000000000000000 -/
def solCheckpointSep : Bytes :=
  [0x63, 0x68, 0x65, 0x63, 0x6b, 0x70, 0x6f, 0x69, 0x6e, 0x74, 0, 0, 0, 0, 0, 0, 0, 0, 0, 0, 0, 0, 0, 0, 0, 0, 0, 0, 0, 0, 0, 0]

/-- **C15 (domain separators, byte for byte).** `copy(dst[:32], "checkpoint")` is the contract's
`VALIDATOR_SET_HASH_DOMAIN_SEPARATOR`; the attestation separator's 32 bytes are the contract's
`NEW_REPORT_ATTESTATION_DOMAIN_SEPARATOR` (both constants are also regenerated below). -/
theorem C15_domain_separators :
    copy32 checkpointTag = solCheckpointSep ∧ copy32 attestDomainSep = attestDomainSep ∧
    attestDomainSep.length = 32 := by decide

/-- **C15 (checkpoint pre-image).** For a 32-byte validator-set hash the keeper's checkpoint pre-image
is the contract's `_domainSeparateValidatorSetHash` pre-image. -/
theorem C15_checkpoint_preimage (threshold ts : Nat) (h : Bytes) (hl : h.length = 32) :
    goCheckpointPre threshold ts h = solCheckpointPre solCheckpointSep threshold ts h := by
  have : copy32 h = h := by simp [copy32, List.take_of_length_le (Nat.le_of_eq hl), hl, zeros]
  simp [goCheckpointPre, solCheckpointPre, this, C15_domain_separators.1]

/-- contract side of the attestation digest (`verifyOracleData`) -/
def solAttestPre (queryId value : Bytes) (ts power prev next : Nat) (checkpoint : Bytes) (attestTs : Nat) : Bytes :=
  enc [.word attestDomainSep, .word queryId, .dyn value, .word (u256 ts), .word (u256 power),
       .word (u256 prev), .word (u256 next), .word checkpoint, .word (u256 attestTs)]

/-- **C15 (attestation pre-image).** For 32-byte query id and checkpoint and ANY report value bytes
(empty, non-multiple-of-32, long) the bytes validators sign are the contract's. -/
theorem C15_attest_preimage (q value : Bytes) (ts power prev next : Nat) (cp : Bytes) (ats : Nat)
    (hq : q.length = 32) (hc : cp.length = 32) :
    goAttestPre q value ts power prev next cp ats = solAttestPre q value ts power prev next cp ats := by
  have e1 : copy32 q = q := by simp [copy32, List.take_of_length_le (Nat.le_of_eq hq), hq, zeros]
  have e2 : copy32 cp = cp := by simp [copy32, List.take_of_length_le (Nat.le_of_eq hc), hc, zeros]
  simp [goAttestPre, solAttestPre, e1, e2, C15_domain_separators.2.1]

/-- **C15 (query ids).** Deposit / withdrawal query data is `abi.encode("TRBBridge", abi.encode(bool, id))`
— the Go side packs the bool with the library (word 0/1), the contract side is the same word. -/
theorem C15_query_ids (toLayer : Bool) (id : Nat) :
    goQueryData toLayer id =
      enc [.dyn trbBridgeTag, .dyn (enc [.word (u256 (if toLayer then 1 else 0)), .word (u256 id)])] := by
  simp [goQueryData, boolWord]

/-- **C15 (power threshold).** The threshold (regenerated from the source) is exactly two thirds of the total power rounded
down, `⌊2·total/3⌋`, for every total — neither more (a two-thirds majority must reach it) nor a whole unit less. -/
theorem C15_threshold (total : Int) (ht : 0 ≤ total) :
    3 * Layer.Gen.powerThreshold total ≤ 2 * total ∧ 2 * total < 3 * Layer.Gen.powerThreshold total + 3 := by
  unfold Layer.Gen.powerThreshold
  rw [Int.tdiv_eq_ediv_of_nonneg (by omega)]
  omega

/-- consequently any signer set holding more than two thirds of the power reaches the threshold -/
theorem C15_threshold_reached (total p : Int) (ht : 0 ≤ total) (hp : 3 * p > 2 * total) :
    p ≥ Layer.Gen.powerThreshold total := by
  have := (C15_threshold total ht).1
  omega

/-- **C15 (signature digest convention).** `abi.encodePacked(bytes32 d)` is `d` itself, so the contract
recovers against `sha256(d)` — the digest the SDK keyring signs for message `d`. (`sha256` and
`ecrecover` are parameters; the sigconv family exercises the real ones.) -/
def encodePackedBytes32 (d : Bytes) : Bytes := d
theorem C15_sig_convention (sha : Bytes → Bytes) (d : Bytes) : sha (encodePackedBytes32 d) = sha d := rfl

/-! ### layouts regenerated from both sources -/

/-- **C15 (layouts).** For each encoding, the ABI type list of the keeper's `abi.Arguments` literal equals
the resolved type list of the contract's `abi.encode` / `abi.decode`, and the literals agree. Both tables
are regenerated from /repo on every run (Go AST extractor, Solidity scanner). -/
theorem C15_layouts :
    -- checkpoint
    lookup Gen.goAbi ["Keeper.CalculateValidatorSetCheckpoint", "00", "types"] =
      lookup Gen.solAbi ["BlobstreamO.sol", "_domainSeparateValidatorSetHash", "00", "encode"] ∧
    -- attestation digest
    lookup Gen.goAbi ["Keeper.EncodeOracleAttestationData", "00", "types"] =
      lookup Gen.solAbi ["BlobstreamO.sol", "verifyOracleData", "01", "encode"] ∧
    -- validator tuple = struct Validator
    lookup Gen.goAbi ["Keeper.EncodeAndHashValidatorSet", "01", "types"] = some "address,uint256" ∧
    lookup Gen.solAbi ["struct", "Validator", "00", "fields"] = some "address addr,uint256 power" ∧
    lookup Gen.solAbi ["BlobstreamO.sol", "updateValidatorSet", "00", "encode"] = some "Validator[]" ∧
    -- query ids (inner and outer)
    lookup Gen.goAbi ["Keeper.GetWithdrawalQueryId", "00", "types"] =
      lookup Gen.solAbi ["TokenBridge.sol", "withdrawFromLayer", "01", "encode"] ∧
    lookup Gen.goAbi ["Keeper.GetWithdrawalQueryId", "02", "types"] =
      lookup Gen.solAbi ["TokenBridge.sol", "withdrawFromLayer", "00", "encode"] ∧
    lookup Gen.goAbi ["Keeper.GetDepositQueryId", "00", "types"] = lookup Gen.goAbi ["Keeper.GetWithdrawalQueryId", "00", "types"] ∧
    lookup Gen.goAbi ["Keeper.GetDepositQueryId", "02", "types"] = lookup Gen.goAbi ["Keeper.GetWithdrawalQueryId", "02", "types"] ∧
    lookup Gen.goAbi ["Keeper.GetWithdrawalQueryId", "zz", "literals"] = some "TRBBridge,false" ∧
    lookup Gen.goAbi ["Keeper.GetDepositQueryId", "zz", "literals"] = some "TRBBridge,true" ∧
    lookup Gen.solAbi ["TokenBridge.sol", "withdrawFromLayer", "00", "literals"] = some "\"TRBBridge\"" ∧
    lookup Gen.solAbi ["TokenBridge.sol", "withdrawFromLayer", "01", "literals"] = some "false" ∧
    -- withdrawal report value = what the contract decodes; deposit report value = the same shape
    lookup Gen.goAbi ["Keeper.GetWithdrawalReportValue", "00", "types"] =
      lookup Gen.solAbi ["TokenBridge.sol", "withdrawFromLayer", "02", "decode"] ∧
    lookup Gen.goAbi ["Keeper.DecodeDepositReportValue", "00", "types"] = some "address,string,uint256,uint256" ∧
    lookup Gen.solAbi ["struct", "ReportData", "00", "fields"] =
      some "bytes value,uint256 timestamp,uint256 aggregatePower,uint256 previousTimestamp,uint256 nextTimestamp" ∧
    -- constants
    lookup Gen.solAbi ["Constants.sol", "VALIDATOR_SET_HASH_DOMAIN_SEPARATOR", "00", "constant"] =
      some "0x636865636b706f696e7400000000000000000000000000000000000000000000" ∧
    lookup Gen.goAbi ["Keeper.CalculateValidatorSetCheckpoint", "zz", "literals"] = some "checkpoint" ∧
    lookup Gen.solAbi ["Constants.sol", "NEW_REPORT_ATTESTATION_DOMAIN_SEPARATOR", "00", "constant"] =
      some "0x74656c6c6f7243757272656e744174746573746174696f6e0000000000000000" ∧
    lookup Gen.goAbi ["Keeper.EncodeOracleAttestationData", "zz", "literals"] =
      some "74656c6c6f7243757272656e744174746573746174696f6e0000000000000000" := by
  decide

end Layer.Abi
