import Mathlib.Tactic.Ring
import Mathlib.Tactic.Linarith
import LayerModel.Chain.Slash
import LayerModel.Lemmas.Unbond
import LayerModel.Lemmas.DecBounds

/-!
# C11 — slashing takes exactly the category's share of the disputed report's stake

Model: `Layer.Slash` (amount, apportioning over the report's stake snapshot, jail durations).
-/
namespace Layer.Slash
open Layer Layer.Dec

/-- **C11 (amount).** The slash amount is exactly 1 %, 5 % or 100 % of the report's power in loya: `power · 10^6 · pct / 10^6`
with no rounding loss. -/
theorem C11_slash_amount (power : Int) (c : Cat) (h : 0 ≤ power) : slashAmount power c = power * pct6 c := by
  unfold slashAmount Dec.mul Dec.quo Dec.ofInt Dec.truncateInt
  have hP : (0 : Int) < prec := prec_pos
  have e1 : power * 1000000 * prec * (pct6 c * prec) = (power * 1000000 * pct6 c * prec) * prec := by ring
  rw [e1, chopRound_mul_prec]
  have e2 : power * 1000000 * pct6 c * prec * prec * prec = (power * pct6 c * prec * prec) * (1000000 * prec) := by ring
  rw [e2, Int.mul_tdiv_cancel _ (by unfold prec; omega)]
  have e3 : power * pct6 c * prec * prec = (power * pct6 c * prec) * prec := by ring
  rw [e3, chopRound_mul_prec, Int.mul_tdiv_cancel _ (Int.ne_of_gt hP)]

theorem apportionGo_sum (total amt : Int) : ∀ (os : List Int) (left : Int), os ≠ [] → (apportionGo total amt os left).sum = left
  | [], _, h => absurd rfl h
  | [_], left, _ => by simp [apportionGo]
  | d :: d2 :: ds, left, _ => by
    have ih := apportionGo_sum total amt (d2 :: ds) (left - share d total amt) (by simp)
    simp only [apportionGo, List.sum_cons] at ih ⊢
    omega

/-- **C11 (the whole amount is taken, exactly).** Whatever the snapshot and the denominator, the shares sum to the slash amount. -/
theorem C11_apportion_sum (os : List Int) (total amt : Int) (h : os ≠ []) : (apportion os total amt).sum = amt :=
  apportionGo_sum total amt os amt h

theorem apportionGo_length (total amt : Int) : ∀ (os : List Int) (left : Int), (apportionGo total amt os left).length = os.length
  | [], _ => rfl
  | [_], _ => rfl
  | d :: d2 :: ds, left => by
    have ih := apportionGo_length total amt (d2 :: ds) (left - share d total amt)
    simp only [apportionGo, List.length_cons] at ih ⊢
    omega

/-- **C11 (one record per backer entry).** -/
theorem C11_apportion_length (os : List Int) (total amt : Int) : (apportion os total amt).length = os.length :=
  apportionGo_length total amt os amt

/-- **C11 (proportional to within one smallest unit).** With the snapshot's total as denominator, an origin's share differs from
the exact proportion `del · amt / total` by at most one loya (for amounts up to 5·10^17 loya). -/
theorem C11_share_proportional (del total amt : Int) (hd : 0 ≤ del) (ht : 0 < total) (ha : 0 ≤ amt) (hamt : 2 * amt ≤ prec) :
    share del total amt * total - del * amt ≤ total ∧ del * amt - share del total amt * total ≤ total := by
  unfold share Dec.roundInt Dec.mul
  have hP : (0 : Int) < prec := prec_pos
  obtain ⟨q1, q2⟩ := quo_int_bound (Dec.ofInt del) total (by unfold Dec.ofInt; exact Int.mul_nonneg hd (Int.le_of_lt hP)) ht
  generalize Dec.quo (Dec.ofInt del) (Dec.ofInt total) = q at *
  have e : q * Dec.ofInt amt = (q * amt) * prec := by unfold Dec.ofInt; ring
  rw [e, chopRound_mul_prec]
  obtain ⟨r1, r2⟩ := chopRound_err (q * amt)
  generalize chopRound (q * amt) = s at *
  unfold Dec.ofInt at q1 q2
  have hPv : prec = 1000000000000000000 := rfl
  constructor
  · -- s·total·prec ≤ q·amt·total + prec·total/2 and q·total ≤ del·prec + total/2
    have h1 : 2 * (s * prec * total - q * amt * total) ≤ prec * total := by nlinarith [mul_le_mul_of_nonneg_right r1 (le_of_lt ht)]
    have h2 : 2 * (q * total * amt - del * prec * amt) ≤ total * amt := by nlinarith [mul_le_mul_of_nonneg_right q1 ha]
    have h3 : 2 * total * amt ≤ prec * total := by nlinarith
    have : (s * total - del * amt) * prec ≤ total * prec := by nlinarith
    exact le_of_mul_le_mul_right this hP
  · have h1 : 2 * (q * amt * total - s * prec * total) ≤ prec * total := by nlinarith [mul_le_mul_of_nonneg_right r2 (le_of_lt ht)]
    have h2 : (del * prec - q * total) * amt ≤ total * amt := by nlinarith [mul_le_mul_of_nonneg_right (le_of_lt q2) ha]
    have h3 : 2 * total * amt ≤ prec * total := by nlinarith
    have : (del * amt - s * total) * prec ≤ total * prec := by nlinarith
    exact le_of_mul_le_mul_right this hP

/-- **C11 (counterexample before the fix).** With `power · 10^6` as denominator instead of the snapshot's total, a report backed by
3 333 333 + 2 499 999 loya (power 5) and a warning dispute (50 000 loya) takes 33 333 from the first backer and 16 667 from the
second, where the proportional shares are 28 571 and 21 429; with backers 1 500 000 + 499 999 (power 1) the last share is
negative (−5 000) and the escrow fails: the report cannot be disputed at all. -/
theorem C11_denominator_counterexample :
    apportion [3333333, 2499999] 5000000 50000 = [33333, 16667] ∧
    apportion [3333333, 2499999] 5833332 50000 = [28571, 21429] ∧
    apportion [1500000, 499999] 1000000 10000 = [15000, -5000] := by decide

/-- **C11 (jail).** Warning: jailed with release possible at once; minor: ten minutes; major: no jail by the dispute module. -/
theorem C11_jail_durations : jailSeconds .warning = some 0 ∧ jailSeconds .minor = some 600 ∧ jailSeconds .major = none := ⟨rfl, rfl, rfl⟩

/-- the hypotheses of `C11_share_proportional` are met by a concrete dispute -/
example : share 3333333 5833332 50000 = 28571 ∧ (2 : Int) * 50000 ≤ prec := by decide

end Layer.Slash


/-! ## Taking a whole amount out of a delegation at any exchange rate (`sharesForTokens`, model `Layer.Unbond`) -/
namespace Layer.Unbond
open Layer

/-- **C11 / C05 (the amount escrowed is the amount recorded, at every exchange rate).**  For every validator (any tokens, any delegator
shares worth at most half a token per raw share unit — i.e. every validator that exists), every amount and every delegation that holds
more shares than the rounded-down need, the staking module hands out exactly the requested amount for the shares `sharesForTokens`
chooses: the backer loses, and the dispute account receives, what the escrow record says. -/
theorem C11_unbond_exact (v : Val) (available amt : Int) (hT : 0 < v.tokens) (hS : 2 * v.tokens ≤ v.shares) (ha : 0 ≤ amt)
    (hav : sharesFromTokens v amt < available) :
    unbondTokens v (sharesForTokens v available amt) = amt := by
  have hS0 : 0 < v.shares := by omega
  have hnum : 0 ≤ v.shares * amt := Int.mul_nonneg (by omega) ha
  -- s = ⌊S·a/T⌋
  have hs_def : sharesFromTokens v amt = (v.shares * amt) / v.tokens := by
    unfold sharesFromTokens; exact Int.tdiv_eq_ediv_of_nonneg hnum
  have hs0 : 0 ≤ sharesFromTokens v amt := by rw [hs_def]; exact Int.ediv_nonneg hnum (by omega)
  have hlo : sharesFromTokens v amt * v.tokens ≤ v.shares * amt := by rw [hs_def]; exact Int.ediv_mul_le _ (by omega)
  have hhi : v.shares * amt < (sharesFromTokens v amt + 1) * v.tokens := by
    rw [hs_def]; exact Int.lt_ediv_add_one_mul_self _ hT
  have hle := unbond_le v _ amt hs0 (by omega) hS0 ha hlo
  unfold sharesForTokens
  simp only []
  by_cases hb : unbondTokens v (sharesFromTokens v amt) < amt
  · -- one smallest share unit more
    have hmin : min (sharesFromTokens v amt + 1) available = sharesFromTokens v amt + 1 := by omega
    rw [if_pos ⟨hb, hav⟩, hmin]
    have h1 : v.shares * amt ≤ (sharesFromTokens v amt + 1) * v.tokens := by omega
    have h2 : (sharesFromTokens v amt + 1) * v.tokens ≤ v.shares * amt + v.tokens := by
      rw [Int.add_mul]; omega
    have ge := unbond_ge v _ amt (by omega) (by omega) hS0 ha h1
    have le := unbond_le_bumped v _ amt (by omega) (by omega) hS0 ha hS h2
    omega
  · have : ¬ (unbondTokens v (sharesFromTokens v amt) < amt ∧ sharesFromTokens v amt < available) := fun h => hb h.1
    rw [if_neg this]
    omega

/-- **C11 (counterexample before the fix).**  A validator slashed 1 % for downtime (934 070 000 tokens for 943 505 050.50… shares): the
shares converted for 5 000 045 loya are worth a fraction less, and `Unbond` hands out 5 000 044 — the escrow record, the dispute's
slash amount and the refunds computed from it are one loya ahead of the dispute account. -/
theorem C11_unbond_short_counterexample :
    let v : Val := ⟨934070000, 943505050505050505050505051⟩
    unbondTokens v (sharesForTokensOld v 5000045) = 5000044 ∧
    unbondTokens v (sharesForTokens v (943505050505050505050505051) 5000045) = 5000045 := by decide

end Layer.Unbond
