import LayerModel.Chain.Proposal
import Driver.Util
namespace Driver
open Layer Layer.Proposal

/-- "nil" / "x<hex>" → bytes (nil and empty are one value in the model) -/
def tokBytes (t : String) : Option Bytes :=
  if t == "nil" then some [] else if t.startsWith "x" then Bytes.ofHex? (t.drop 1).toString else none

structure DVote where
  vote : Vote
  hasEvm : Bool
  recd : Option (Bytes × Bytes × Option String)   -- recover table entry

def parseDVote (s : String) : Option DVote :=
  match s.splitOn ":" with
  | [flag, op, has, ext] =>
    let operator := if op == "-" then none else some op
    if ext == "-" then some ⟨⟨flag == "c", operator, none⟩, has == "1", none⟩ else
    match ext.splitOn "/" with
    | [a, b, rec, vs, ts, atts] => do
      let a ← tokBytes a; let b ← tokBytes b; let vs ← tokBytes vs; let ts ← parseNat? ts
      let al ← mapM? (fun (x : String) => match x.splitOn "." with
        | [sn, att] => do pure ((← tokBytes sn), (← tokBytes att))
        | _ => none) (if atts.isEmpty then [] else atts.splitOn "+")
      let e : ExtData := { sigA := a, sigB := b, valsetSig := vs, valsetTs := ts, atts := al }
      pure ⟨⟨flag == "c", operator, some e⟩, has == "1", if rec == "!" then none else some (a, b, if rec == "-" then none else some rec)⟩
    | _ => none
  | _ => none

def renderStrs (l : Option (List String)) : String := match l with | none => "null" | some l => "[" ++ ";".intercalate l ++ "]"
def renderBytesL (l : Option (List Bytes)) : String := renderStrs (l.map (·.map (fun b => "x" ++ Bytes.toHex b)))

/-- the implementation's injected lists vs the model's derivation from the same commit -/
def proposalDiff (rec : String) : Option String :=
  let fs := (rec.splitOn " ").filterMap (fun tok => match tok.splitOn "=" with
    | k :: rest => if rest.isEmpty then none else some (k, "=".intercalate rest) | [] => none)
  let get := fun k => ((fs.find? (·.1 == k)).map (·.2)).getD "?"
  let votesS := get "votes"
  match mapM? parseDVote (if votesS.isEmpty then [] else votesS.splitOn ",") with
  | none => some s!"unparsable commit description"
  | some dvs =>
    let env : Env := {
      hasEvm := fun op => (dvs.find? (fun d => d.vote.operator == some op)).map (·.hasEvm) |>.getD false,
      recover := fun a b => ((dvs.filterMap (·.recd)).find? (fun r => r.1 == a && r.2.1 == b)).bind (·.2.2) }
    let inj := prepare env (dvs.map (·.vote))
    let canon := fun (s : String) => s.replace "nil" "x"
    let mine := [("iops", renderStrs inj.init.ops), ("ievms", renderStrs inj.init.evms),
                 ("vops", renderStrs inj.valset.ops), ("vtss", renderStrs (inj.valset.tss.map (·.map toString))),
                 ("vsigs", renderStrs (inj.valset.sigs.map (·.map Bytes.toHex))),
                 ("aops", renderStrs inj.atts.ops), ("aatts", renderBytesL inj.atts.atts), ("asnaps", renderBytesL inj.atts.snaps)]
    match mine.find? (fun (k, v) => canon (get k) != v) with
    | some (k, v) => some s!"injected {k}: implementation {(get k).take 200}, model {v.take 200}"
    | none => none

end Driver
