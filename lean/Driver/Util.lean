/-! Line-protocol helpers for the driver (core Lean only). -/
namespace Driver

def splitOn (s : String) (sep : String) : List String := s.splitOn sep

def parseInt? (s : String) : Option Int :=
  if s.startsWith "-" then (s.drop 1).toNat?.map (fun n => - (Int.ofNat n))
  else if s.startsWith "+" then (s.drop 1).toNat?.map Int.ofNat
  else s.toNat?.map Int.ofNat

def parseNat? (s : String) : Option Nat := s.toNat?

def commaList (s : String) : List String :=
  if s.isEmpty then [] else s.splitOn ","

def mapM? {α β} (f : α → Option β) : List α → Option (List β)
  | [] => some []
  | x :: xs => do let y ← f x; let ys ← mapM? f xs; pure (y :: ys)

/-- result of checking one line -/
structure Res where
  /-- model output equals the implementation's observation -/
  agree : Bool
  /-- the property's monitor holds on the implementation's observation -/
  monitor : Bool
  /-- the case is non-trivial by the family's rule -/
  nontrivial : Bool
  model : String
  note : String := ""
  /-- when the monitor fails inside the trigger predicate of a recorded finding: its slug -/
  finding : String := ""

def Res.render (r : Res) : String :=
  let st := if r.agree && r.monitor then "ok" else if r.monitor then "diff"
    else if r.agree && r.finding != "" then s!"known:{r.finding}"
    else if r.agree then "monfail" else "both"
  s!"{st}|{if r.nontrivial then 1 else 0}|{r.model}|{(r.note.replace "\n" " ")}"

def joinComma (xs : List String) : String := ",".intercalate xs

end Driver
