import LayerModel.Chain.Reporter
import Driver.Chain
import Driver.Authz
namespace Driver
open Layer Layer.Reporter

def colon (s : String) : List String := s.splitOn ":"

def parseSVals2 (s : String) : List Val := (commaList s).filterMap (fun e => match colon e with
  | [n, b, tk, sh] => do pure ⟨n, b == "true", ← parseInt? tk, ← parseInt? sh⟩ | _ => none)
def parseSDels (s : String) : List Del := (commaList s).filterMap (fun e => match colon e with
  | [d, v, sh] => do pure ⟨d, v, ← parseInt? sh⟩ | _ => none)
def parseSSels (s : String) : List Sel := (commaList s).filterMap (fun e => match colon e with
  | [a, r, lu, c] => do pure ⟨a, r, ← parseInt? lu, ← parseNat? c⟩ | _ => none)
def parseSReps (s : String) : List Rep := (commaList s).filterMap (fun e => match colon e with
  | [a, j, ju, m] => do pure ⟨a, j == "true", ← parseInt? ju, ← parseInt? m⟩ | _ => none)

structure MRec where
  reporter : String
  power : Int
  metaId : String
  qid : String
  total : Int
  origins : List (String × String × Int)

def parseM (s : String) : Option MRec :=
  match colon s with
  | [r, p, m, q, t, os] => do
    let ol := (if os.isEmpty then [] else os.splitOn "+").filterMap (fun o => match o.splitOn "." with
      | [d, v, a] => (parseInt? a).map (fun x => (d, v, x)) | _ => none)
    pure ⟨r, ← parseInt? p, m, q, ← parseInt? t, ol⟩
  | _ => none

structure RScan where
  ok : Bool := true
  mon : Bool := true
  note : String := ""
  halted : Bool := false
  prev : Option S := none      -- state after the previous block
  cur : S := ⟨[], [], [], [], ⟨0, 0, 0, 0⟩⟩
  now : Int := 0
  xs : List XRec := []
  ms : List MRec := []
  reported : List String := []
  rounds : List (String × String × List String) := []   -- (round, reporter, delegators)
  nRep : Nat := 0
  nOps : Nat := 0
  nB : Nat := 0          -- reports computed with the bonded-validator strategy
  skipped : Nat := 0

def rfail (sc : RScan) (m : String) : RScan := { sc with mon := false, note := if sc.note.isEmpty then m else sc.note }
def rdiff (sc : RScan) (m : String) : RScan := { sc with ok := false, note := if sc.note.isEmpty then m else sc.note }

def sameSels (a b : List Sel) : Bool :=
  let key := fun (x : Sel) => (x.selector, x.reporter, x.lockedUntil)
  a.length == b.length && a.all (fun x => b.any (fun y => key x == key y))

def sameReps (a b : List Rep) : Bool := a.length == b.length && a.all (fun x => b.contains x)

/-- end of a block: `sc.cur` is the dump after it, `sc.prev` the dump before -/
def finishBlock (sc : RScan) : RScan := Id.run do
  let mut sc := sc
  let cur := sc.cur
  -- monitors on the dump itself
  if !((cur.sels.map (·.selector)).eraseDups.length == cur.sels.length) then sc := rfail sc "a selector has two entries"
  for x in cur.sels do
    if !(cur.reps.any (·.name == x.reporter)) then sc := rfail sc s!"selector {x.selector} selects {x.reporter}, which is no reporter"
    if x.count != (delsOf cur x.selector).length then sc := rfail sc s!"delegation counter of {x.selector} is {x.count}, it has {(delsOf cur x.selector).length} delegations"
  match sc.prev with
  | none => pure ()
  | some prev =>
    let stakeStable := prev.vals == cur.vals && prev.dels == cur.dels
    -- a running lock is never shortened or erased (it can only be replaced by a later one): otherwise the selector's stake
    -- could enter another reporter's report inside its lock period
    for x in prev.sels do
      if x.lockedUntil > sc.now then
        match cur.sels.find? (·.selector == x.selector) with
        | some y => if y.lockedUntil < x.lockedUntil then sc := rfail sc s!"lock of {x.selector} (until {x.lockedUntil}) shortened to {y.lockedUntil} at t={sc.now}"
        | none => pure ()
    -- the cap can only be exceeded through a lowered cap or reporter creation; here the cap is constant
    for r in cur.reps do
      let n := (selectorsOf cur r.name).length
      if n > cur.params.maxSelectors && n > (selectorsOf prev r.name).length then sc := rfail sc s!"reporter {r.name} has {n} selectors, cap {cur.params.maxSelectors}"
    for x in sc.xs do
      sc := { sc with nOps := sc.nOps + 1 }
      -- model decision on the state before the block (valid when nothing else touched it in this block)
      let single := sc.xs.length == 1
      let model? : Option (Option S) :=
        if x.kind == "sel" then some (selectReporter prev x.signer (x.get "rep"))
        else if x.kind == "sw" then some (switchReporter prev sc.now (fun p => sc.reported.contains p) x.signer (x.get "rep"))
        else if x.kind == "rmsel" then some (removeSelector prev (x.get "target"))
        else if x.kind == "unjail" then some (unjail prev sc.now x.signer)
        else if x.kind == "mkrep" then some (createReporter prev x.signer (((x.get "min").toInt?).getD 0))
        else none
      match model? with
      | none => pure ()
      | some m =>
        if !(single && stakeStable) then sc := { sc with skipped := sc.skipped + 1 }
        else
          if m.isSome != x.ok then sc := rdiff sc s!"{x.kind} by {x.signer} ({x.extra}): implementation {if x.ok then "accepts" else "rejects"}, model {if m.isSome then "accepts" else "rejects"} at t={sc.now}"
          else match m with
            | some s' =>
              if !sameSels s'.sels cur.sels then sc := rdiff sc s!"selectors after {x.kind} by {x.signer}: model {repr s'.sels} implementation {repr cur.sels}"
              if !sameReps s'.reps cur.reps then sc := rdiff sc s!"reporters after {x.kind} by {x.signer}: model {repr s'.reps} implementation {repr cur.reps}"
            | none => if !(sameSels prev.sels cur.sels && sameReps prev.reps cur.reps) then sc := rdiff sc s!"rejected {x.kind} changed the tables"
          -- statement-level monitors on the implementation's decisions
          if x.ok && (x.kind == "sel" || x.kind == "sw") then
            match findRep prev (x.get "rep") with
            | some rep => if bondedOf prev x.signer < rep.minTokens then sc := rfail sc s!"{x.signer} joined {rep.name} with {bondedOf prev x.signer} bonded, minimum {rep.minTokens}"
            | none => sc := rfail sc s!"{x.signer} joined an unknown reporter"
          if x.ok && x.kind == "mkrep" && bondedOf prev x.signer < prev.params.minTrb then sc := rfail sc s!"{x.signer} became a reporter with {bondedOf prev x.signer} bonded"
          if x.ok && x.kind == "unjail" then
            match findRep prev x.signer with
            | some rep => if !(rep.jailed && rep.jailedUntil ≤ sc.now) then sc := rfail sc s!"{x.signer} released at {sc.now}, jailed until {rep.jailedUntil}"
            | none => pure ()
    -- reports of this block
    for m in sc.ms do
      sc := { sc with nRep := sc.nRep + 1 }
      if m.total != (m.origins.map (·.2.2)).sum then sc := rfail sc s!"stored origins of {m.reporter}'s report do not sum to the recorded total"
      if m.power != Int.tdiv m.total 1000000 then sc := rfail sc s!"power {m.power} of {m.reporter}'s report is not total {m.total} / 10^6"
      match findRep prev m.reporter with
      | some rep => if rep.jailed then sc := rfail sc s!"jailed reporter {m.reporter} reported"
      | none => sc := rfail sc s!"unknown reporter {m.reporter} reported"
      for (d, _, _) in m.origins do
        match findSel prev d with
        | some x => if x.reporter != m.reporter || x.lockedUntil > sc.now then sc := rfail sc s!"stake of {d} (selects {x.reporter}, locked until {x.lockedUntil}) counted for {m.reporter} at {sc.now}"
        | none => sc := rfail sc s!"stake of non-selector {d} counted for {m.reporter}"
      -- the same delegated tokens in two reporters' reports of one round
      let round := m.qid ++ "/" ++ m.metaId
      let ds := (m.origins.map (·.1)).eraseDups
      for (rd, rp, dl) in sc.rounds do
        if rd == round && rp != m.reporter then
          match ds.find? (fun d => dl.contains d) with
          | some d => sc := rfail sc s!"stake of {d} entered the reports of {rp} and {m.reporter} in round {round}"
          | none => pure ()
      sc := { sc with rounds := (round, m.reporter, ds) :: sc.rounds, reported := m.reporter :: sc.reported }
      -- statement-level recomputation (exact integer arithmetic, independent of the model's `reporterStake`):
      -- whole-token amount the reporter's unlocked selectors have delegated to bonded validators
      if stakeStable && sc.xs.length == 1 then
        let active := prev.sels.filter (fun x => x.reporter == m.reporter && x.lockedUntil ≤ sc.now)
        let spec : Int := (active.map (fun x => ((prev.dels.filter (·.delegator == x.selector)).map (fun d =>
            match prev.vals.find? (·.name == d.validator) with
            | some v => if v.bonded && v.shares > 0 then (d.shares * v.tokens) / v.shares else 0
            | none => 0)).sum)).sum
        let n : Int := (prev.dels.length : Int) + 1
        if m.total > spec + n || m.total + n < spec then
          sc := rfail sc s!"report of {m.reporter} at t={sc.now} carries stake {m.total} (power {m.power}); its active selectors have {spec} delegated to bonded validators"
      -- model stake
      if stakeStable && sc.xs.length == 1 then
        match reporterStake prev sc.now m.reporter with
        | some st =>
          if st != m.total then sc := rdiff sc s!"stake of {m.reporter} at t={sc.now}: implementation {m.total}, model {st}"
          if (counted prev sc.now m.reporter).any (fun x => decide (x.count > prev.params.maxValidators)) then sc := { sc with nB := sc.nB + 1 }
        | none => sc := rdiff sc s!"report of {m.reporter} accepted, the model gives no stake (jailed or unknown)"
      else sc := { sc with skipped := sc.skipped + 1 }
  return { sc with prev := some cur, xs := [], ms := [] }

def scanRepStake (out : String) : RScan := Id.run do
  let mut sc : RScan := {}
  let mut pendingBlock := false
  for rec in out.splitOn " ;; " do
    if sc.halted then continue
    if rec.startsWith "HALT" || rec.startsWith "harnesspanic" then sc := { sc with halted := true, note := rec }
    else if rec.startsWith "X " then
      -- a new block's records begin: close the previous block first
      if pendingBlock then sc := finishBlock sc; pendingBlock := false
      match parseX (rec.drop 2).toString with
      | some x => sc := { sc with xs := sc.xs ++ [x] }
      | none => sc := rdiff sc s!"unparsable {rec}"
    else if rec.startsWith "N " then
      if pendingBlock then sc := finishBlock sc; pendingBlock := false
      let fs := fieldsOf rec
      let g := fun k => ((getF fs k).bind parseInt?).getD 0
      sc := { sc with now := g "t", cur := { sc.cur with params := ⟨(g "cap").toNat, g "mintrb", (g "maxval").toNat, g "unb"⟩ } }
    else if rec.startsWith "V " then sc := { sc with cur := { sc.cur with vals := parseSVals2 (rec.drop 2).toString } }
    else if rec.startsWith "D " then sc := { sc with cur := { sc.cur with dels := parseSDels (rec.drop 2).toString } }
    else if rec.startsWith "S " then sc := { sc with cur := { sc.cur with sels := parseSSels (rec.drop 2).toString } }
    else if rec.startsWith "R " then
      sc := { sc with cur := { sc.cur with reps := parseSReps (rec.drop 2).toString } }
      pendingBlock := true
    else if rec.startsWith "M " then
      match parseM (rec.drop 2).toString with
      | some m => sc := { sc with ms := sc.ms ++ [m] }
      | none => sc := rdiff sc s!"unparsable {rec}"
    else pure ()
  if pendingBlock then sc := finishBlock sc
  return sc

def runRepStake (_inp : List String) (out : String) : Option Res :=
  let sc := scanRepStake out
  some { agree := sc.ok && !sc.halted, monitor := sc.mon, nontrivial := decide (sc.nRep ≥ 3 ∧ sc.nOps ≥ 20),
         model := s!"reports={sc.nRep} ops={sc.nOps} strategyB={sc.nB} skipped={sc.skipped}", note := sc.note }

end Driver
