import LayerModel.Lemmas.Median
import Driver.Util
namespace Driver
open Layer.Median Layer.PriceCache

/-- definition-level median (the statement of `C20_median_spec_u64`), with its own insertion sort -/
def insertSorted (x : Int) : List Int → List Int
  | [] => [x]
  | y :: ys => if x ≤ y then x :: y :: ys else y :: insertSorted x ys

def isort (xs : List Int) : List Int := xs.foldl (fun acc x => insertSorted x acc) []

def specMedian (xs : List Int) : Option Int :=
  if xs.isEmpty then none else
  let s := isort xs
  let l := s.length
  if l % 2 == 1 then some (s.getD (l / 2) 0) else some (meanAwayFromZero (s.getD (l / 2 - 1) 0) (s.getD (l / 2) 0))

def runMedianU (inp : List String) (out : String) : Option Res := do
  match inp with
  | [xsS] =>
    let xs ← mapM? parseNat? (commaList xsS)
    let m := match medianU64 xs with | some v => toString v | none => "err"
    let spec := match specMedian (xs.map Int.ofNat) with | some v => toString v | none => "err"
    pure { agree := m == out, monitor := spec == out, nontrivial := decide (xs.length ≥ 2 ∧ xs.length % 2 = 0), model := m }
  | _ => none

def runMedianI (inp : List String) (out : String) : Option Res := do
  match inp with
  | [xsS] =>
    let xs ← mapM? parseInt? (commaList xsS)
    let m := match medianI64 xs with | some v => toString v | none => "err"
    let spec := match specMedian xs with | some v => toString v | none => "err"
    pure { agree := m == out, monitor := spec == out, nontrivial := decide (xs.length ≥ 2 ∧ xs.length % 2 = 0), model := m }
  | _ => none

inductive POp where
  | upd (ups : List (Nat × List ExchangePrice))
  | read (t : Int) (params : List (Nat × Nat))

def parseEP (s : String) : Option ExchangePrice :=
  match s.splitOn "." with
  | [e, p, t] => do pure ⟨e, ← parseNat? p, ← parseInt? t⟩
  | _ => none

def parsePOp (s : String) : Option POp :=
  if s.startsWith "U " then do
    let ms ← mapM? (fun (m : String) => match m.splitOn "=" with
      | [id, es] => do
          let eps ← mapM? parseEP (es.splitOn "+")
          pure ((← parseNat? id), eps)
      | _ => none) ((s.drop 2).toString.splitOn ",")
    pure (.upd ms)
  else match s.splitOn " " with
    | ["R", t, ps] => do
      let params ← mapM? (fun (p : String) => match p.splitOn "." with
        | [id, mn] => do pure ((← parseNat? id), (← parseNat? mn))
        | _ => none) (ps.splitOn ",")
      pure (.read (← parseInt? t) params)
    | _ => none

def renderPrices (ps : List (Nat × Nat)) : String :=
  let sorted := ps.mergeSort (fun a b => decide (a.1 ≤ b.1))
  joinComma (sorted.map (fun p => s!"{p.1}={p.2}"))

/-- history-level specification of one read: for every (market, exchange) the latest price is the one
of the update with the greatest time (the earliest such update on equal times; never an update at or
before the zero time); fresh iff that time ≥ readTime − maxAge; served iff #fresh ≥ min and > 0. -/
def specLatest (hist : List (Nat × ExchangePrice)) (m : Nat) (e : String) : Option (Int × Nat) :=
  (hist.filter (fun u => u.1 == m && u.2.exchange == e)).foldl (fun best u =>
    match best with
    | none => if u.2.time > zeroTime then some (u.2.time, u.2.price) else some (zeroTime, 0)
    | some (t, p) => if u.2.time > t then some (u.2.time, u.2.price) else some (t, p)) none

def specRead (hist : List (Nat × ExchangePrice)) (maxAge : Int) (t : Int) (params : List (Nat × Nat)) : List (Nat × Nat) :=
  let ids := (params.map (·.1)).eraseDups
  ids.filterMap (fun id =>
    -- the last parameter with this id decides (the Go result is a map written in parameter order) —
    -- but a later parameter that is not served does not erase an earlier served one
    let exs := ((hist.filter (fun u => u.1 == id)).map (·.2.exchange)).eraseDups
    let fresh := exs.filterMap (fun e => match specLatest hist id e with
      | some (lt, p) => if lt ≥ t - maxAge then some (p : Int) else none
      | none => none)
    let served := params.any (fun p => p.1 == id && decide (fresh.length ≥ p.2))
    if served && !exs.isEmpty then (specMedian fresh).map (fun m => (id, m.toNat)) else none)

def runPcache (inp : List String) (out : String) : Option Res := do
  match inp with
  | [ma, opsS] =>
    let maxAge ← parseInt? ma
    let ops ← mapM? parsePOp ((opsS.splitOn ";").filter (fun s => !s.isEmpty))
    let (_, _, outs, specs, served) := ops.foldl (fun (acc : Cache × List (Nat × ExchangePrice) × List String × List String × Nat) op =>
      let (c, hist, outs, specs, served) := acc
      match op with
      | .upd ups => (updatePrices c ups, hist ++ (ups.flatMap (fun u => u.2.map (fun e => (u.1, e)))), outs, specs, served)
      | .read t params =>
        let r := getValidMedianPrices c maxAge params t
        (c, hist, outs ++ [renderPrices r], specs ++ [renderPrices (specRead hist maxAge t params)], served + r.length)) ([], [], [], [], 0)
    let m := ";".intercalate outs
    let sp := ";".intercalate specs
    pure { agree := m == out, monitor := sp == out, nontrivial := decide (served ≥ 1), model := m }
  | _ => none

end Driver
