import LayerModel.Chain.Ledger
import Driver.Chain
import Driver.Slash
namespace Driver
open Layer Layer.Ledger

/-- C05 on the implementation's dumps: after every block
  * the bonded pool holds at least the bonded validators' tokens, the not-bonded pool at least the other validators' tokens plus
    the unbonding balances,
  * the staking module's own invariants (non-negative power, positive delegations, delegator shares) hold,
  * the surplus of the pools over the ledger never shrinks and grows by at most one unit per delegation touched (model `C05_step`). -/
def runLedger (_inp : List String) (out : String) : Option Res := Id.run do
  let mut ok := true
  let mut note := ""
  let mut prevSlack : Option Int := none
  let mut blocks := 0
  let mut moved := 0     -- blocks in which the reporter/dispute modules moved stake (dispute balance changed or slack changed)
  let mut prevDispute : Int := 0
  let mut halted := false
  for rec in out.splitOn " ;; " do
    if rec.startsWith "HALT" || rec.startsWith "harnesspanic" then halted := true; note := rec
    if rec.startsWith "K " then
      -- fee paid from stake: the per-backer record sums to the recorded total
      for e in commaList (rec.drop 2).toString do
        match e.splitOn ":" with
        | [id, tot, os] =>
          let parts := (if os.isEmpty then [] else os.splitOn "+").filterMap (fun o => match o.splitOn "." with | [_, _, a] => parseInt? a | _ => none)
          let total := (parseInt? tot).getD 0
          let n : Int := (parts.length : Nat)
          if parts.sum > total + n || parts.sum + n < total then
            ok := false
            note := if note.isEmpty then s!"fee paid from stake for dispute {id}: the per-backer record sums to {parts.sum}, recorded total {total}" else note
        | _ => pure ()
    if rec.startsWith "E " then
      -- stake taken for a dispute: the per-backer record sums to the recorded total, which is the dispute's slash amount
      for d in (commaList (rec.drop 2).toString).filterMap parseE do
        match d.escTotal with
        | some et =>
          let sm := (d.escrow.map (·.2.2)).sum
          if sm != et || et != d.slash then
            ok := false
            note := if note.isEmpty then s!"stake taken for dispute {d.id}: the per-backer record sums to {sm}, recorded total {et}, slash amount {d.slash}" else note
        | none => pure ()
    if rec.startsWith "P " then
      let fs := fieldsOf rec
      let g := fun k => ((getF fs k).bind parseInt?).getD 0
      let vt := (getF fs "valtokens").getD "0/0"
      let (bt, nbt) := match vt.splitOn "/" with | [a, b] => ((parseInt? a).getD 0, (parseInt? b).getD 0) | _ => (0, 0)
      blocks := blocks + 1
      let fail := fun (m : String) (ok : Bool) (note : String) => (false, if note.isEmpty then m else note)
      if g "bonded" < bt then (ok, note) := fail s!"bonded pool {g "bonded"} below the bonded validators' tokens {bt}" ok note
      if g "notbonded" < nbt + g "ubd" then (ok, note) := fail s!"not-bonded pool {g "notbonded"} below {nbt} validator tokens + {g "ubd"} unbonding" ok note
      if (getF fs "inv").getD "ok" != "ok" then (ok, note) := fail s!"staking invariant {(getF fs "inv").getD ""}" ok note
      let st : St := ⟨g "bonded" + g "notbonded", bt + nbt + g "ubd"⟩
      let sl := slack st
      match prevSlack with
      | some p =>
        if sl < p then (ok, note) := fail s!"the pools' surplus over the ledger shrank from {p} to {sl}: coins left a pool without the ledger" ok note
        if sl - p > g "ndel" + 4 then (ok, note) := fail s!"the pools' surplus over the ledger grew from {p} to {sl} in one block ({g "ndel"} delegations)" ok note
        if g "dispute" != prevDispute then moved := moved + 1
      | none => pure ()
      prevSlack := some sl
      prevDispute := g "dispute"
  return some { agree := !halted, monitor := ok, nontrivial := decide (moved ≥ 2), model := s!"blocks={blocks} moved={moved}", note := note }

end Driver

namespace Driver
/-- C01 on whole histories: two executions of the same history on fresh chains give the same application hash after every block -/
def runAppHash (_inp : List String) (out : String) : Option Res :=
  let eq := out.startsWith "equal"
  let n := (((out.splitOn "blocks=").getD 1 "").toNat?).getD 0
  some { agree := true, monitor := eq, nontrivial := decide (n ≥ 10), model := "", note := if eq then "" else (out.take 300).toString }
end Driver
