import LayerModel.Lemmas.Aggregate
import Driver.Util
namespace Driver
open Layer.Agg

def parseReport (s : String) : Option Report :=
  match s.splitOn ":" with
  | [rep, v, p, b] => do pure ⟨rep, v, ← parseNat? p, ← parseNat? b⟩
  | _ => none

def parseAggRep (s : String) : Option AggReporter :=
  match s.splitOn ":" with
  | [rep, p, b] => do pure ⟨rep, ← parseNat? p, ← parseNat? b⟩
  | _ => none

def parseAgg (s : String) : Option Aggregate :=
  match s.splitOn "~" with
  | [v, rep, p, i, mh, reps] => do
    let rl ← mapM? parseAggRep (if reps.isEmpty then [] else reps.splitOn ";")
    pure { value := v, reporter := rep, power := ← parseNat? p, index := ← parseNat? i, microHeight := ← parseNat? mh, reporters := rl }
  | _ => none

def renderAgg (a : Aggregate) : String :=
  let reps := ";".intercalate (a.reporters.map (fun r => s!"{r.reporter}:{r.power}:{r.block}"))
  s!"{a.value}~{a.reporter}~{a.power}~{a.index}~{a.microHeight}~{reps}"

def renderOpt : Option Aggregate → String
  | none => "err"
  | some a => renderAgg a

def wfRound (rs : List Report) : Bool :=
  !rs.isEmpty && rs.all (fun r => (parseHex (strip0x r.value)).isSome) && rs.all (fun r => decide (1 ≤ r.power)) &&
    decide (psum rs < 2^63)

/-- is `b` a permutation of `a` (decidable, quadratic) -/
def isPerm [DecidableEq α] : List α → List α → Bool
  | [], b => b.isEmpty
  | x :: xs, b => b.contains x && isPerm xs (b.erase x)

/-- the statement of `C06_median_full` evaluated on an aggregate the implementation returned -/
def isWeightedMedian (rs : List Report) (a : Aggregate) : Bool :=
  rs.any (fun r => strip0x r.value == a.value && r.reporter == a.reporter && r.block == a.microHeight) &&
  decide (2 * powerBelow rs (aggValD a) ≤ psum rs) &&
  decide (2 * powerUpTo rs (aggValD a) ≥ psum rs) &&
  a.power == psum rs &&
  isPerm a.reporters (rs.map toAggReporter) &&
  ((a.reporters[a.index]?).map (·.reporter) == some a.reporter)
where aggValD (a : Aggregate) : Int := (parseHex a.value).getD 0

def runMedian (inp : List String) (out : String) : Option Res := do
  match inp with
  | [rsS] =>
    let rs ← mapM? parseReport (commaList rsS)
    let m := renderOpt (weightedMedian rs)
    let wf := wfRound rs
    let mon := if wf then (match parseAgg out with
      | some a => isWeightedMedian rs a
      | none => false) else true
    let distinctVals := (rs.map (·.value)).eraseDups.length
    pure { agree := m == out, monitor := mon, nontrivial := wf && decide (distinctVals ≥ 2), model := m }
  | _ => none

/-- the statement of C06 for the mode + C01 determinism, on the set of outputs the implementation produced -/
def isWeightedMode (rs : List Report) (a : Aggregate) : Bool :=
  -- the raw (possibly 0x-prefixed) value the named reporter submitted
  let raw := ((rs.filter (fun r => r.reporter == a.reporter && strip0x r.value == a.value)).map (·.value)).headD a.value
  rs.all (fun r => decide (weight rs r.value ≤ weight rs raw)) &&
  rs.any (fun r => strip0x r.value == a.value && r.reporter == a.reporter && r.block == a.microHeight) &&
  a.power == psum rs % 2^64 &&
  a.reporters == rs.map toAggReporter &&
  ((a.reporters[a.index]?).map (·.reporter) == some a.reporter) &&
  -- the named reporter is a strongest reporter of the chosen value
  rs.all (fun r => !(r.value == raw) || decide (r.power ≤ ((a.reporters[a.index]?).map (·.power)).getD 0))

def runMode (inp : List String) (out : String) : Option Res := do
  match inp with
  | [rsS] =>
    let rs ← mapM? parseReport (commaList rsS)
    let m := renderOpt (weightedMode rs)
    let outs := out.splitOn " || "
    let wf := !rs.isEmpty && rs.all (fun r => decide (1 ≤ r.power))
    let deterministic := outs.length == 1
    let each := if wf then outs.all (fun o => match parseAgg o with
      | some a => isWeightedMode rs a
      | none => false) else true
    -- a tie = two values of maximal weight
    let maxW := (rs.map (fun r => weight rs r.value)).foldl max 0
    let tied := ((rs.filter (fun r => weight rs r.value == maxW)).map (·.value)).eraseDups.length ≥ 2
    pure { agree := m == out, monitor := deterministic && each, nontrivial := wf && tied, model := m,
           note := if deterministic then "" else "nondeterministic" }
  | _ => none

end Driver
