import LayerModel.Chain.Tally
import Driver.Util
namespace Driver
open Layer Layer.Tally

def parseChoice (s : String) : Option (Option Choice) :=
  match s with
  | "-" => some none | "s" => some (some .support) | "a" => some (some .against) | "i" => some (some .invalid) | _ => none

def parseCounts (s : String) : Option Counts :=
  match s.splitOn "," with
  | [a, b, c] => do pure ⟨← parseNat? a, ← parseNat? b, ← parseNat? c⟩
  | _ => none

def resultName : Result → String
  | .support => "SUPPORT" | .against => "AGAINST" | .invalid => "INVALID"
  | .nqSupport => "NO_QUORUM_MAJORITY_SUPPORT" | .nqAgainst => "NO_QUORUM_MAJORITY_AGAINST" | .nqInvalid => "NO_QUORUM_MAJORITY_INVALID"

def renderOut (x : Input) : Output → String
  | .stillVoting => "err:still-voting"
  | .tallied r resolved =>
    let quorum := r == .support || r == .against || r == .invalid
    if quorum then s!"result:{resultName r}:DISPUTE_STATUS_RESOLVED:false:true"
    else if resolved then s!"result:{resultName r}:DISPUTE_STATUS_RESOLVED:false:true"
    else s!"result:{resultName r}:DISPUTE_STATUS_UNRESOLVED:true:true"

/-- exact rationals as (numerator, positive denominator) -/
structure Q where
  n : Int
  d : Int
def Q.add (a b : Q) : Q := ⟨a.n * b.d + b.n * a.d, a.d * b.d⟩
def Q.lt (a b : Q) : Bool := decide (a.n * b.d < b.n * a.d)
def Q.sub (a b : Q) : Q := ⟨a.n * b.d - b.n * a.d, a.d * b.d⟩
def Q.absLtEps (a : Q) : Bool :=  -- |a| < 10^-5
  let num := if a.n < 0 then -a.n else a.n
  decide (num * 100000 < a.d)
def Q.zero : Q := ⟨0, 1⟩

/-- definition-level tally (exact): per group the fractions c_g / sum_g and the quorum share 25·sum_g/total_g -/
structure Spec where
  s : Q
  a : Q
  i : Q
  quorum : Q      -- in percent

def specGroup (c : Counts) (total : Int) (acc : Spec) : Spec :=
  if c.sum > 0 then
    { s := acc.s.add ⟨c.s, c.sum⟩, a := acc.a.add ⟨c.a, c.sum⟩, i := acc.i.add ⟨c.i, c.sum⟩,
      quorum := if total > 0 then acc.quorum.add ⟨25 * c.sum, total⟩ else acc.quorum }
  else acc

def specTeam (t : Option Choice) : Spec :=
  match t with
  | none => ⟨.zero, .zero, .zero, .zero⟩
  | some .support => ⟨⟨1, 1⟩, .zero, .zero, ⟨25, 1⟩⟩
  | some .against => ⟨.zero, ⟨1, 1⟩, .zero, ⟨25, 1⟩⟩
  | some .invalid => ⟨.zero, .zero, ⟨1, 1⟩, ⟨25, 1⟩⟩

/-- acceptable results under the specification (a set, to leave rounding-level near-ties and a quorum share within
10^-5 of the line undecided) -/
def specAccepts (x : Input) (withHolders : Bool) (implQuorum : Option Bool) (choice : Option Choice) : Bool :=
  let sp := specGroup x.reporters x.totalPower (specGroup x.users x.totalTips (specTeam x.team))
  let sp := if withHolders then specGroup x.holders x.supply sp else sp
  let okChoice := match choice with
    | none => true
    | some c =>
      let (mine, o1, o2) := match c with
        | .support => (sp.s, sp.a, sp.i) | .against => (sp.a, sp.s, sp.i) | .invalid => (sp.i, sp.s, sp.a)
      -- the chosen one is not beaten by more than the slack; `invalid` is also the accepted outcome of a tie of the leaders
      let notBeaten := fun (o : Q) => !(mine.lt o) || (o.sub mine).absLtEps
      (notBeaten o1 && notBeaten o2) ||
        (c == .invalid && ((sp.s.sub sp.a).absLtEps && !(sp.s.lt sp.i) || false))
  let line : Q := ⟨51, 1⟩
  let nearLine := (sp.quorum.sub line).absLtEps
  let okQuorum := match implQuorum with
    | none => true
    | some q => nearLine || (q == !(sp.quorum.lt line))
  okChoice && okQuorum

def runTally (inp : List String) (out : String) : Option Res := do
  match inp with
  | [tm, us, rs, hs, tt, tp, su, pe, de, hv] =>
    let x : Input := { team := ← parseChoice tm, users := ← parseCounts us, reporters := ← parseCounts rs, holders := ← parseCounts hs,
                       totalTips := ← parseInt? tt, totalPower := ← parseInt? tp, supply := ← parseInt? su,
                       periodEnded := pe == "1", disputeEnded := de == "1", hasVoters := hv == "1" }
    let m := renderOut x (tally x)
    -- monitor on the implementation's output
    let implRes : Option (Option Bool × Option Choice) :=
      if out == "err:still-voting" then some (some false, none)
      else match out.splitOn ":" with
        | ["result", r, _, _, _] =>
          (match r with
           | "SUPPORT" => some (some true, some Choice.support) | "AGAINST" => some (some true, some Choice.against)
           | "INVALID" => some (some true, some Choice.invalid)
           | "NO_QUORUM_MAJORITY_SUPPORT" => some (some false, some Choice.support)
           | "NO_QUORUM_MAJORITY_AGAINST" => some (some false, some Choice.against)
           | "NO_QUORUM_MAJORITY_INVALID" => some (some false, some Choice.invalid)
           | _ => none)
        | _ => none
    -- first-stage quorum as the code computes it (model value): holders excluded from the result there
    let a2ratio := (teamAcc x.team).ratio + (if x.users.sum > 0 then ratio x.totalTips x.users.sum else 0) + ratio x.totalPower x.reporters.sum
    let stage1 := decide (a2ratio ≥ quorumLine)
    let mon := match implRes with
      | none => false                      -- an error other than still-voting: the tally is not decided
      | some (q, c) =>
        if out == "err:still-voting" then (!x.periodEnded) && specAccepts x true (some false) none
        else if !x.hasVoters && x.periodEnded && q == some false then c == some .invalid
        else specAccepts x true q c
    let tie := decide (x.users.s = x.users.a ∨ x.reporters.s = x.reporters.a)
    pure { agree := m == out, monitor := mon, nontrivial := decide (x.users.sum + x.reporters.sum + x.holders.sum > 0), model := m,
           finding := if stage1 && decide (x.holders.sum > 0) then "tally-holders-ignored" else "", note := if tie then "tie" else "" }
  | _ => none

def runRatio (inp : List String) (out : String) : Option Res := do
  match inp with
  | [t, p] =>
    let m := toString (ratio (← parseInt? t) (← parseInt? p))
    pure { agree := m == out, monitor := true, nontrivial := true, model := m }
  | _ => none

end Driver
