import LayerModel.Chain.Rewards
import Driver.Util
import Driver.Agg
namespace Driver
open Layer Layer.Rewards Layer.Agg

def runCalc (inp : List String) (out : String) : Option Res := do
  match inp with
  | [rp, cnt, tp, rw] =>
    let m := toString (calculateRewardAmount (← parseNat? rp) (← parseNat? cnt) (← parseNat? tp) (← parseInt? rw))
    pure { agree := m == out, monitor := true, nontrivial := true, model := m }
  | _ => none

def parseAggs (s : String) : Option (List (String × List AggReporter)) :=
  mapM? (fun (a : String) => match a.splitOn "=" with
    | [q, reps] => do pure (q, ← mapM? parseAggRep (reps.splitOn ","))
    | _ => none) (s.splitOn ";")

def iabs (x : Int) : Int := if x < 0 then -x else x

/-- statement of C09 for one allocation, evaluated on the calls the implementation made:
the amounts sum to the reward exactly, none is negative, each reporter's amount is within the stated
tolerance of `R · P_i / T` with `P_i` the power the reporter contributed to the paid aggregates. -/
def allocMonitor (aggs : List (String × List AggReporter)) (reward : Int) (calls : List (String × Int)) (sent : Option Int) : Bool :=
  if reward == 0 then calls.isEmpty && sent.isNone else
  let all := aggs.flatMap (·.2)
  let T : Int := ((all.map (·.power)).sum : Nat)
  let addrs := (all.map (·.reporter)).eraseDups
  let n : Int := addrs.length
  let sumOk := (calls.map (·.2)).sum == reward * Dec.prec
  let nonneg := calls.all (fun c => decide (0 ≤ c.2))
  let once := isPerm (calls.map (·.1)) addrs
  let prop := calls.all (fun c =>
    let P : Int := (((all.filter (fun r => r.reporter == c.1)).map (·.power)).sum : Nat)
    -- |amount·T − R·P·10^18| ≤ tol·T   (amount is a raw 10^-18 integer)
    decide (iabs (c.2 * T - reward * P * Dec.prec) ≤ n * (reward + 1) * T))
  sumOk && nonneg && once && prop && sent == some reward

def powersConsistent (aggs : List (String × List AggReporter)) : Bool :=
  let all := aggs.flatMap (·.2)
  all.all (fun r => all.all (fun r' => !(r.reporter == r'.reporter) || r.power == r'.power))

def runAlloc (inp : List String) (out : String) : Option Res := do
  match inp with
  | [rw, aggsS] =>
    let reward ← parseInt? rw
    let aggs ← parseAggs aggsS
    let calls := allocate aggs reward
    let m := joinComma (calls.map (fun c => s!"{c.1.addr}:{c.2}:{c.1.queryId}:{c.1.height}")) ++
      (if reward == 0 then "" else s!"/send:{reward}")
    -- parse the implementation's calls
    let (callsS, sentS) := match out.splitOn "/send:" with
      | [c, s] => (c, some s)
      | [c] => (c, none)
      | _ => (out, none)
    let implCalls ← mapM? (fun (c : String) => match c.splitOn ":" with
      | [a, amt, _, _] => do pure (a, ← parseInt? amt)
      | _ => none) (commaList callsS)
    let sent := sentS.bind parseInt?
    let mon := if out == "err" then false else allocMonitor aggs reward implCalls sent
    pure { agree := m == out, monitor := mon, nontrivial := decide (implCalls.length ≥ 2), model := m,
           finding := "" }
  | _ => none

/-- C01: the set of outputs of repeated executions must be a singleton (and equal the model's) -/
def runAllocRep (inp : List String) (out : String) : Option Res := do
  let outs := out.splitOn " || "
  let r ← runAlloc inp (outs.headD "")
  pure { r with agree := r.agree && outs.length == 1, monitor := outs.length == 1, nontrivial := true,
                note := if outs.length == 1 then "" else "nondeterministic" }

def parseOrigin (s : String) : Option Origin :=
  match s.splitOn ":" with
  | [d, v, a] => do pure ⟨d, v, ← parseInt? a⟩
  | _ => none

/-- statement of C09 for one DivvyingTips call on the implementation's resulting SelectorTips:
credits sum to the reward within one raw unit per origin, no credit is negative, the reporter's
credit is commission + its pro-rata part, every other selector's credit is its pro-rata part. -/
def divvyMonitor (reporter : String) (rate reward : Int) (origins : List Origin) (total : Int) (tips : List (String × Int)) : Bool :=
  let n : Int := origins.length
  let sum := (tips.map (·.2)).sum
  let sumOk := decide (iabs (sum - reward) ≤ n + 1)
  let nonneg := tips.all (fun t => decide (0 ≤ t.2))
  -- exact-rational expectation per delegator, scaled by total·10^18:  commission = reward·rate/10^18
  let dels := ((origins.map (·.delegator)) ++ [reporter]).eraseDups
  let prorata := dels.all (fun d =>
    let amt : Int := ((origins.filter (fun o => o.delegator == d)).map (·.amount)).sum
    let k : Int := ((origins.filter (fun o => o.delegator == d)).length : Nat)
    let got := ((tips.filter (fun t => t.1 == d)).map (·.2)).sum
    -- expected·(total·P) = (reward·P − reward·rate)·amt + [d = reporter]·reward·rate·total
    let P := Dec.prec
    let expScaled := (reward * P - reward * rate) * amt + (if d == reporter then reward * rate * total else 0)
    decide (iabs (got * (total * P) - expScaled) ≤ (k + 2) * (total * P)))
  sumOk && nonneg && prorata

def runDivvy (inp : List String) (out : String) : Option Res := do
  match inp with
  | [rep, rateS, rewardS, totalS, osS] =>
    let rate ← parseInt? rateS
    let reward ← parseInt? rewardS
    let total ← parseInt? totalS
    let origins ← mapM? parseOrigin (commaList osS)
    let tips := applyCredits [] (divvy rep rate reward origins total)
    let sorted := tips.mergeSort (fun a b => decide (a.1 ≤ b.1))
    let m := joinComma (sorted.map (fun t => s!"{t.1}:{t.2}"))
    let implTips ← mapM? (fun (c : String) => match c.splitOn ":" with
      | [d, v] => do pure (d, ← parseInt? v)
      | _ => none) (commaList out)
    let inRange := decide (0 ≤ rate ∧ rate ≤ Dec.prec)
    let mon := divvyMonitor rep rate reward origins total implTips
    let own := (origins.filter (fun o => o.delegator == rep)).length
    pure { agree := m == out, monitor := mon, nontrivial := decide (own ≠ 1 ∧ rate ≠ 0) && inRange, model := m,
           finding := if !inRange then "commission-range" else "" }
  | _ => none

end Driver
