import Driver.Price
namespace Driver
open Layer.Median Layer.PriceCache

/-- one recorded operation of a concurrent history -/
structure HOp where
  op : POp
  inv : Nat
  resp : Nat
  result : String      -- "" for updates

def parseHist (prog : String) (obs : String) : Option (List HOp) := do
  let ops ← mapM? parsePOp ((prog.splitOn ";").filter (fun s => !s.isEmpty))
  let os := (obs.splitOn ";").filter (fun s => !s.isEmpty)
  if ops.length != os.length then none else
  mapM? (fun (p : POp × String) =>
    let (op, o) := p
    let (tm, res) := match o.splitOn "=" with
      | tm :: rest => (tm, "=".intercalate rest)
      | [] => (o, "")
    match tm.splitOn "-" with
    | [a, b] => do pure { op := op, inv := ← parseNat? a, resp := ← parseNat? b, result := res }
    | _ => none) (ops.zip os)

def applyOp (maxAge : Int) (c : Cache) (h : HOp) : Option Cache :=
  match h.op with
  | .upd ups => some (updatePrices c ups)
  | .read t params =>
    if renderPrices (getValidMedianPrices c maxAge params t) == h.result then some c else none

/-- Wing–Gong search: `threads` holds each thread's remaining operations in program order.
An operation may be linearized next iff it is the head of its thread and no other remaining
operation responded before it was invoked. -/
partial def linearizable (maxAge : Int) (c : Cache) (threads : List (List HOp)) : Bool :=
  if threads.all (·.isEmpty) then true else
  let allRemaining := threads.flatten
  let minResp := (allRemaining.map (·.resp)).foldl min (allRemaining.head?.map (·.resp) |>.getD 0)
  -- candidates: heads invoked before every remaining op's response (real-time order)
  let idxs := List.range threads.length
  idxs.any (fun i =>
    match threads[i]? with
    | some (h :: rest) =>
      if h.inv ≤ minResp then
        match applyOp maxAge c h with
        | some c' => linearizable maxAge c' (threads.set i rest)
        | none => false
      else false
    | _ => false)

def runPconc (inp : List String) (out : String) : Option Res := do
  match inp with
  | [ma, prefS, progsS] =>
    let maxAge ← parseInt? ma
    let pre ← mapM? parsePOp ((prefS.splitOn ";").filter (fun s => !s.isEmpty))
    let c0 := pre.foldl (fun c op => match op with | .upd ups => updatePrices c ups | _ => c) ([] : Cache)
    let progs := progsS.splitOn "#"
    let obs := out.splitOn "#"
    if progs.length != obs.length then none else
    let threads ← mapM? (fun (p : String × String) => parseHist p.1 p.2) (progs.zip obs)
    let ok := linearizable maxAge c0 threads
    let all := threads.flatten
    -- non-trivial: some read overlaps an update in real time
    let overlap := all.any (fun a => all.any (fun b =>
      (match a.op, b.op with | .read _ _, .upd _ => true | _, _ => false) && decide (a.inv < b.resp ∧ b.inv < a.resp)))
    pure { agree := ok, monitor := ok, nontrivial := overlap, model := if ok then "linearizable" else "NOT-linearizable" }
  | _ => none

end Driver
