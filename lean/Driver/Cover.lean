import Driver.Settle
namespace Driver
open Layer Layer.Settle

/-- what the dispute account owes after a block, from the implementation's own records:
  * a dispute still collecting its fee: the fees paid so far,
  * a funded dispute whose last round is not executed: all fees (first round + further rounds) and the escrowed stake,
  * an executed dispute: the refunds (and, when supported, the reporter's bond) of the payers that have not withdrawn yet,
    and the voter reward minus what the voters marked as having claimed received,
  * a failed dispute: the refunds of the payers that have not withdrawn yet (5 % of their fee, see DESIGN.md). -/
def owedBy (sn : SSnap) : Int := Id.run do
  let mut owed : Int := 0
  -- first rounds identify disputes
  for f0 in sn.ds.filter (fun d => d.round == 1) do
    let chain := sn.ds.filter (fun d => d.prev.contains f0.id)
    let latest := chain.foldl (fun (m : DRec) d => if d.id > m.id then d else m) f0
    let payers := sn.fs.filter (·.id == f0.id)
    if latest.status == 0 then owed := owed + latest.feeTotal
    else if latest.status == 4 then
      owed := owed + (payers.map (fun p => (refund p.amount (latest.feeTotal / 20) latest.feeTotal).1)).sum
    else if !latest.executed then owed := owed + latest.feeTotal + latest.slash
    else
      match outcomeOf latest.result with
      | some .against => pure ()
      | some o =>
        let roundFees := latest.feeTotal - latest.slash
        let pot := latest.slash - (latest.burn - roundFees)
        owed := owed + (payers.map (fun p => (refund p.amount pot latest.slash).1 + (if o == .support then (bondShare p.amount latest.slash latest.slash).1 else 0))).sum
      | none => pure ()
      -- voter reward not yet claimed
      if latest.executed then
        let glob := fun (g : CRec → Int) => ((sn.cs.filter (fun c => latest.prev.contains c.id)).map g).sum
        let voters := ((sn.ts.filter (fun t => latest.prev.contains t.id)).map (·.voter)).eraseDups
        let claimed := voters.filter (fun v => sn.ts.any (fun t => t.id == latest.id && t.voter == v && t.claimed))
        let paid := (claimed.map (fun v =>
          let mine := sn.ts.filter (fun t => latest.prev.contains t.id && t.voter == v)
          ((reward latest.voterReward (mine.map (·.tips)).sum (mine.map (·.repPower)).sum (mine.map (·.holderPower)).sum
              (glob (·.users)) (glob (·.reps)) (glob (·.holders))).getD 0))).sum
        let unclaimedVoters := voters.filter (fun v => !claimed.contains v)
        if !unclaimedVoters.isEmpty then owed := owed + (latest.voterReward - paid) - (voters.length : Int)
  return owed

/-- C04 (dispute account): after every block the dispute module holds at least what it owes, and no refund or reward claim is rejected
    for lack of funds (inside the trigger of the recorded finding from-bond-fee-dust such a rejection is reported as that finding) -/
def runCover (_inp : List String) (out : String) : Option Res :=
  let sc := scanSettle out
  let snaps := sc.snaps.reverse
  let (ok, note, n) := snaps.foldl (fun (acc : Bool × String × Nat) sn =>
    let (ok, note, n) := acc
    let owed := owedBy sn
    let good := sn.disputeBal + 4 ≥ owed
    (ok && good, if good || note != "" then note else s!"dispute account holds {sn.disputeBal}, owes {owed} (disputes {sn.ds.map (fun d => (d.id, d.status, d.result, d.executed))})",
     n + (if owed > 0 then 1 else 0))) (true, "", 0)
  -- rejected claims
  let (dusty, short, known) := (snaps.zip snaps.tail).foldl (fun (acc : List Nat × String × String) p =>
    let (dusty, short, known) := acc
    let (a, b) := p
    let dusty := (dusty ++ dustShort a ++ dustShort b).eraseDups
    b.xs.foldl (fun (acc : List Nat × String × String) x =>
      let (dusty, short, known) := acc
      if x.get "why" == "insufficient" && (x.kind == "wfr" || x.kind == "claim") then
        let id := ((x.get "id").toNat?).getD 0
        let first := ((a.ds.find? (·.id == id)).map (fun d => d.prev.foldl min id)).getD id
        let m := s!"{x.kind} of {x.signer} on dispute {id} was rejected for lack of funds"
        let _ := first
        if !dusty.isEmpty then (dusty, short, if known.isEmpty then m ++ s!": the from-stake fee of dispute(s) {dusty} was escrowed short of the recorded amount" else known)
        else (dusty, if short.isEmpty then m else short, known)
      else acc) (dusty, short, known)) (([] : List Nat), "", "")
  let _ := dusty
  let mon := ok && short.isEmpty
  some { agree := !sc.halted, monitor := mon && known.isEmpty, nontrivial := decide (n ≥ 3), model := s!"blocks_with_debt={n}",
         note := if note != "" then note else if short != "" then short else if known != "" then known else sc.note,
         finding := if mon && known != "" then "from-bond-fee-dust" else "" }

end Driver
