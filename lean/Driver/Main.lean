import Driver.Util
import Driver.Ante
import Driver.Agg
import Driver.Price
import Driver.Rewards
import Driver.Pconc
import Driver.Abi
import Driver.Tally
import Driver.Chain
import Driver.Valset
import Driver.Authz
import Driver.RepStake
import Driver.Slash
import Driver.Settle
import Driver.Ledger
import Driver.Lifecycle
import Driver.Cover
import Driver.Tbr
import Driver.Oracle
import Driver.Claim
import Driver.FeeStake
import Driver.Frame
open Driver

def dispatch (fam : String) : Option (List String → String → Option Res) :=
  match fam with
  | "ante" => some runAnte
  | "track" => some runTrack
  | "median" => some runMedian
  | "mode" => some runMode
  | "medianu" => some runMedianU
  | "mediani" => some runMedianI
  | "pcache" => some runPcache
  | "pconc" => some runPconc
  | "calc" => some runCalc
  | "supply" => some runSupply
  | "nohalt" => some runNoHalt
  | "nohaltlong" => some runNoHalt
  | "supplylong" => some runSupply
  | "deposit" => some runDeposit
  | "proposal" => some runProposal
  | "valsetchain" => some runValsetChain
  | "authz" => some runAuthz
  | "repstake" => some runRepStake
  | "slash" => some runSlash
  | "settle" => some runSettle
  | "settlerich" => some runSettle
  | "lifecycle" => some runLifecycle
  | "coversettle" => some runCover
  | "tbrsplit" => some runTbr
  | "ledgerslash" => some runLedger
  | "ledgerhist" => some runLedger
  | "apphash" => some runAppHash
  | "apphashsettle" => some runAppHash
  | "ledgersettle" => some runLedger
  | "feestake" => some runFeeStake
  | "framesettle" => some runFrameSettle
  | "nohaltsettle" => some runNoHaltSettle
  | "nohaltslash" => some runNoHaltSlash
  | "snapshotsum" => some runSnapshotSum
  | "claim" => some runClaim
  | "oracle" => some runOracle
  | "oracle7" => some runOracle7
  | "oracle8" => some runOracle8
  | "escrow" => some runEscrow
  | "tally" => some runTally
  | "ratio" => some runRatio
  | "valset" => some runValset
  | "checkpoint" => some runCheckpoint
  | "vparams" => some runVparams
  | "evmaddr" => some runEvmAddr
  | "attest" => some runAttest
  | "qid" => some runQid
  | "wvalue" => some runWvalue
  | "sigconv" => some runSigconv
  | "alloc" => some runAlloc
  | "allocrep" => some runAllocRep
  | "divvy" => some runDivvy
  | _ => none

def splitArrow (fs : List String) : List String × String :=
  let rec go (acc : List String) : List String → List String × String
    | [] => (acc.reverse, "")
    | "=>" :: rest => (acc.reverse, "|".intercalate rest)
    | x :: rest => go (x :: acc) rest
  go [] fs

def processLine (line : String) : String :=
  match line.splitOn "|" with
  | fam :: rest =>
    match dispatch fam with
    | none => s!"unknown|0||family {fam}"
    | some f =>
      let (inp, out) := splitArrow rest
      match f inp out with
      | some r => r.render
      | none => "badline|0||unparsable"
  | [] => "badline|0||empty"

partial def loop (h : IO.FS.Stream) (o : IO.FS.Stream) : IO Unit := do
  let line ← h.getLine
  if line.isEmpty then return ()
  let l := (line.trimAsciiEnd).toString
  if l.isEmpty then loop h o else
  o.putStrLn (processLine l)
  loop h o

def main : IO Unit := do
  let i ← IO.getStdin
  let o ← IO.getStdout
  loop i o
  o.flush
