import Driver.Settle
import Driver.RepStake
namespace Driver
open Layer

/-- family `framesettle` (C19, frame condition on the dispute pay-outs): in the settlement histories a transaction's pay-out goes to the
    party it is owed to — in a block without dispute execution, an account that signed nothing and is not the named fee payer (or, for
    a fee paid from stake, a member of the payer's group) gains nothing, and whoever signs a refund request for somebody else gains
    nothing either. -/
def runFrameSettle (_inp : List String) (out : String) : Option Res := Id.run do
  let sc := scanSettle out
  let snaps := sc.snaps.reverse
  let mut ok := true
  let mut note := ""
  let mut nPay := 0      -- pay-out transactions seen
  let mut nOther := 0    -- … of which signed by somebody else than the beneficiary
  for (a, b) in snaps.zip snaps.tail do
    -- blocks in which a dispute was executed or changed status pay out from the begin blocker / a deciding vote: not a transaction's pay-out
    let quiet := b.ds.all (fun d => match a.ds.find? (·.id == d.id) with
      | some p => p.executed == d.executed && p.status == d.status
      | none => true) && a.ds.length == b.ds.length
    if quiet && !b.xs.isEmpty then
      let signers := b.xs.map (·.signer)
      let groupOf := fun (r : String) => r :: ((a.sels.filter (·.reporter == r)).map (·.selector))
      -- beneficiaries of the block's accepted pay-outs
      let mut benef : List String := []
      for x in b.xs do
        if x.ok && x.kind == "wfr" then
          let payer := x.get "payer"
          let id := ((x.get "id").toNat?).getD 0
          let fromBond := (a.fs.find? (fun f => f.id == id && f.payer == payer)).map (·.fromBond) == some true
          benef := benef ++ (if fromBond then groupOf payer else [payer])
          nPay := nPay + 1
          if x.signer != payer then nOther := nOther + 1
        if x.ok && x.kind == "claim" then
          benef := benef ++ [x.signer]
          nPay := nPay + 1
        -- whoever signs anything but a refund request moves its own funds; a change of its delegations (and, for a fee paid from
        -- stake, of its selectors' delegations) also pays out the staking rewards accrued so far
        if x.kind != "wfr" then
          benef := benef ++ (if x.get "bond" == "1" then groupOf x.signer else [x.signer])
      for h in b.hold do
        let n := h.1
        let before := holdOf a n
        let after := holdOf b n
        if !benef.contains n then
          -- signers pay fees and move their own funds; nobody who is not owed anything ends the block with more than before,
          -- except a signer moving its own liquid funds into stake or a tip (total unchanged or lower)
          if after > before then
            ok := false
            if note.isEmpty then note := s!"{n} gained {after - before} in a block with {b.xs.map (fun x => x.kind ++ ":" ++ x.signer ++ (if x.ok then "" else ":rej"))} although no pay-out of the block is owed to it (signers {signers})"
  return some { agree := !sc.halted, monitor := ok, nontrivial := decide (nPay ≥ 1 ∧ nOther ≥ 1),
                model := s!"payouts={nPay} by_others={nOther}", note := if note != "" then note else sc.note }

/-- family `nohaltsettle` (C02): the dispute histories (all fee patterns, votes, up to three rounds, every deadline crossed, claims) never
    stop the chain: no block fails in a begin/end blocker, PrepareProposal, ProcessProposal or FinalizeBlock and no handler panics -/
def runNoHaltSettle (_inp : List String) (out : String) : Option Res :=
  let sc := scanSettle out
  let rounds := (sc.snaps.headD {}).ds.filter (fun d => d.round > 1)
  some { agree := true, monitor := !sc.halted, nontrivial := decide (sc.snaps.length ≥ 20 ∧ !rounds.isEmpty),
         model := s!"blocks={sc.snaps.length} rounds={rounds.length}", note := sc.note }

/-- family `nohaltslash` (C02): the slashing histories (reports, redelegation and undelegation between report and dispute, disputes of every
    category on real, altered and invented reports, fees from stake, validators slashed for downtime or tombstoned for double signing,
    deadlines crossed) never stop the chain -/
def runNoHaltSlash (_inp : List String) (out : String) : Option Res :=
  let halted := (out.splitOn " ;; ").any (fun r => r.startsWith "HALT" || r.startsWith "harnesspanic")
  let blocks := ((out.splitOn " ;; ").filter (·.startsWith "N ")).length
  let funded := (out.splitOn " ;; ").any (fun r => r.startsWith "X disp" && (r.splitOn ":").contains "ok")
  some { agree := true, monitor := !halted, nontrivial := decide (blocks ≥ 20) && funded, model := s!"blocks={blocks}",
         note := ((out.splitOn " ;; ").find? (fun r => r.startsWith "HALT" || r.startsWith "harnesspanic")).getD "" }

/-- family `snapshotsum` (C09, C04): every stake snapshot a report records — the origins `DivvyingTips` splits a reward by — sums to
    the recorded total (the hypothesis of `C09_divvy_sum`: the credits of a reward then add up to the reward, and the tips escrow covers
    them), and only lists delegations to bonded validators, over the reporter-stake histories (validators leaving the bonded set by the
    cap, by downtime jailing, selectors with several delegations) -/
def runSnapshotSum (_inp : List String) (out : String) : Option Res := Id.run do
  let mut ok := true
  let mut note := ""
  let mut n := 0
  let mut multi := 0
  for rec in out.splitOn " ;; " do
    if rec.startsWith "M " then
      match colon (rec.drop 2).toString with
      | r :: p :: m :: q :: t :: os :: _ =>
        match parseM s!"{r}:{p}:{m}:{q}:{t}:{os}" with
        | some mr =>
          n := n + 1
          if mr.origins.length ≥ 2 then multi := multi + 1
          let sm := (mr.origins.map (·.2.2)).sum
          if sm != mr.total then
            ok := false
            if note.isEmpty then note := s!"report of {mr.reporter} (power {mr.power}): the recorded origins sum to {sm}, the recorded total is {mr.total} ({mr.origins})"
        | none => pure ()
      | _ => pure ()
  return some { agree := true, monitor := ok, nontrivial := decide (n ≥ 1 ∧ multi ≥ 1), model := s!"reports={n} multi={multi}", note := note }

end Driver
