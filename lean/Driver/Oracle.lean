import LayerModel.Chain.Oracle
import Driver.Util
namespace Driver
open Layer Layer.Oracle

def parseBool (s : String) : Bool := s == "true"

def parseQuery (s : String) : Option Query :=
  match s.splitOn ":" with
  | [qid, id, amt, exp, w, hr, cy] => do
    pure { qid := qid, id := ← parseNat? id, amount := ← parseInt? amt, exp := ← parseNat? exp, window := ← parseNat? w,
           hasRev := parseBool hr, cycle := parseBool cy }
  | _ => none

def parseAggRec (s : String) : Option Oracle.Agg :=
  match s.splitOn ":" with
  | [qid, ts, v, rep, pw, nonce, fl, micro, mid, idx] => do
    let i ← parseNat? idx
    let reps : List Agg.AggReporter := if rep.isEmpty then [] else (List.replicate i ⟨"", 0, 0⟩) ++ [⟨rep, 0, 0⟩]
    pure { qid := qid, ts := ← parseNat? ts, value := v, reporter := rep, power := ← parseNat? pw, nonce := ← parseNat? nonce,
           flagged := parseBool fl, height := 0, microHeight := ← parseNat? micro, metaId := ← parseNat? mid, aggIndex := i, reporters := reps }
  | _ => none

def renderQuery (q : Query) : String := s!"{q.qid}:{q.id}:{q.amount}:{q.exp}:{q.window}:{q.hasRev}:{q.cycle}"

def last24 (v : String) : String := if v.length > 24 then (v.drop (v.length - 24)).toString else v

def renderAggRec (a : Oracle.Agg) : String :=
  s!"{a.qid}:{a.ts}:{last24 a.value}:{a.reporter}:{a.power}:{a.nonce}:{a.flagged}:{a.microHeight}:{a.metaId}:{a.aggIndex}"

def parseKind : String → Kind
  | "spot" => .spot | "deposit" => .deposit | "withdraw" => .withdraw | "nospec" => .nospec | _ => .garbage

structure OScan where
  s : S := {}
  ready : Bool := false
  ok : Bool := true
  halted : Bool := false
  note : String := ""
  h : Nat := 0
  aggsSeen : Nat := 0
  txOk : Nat := 0
  blocks : Nat := 0
  pendingFail : String := ""   -- tx-level disagreement found inside the current block
  probes : String := ""
  ts : Nat := 0
  spotW : Nat := 2

def restAfter (rec : String) (n : Nat) : String := " ".intercalate ((rec.splitOn " ").drop n)

/-- replays one history through the oracle model; after every block the model's collections must equal the dump -/
def scanOracle (out : String) : OScan :=
  (out.splitOn " ;; ").foldl (fun (sc : OScan) rec =>
    if !sc.ok || sc.halted then sc else
    let f := rec.splitOn " "
    match f with
    | "U" :: l :: _ => { sc with s := { sc.s with cycle := commaList l } }
    | ["U"] => { sc with s := { sc.s with cycle := [] } }
    | "I" :: h :: _ => { sc with h := (parseNat? h).getD 0 }
    | "HALT" :: _ => { sc with halted := true, note := rec }
    | "T" :: qid :: kind :: w :: net :: res :: _ =>
      if !sc.ready then sc else
      let spec : Spec := ⟨(parseNat? w).getD 0, ""⟩
      let r := tip sc.s (sc.h + 1) qid (parseKind kind) spec ((parseInt? net).getD 0)
      let implOk := res == "ok"
      (match r with
       | some s' => if implOk then { sc with s := s', txOk := sc.txOk + 1 } else { sc with pendingFail := s!"tip accepted by model, rejected by impl: {rec}" }
       | none => if implOk then { sc with pendingFail := s!"tip rejected by model, accepted by impl: {rec}" } else sc)
    | "R" :: qid :: kind :: w :: m :: reporter :: stake :: minS :: vok :: res :: rest =>
      if !sc.ready then sc else
      let spec : Spec := ⟨(parseNat? w).getD 0, m⟩
      let ri : RepIn := { reporter := reporter, stake := parseInt? stake, minStake := (parseInt? minS).getD 0,
                          value := " ".intercalate rest, valueOk := parseBool vok }
      let r := submit sc.s (sc.h + 1) qid (parseKind kind) spec ri
      let implOk := res == "ok"
      (match r with
       | some s' => if implOk then { sc with s := s', txOk := sc.txOk + 1 } else { sc with pendingFail := s!"report accepted by model, rejected by impl: {rec.take 160}" }
       | none => if implOk then { sc with pendingFail := s!"report rejected by model, accepted by impl: {rec.take 160}" } else sc)
    | "F" :: qid :: micro :: reporter :: _ =>
      if !sc.ready then sc else { sc with s := flag sc.s qid ((parseNat? micro).getD 0) reporter }
    | ["W", "<pending>"] => sc
    | "W" :: qid :: pw :: v :: _ =>
      -- the aggregate's key timestamp is the block time, known at E: remember as a pseudo report on the state
      if !sc.ready then sc else { sc with s := { sc.s with reports := sc.s.reports ++ [{ qid := qid, reporter := "<wd>", metaId := 0, value := v, power := (parseNat? pw).getD 0, height := 0, cycle := false, method := "" }] } }
    | "E" :: h :: ts :: w :: _ =>
      let hN := (parseNat? h).getD 0
      let tsN := (parseNat? ts).getD 0
      if !sc.ready then { sc with h := hN } else
      -- apply pending withdrawals (they were written during the block, before the end blocker)
      let wds := sc.s.reports.filter (fun r => r.reporter == "<wd>")
      let s0 := { sc.s with reports := sc.s.reports.filter (fun r => !(r.reporter == "<wd>")) }
      let s1 := wds.foldl (fun st r => withdrawAgg st hN tsN r.qid r.value r.power) s0
      let spotW := (parseNat? w).getD 2
      (match endBlock s1 hN tsN (fun _ => ⟨spotW, "weighted-median"⟩) with
       | some s2 => { sc with s := s2, h := hN, blocks := sc.blocks + 1, ts := tsN, spotW := spotW }
       | none => { sc with ok := false, note := s!"model end-blocker fails at h={hN}" })
    | ["SKIP", nS, dtS, _hS] =>
      -- n blocks without transactions (not observed one by one): n end blockers, block time advancing by dt each
      let n := (((nS.splitOn "=").getD 1 "").toNat?).getD 0
      let dt := (((dtS.splitOn "=").getD 1 "").toNat?).getD 0
      if !sc.ready then sc else
      (List.range n).foldl (fun (sc : OScan) _ =>
        if !sc.ok then sc else
        match endBlock sc.s (sc.h + 1) (sc.ts + dt) (fun _ => ⟨sc.spotW, "weighted-median"⟩) with
        | some s2 => { sc with s := s2, h := sc.h + 1, ts := sc.ts + dt, blocks := sc.blocks + 1 }
        | none => { sc with ok := false, note := s!"model end-blocker fails at h={sc.h + 1} (skipped block)" }) sc
    | "Q" :: rest =>
      let implS := " ".intercalate rest
      let qs := (commaList implS).filterMap parseQuery
      if !sc.ready then { sc with s := { sc.s with queries := qs } } else
      let mine := joinComma (sc.s.queries.map renderQuery)
      if sc.pendingFail != "" then { sc with ok := false, note := sc.pendingFail }
      else if mine == implS then sc
      else { sc with ok := false, note := s!"Query collection differs after h={sc.h}: model [{mine.take 300}] impl [{implS.take 300}]" }
    | "A" :: rest =>
      let implS := " ".intercalate rest
      let as := (commaList implS).filterMap parseAggRec
      if !sc.ready then { sc with s := { sc.s with aggs := as } } else
      let sorted := sc.s.aggs.mergeSort (fun a b => a.qid < b.qid || (a.qid == b.qid && a.ts ≤ b.ts))
      let mine := joinComma (sorted.map renderAggRec)
      if mine == implS then { sc with aggsSeen := as.length }
      else { sc with ok := false, note := s!"Aggregates differ after h={sc.h}: model [{mine.take 300}] impl [{implS.take 300}]" }
    | "C" :: cur :: seq :: nid :: _ =>
      if !sc.ready then { sc with ready := true, s := { sc.s with seq := (parseNat? seq).getD 0, nextId := (parseNat? nid).getD 0 } } else
      let idx := if sc.s.seq ≥ sc.s.cycle.length then 0 else sc.s.seq
      let mine := s!"{sc.s.cycle.getD idx "-"} {sc.s.seq} {sc.s.nextId}"
      if mine == s!"{cur} {seq} {nid}" then sc
      else { sc with ok := false, note := s!"cycle pointer differs after h={sc.h}: model [{mine}] impl [{cur} {seq} {nid}]" }
    | "G" :: rest => { sc with probes := " ".intercalate rest }
    | _ => sc) {}

/-- C08 getter probes against the chronological list -/
def checkProbes (s : S) (probes : String) : Bool × String :=
  (commaList probes).foldl (fun (acc : Bool × String) p =>
    if !acc.1 then acc else
    let f := p.splitOn " "
    let kv := f.filterMap (fun t => match t.splitOn "=" with | [k, v] => some (k, v) | _ => none)
    let get := fun k => ((kv.find? (·.1 == k)).map (·.2)).getD ""
    match f with
    | qid :: _ =>
      let opt := fun (o : Option Oracle.Agg) => match o with | some a => toString a.ts | none => "-"
      let good :=
        if get "cur" != "" then get "cur" == opt (getCurrent s qid)
        else if get "t" != "" then
          let t := (parseNat? (get "t")).getD 0
          get "before" == opt (getBefore s qid t) && get "tsb" == toString (tsBefore s qid t) &&
          get "tsa" == toString (tsAfter s qid t) &&
          get "byts" == (match getByTs s qid t with | some a => toString a.nonce | none => "-")
        else if get "i" != "" then get "idx" == opt (getByIndex s qid ((parseNat? (get "i")).getD 0))
        else true
      if good then acc else (false, s!"getter probe differs: {p}")
    | [] => acc) (true, "")

/-- C08 statements evaluated on the implementation's own dumps: consecutive `A` dumps differ only by appended
entries and by flags turned on; a new entry carries the query's previous sequence number + 1 and a timestamp above
all earlier ones of its query; the getter probes agree with the chronological list of the final dump -/
def c08Monitor (out : String) : Bool × String :=
  let recs := out.splitOn " ;; "
  let dumps := recs.filterMap (fun r => if r.startsWith "A " || r == "A" then some ((commaList ((r.drop 2).toString)).filterMap parseAggRec) else none)
  let rec go : List (List Oracle.Agg) → Bool × String
    | a :: b :: rest =>
      let keptOk := a.all (fun x => b.any (fun y => y.qid == x.qid && y.ts == x.ts && y.value == x.value && y.reporter == x.reporter &&
        y.power == x.power && y.nonce == x.nonce && y.microHeight == x.microHeight && (y.flagged || !x.flagged)))
      let news := b.filter (fun y => !(a.any (fun x => x.qid == y.qid && x.ts == y.ts)))
      let newsOk := news.all (fun y =>
        let prev := a.filter (·.qid == y.qid)
        let maxN := (prev.map (·.nonce)).foldl max 0
        prev.all (fun x => decide (x.ts < y.ts)) && y.nonce == maxN + 1 && !y.flagged) &&
        -- at most one new aggregate per query and block
        news.all (fun y => (news.filter (fun z => z.qid == y.qid)).length == 1)
      if keptOk && newsOk then go (b :: rest)
      else (false, s!"aggregate history changed illegally between two blocks (kept={keptOk} new={newsOk})")
    | _ => (true, "")
  let (ok, note) := go dumps
  if !ok then (ok, note) else
  -- "an aggregate becomes flagged when the report that determined it is disputed": after the block of a funded dispute
  -- (or accepted evidence) on a report, the aggregate of that query determined by that report (same micro height,
  -- same reporter) is flagged in the implementation's own collection
  let flagRes := recs.foldl (fun (acc : ((Bool × String) × List (String × Nat × String)) × List Oracle.Agg) rec =>
    if !acc.1.1.1 then acc else
    match rec.splitOn " " with
    | "F" :: qid :: micro :: reporter :: _ => ((acc.1.1, acc.1.2 ++ [(qid, (parseNat? micro).getD 0, reporter)]), acc.2)
    | "A" :: rest =>
      let as := (commaList (" ".intercalate rest)).filterMap parseAggRec
      -- only aggregates that already existed before the block of the dispute are concerned
      let bad := acc.1.2.find? (fun (f : String × Nat × String) =>
        let m := as.filter (fun a => a.qid == f.1 && a.microHeight == f.2.1 && a.reporter == f.2.2 &&
                                     acc.2.any (fun p => p.qid == a.qid && p.ts == a.ts))
        !m.isEmpty && !m.any (·.flagged))
      (match bad with
       | some f => (((false, s!"aggregate of {f.1} determined by the disputed report (micro height {f.2.1}, reporter {f.2.2}) is not flagged"), []), as)
       | none => ((acc.1.1, []), as))
    | _ => acc) (((true, ""), []), [])
  let flagRes := flagRes.1
  if !flagRes.1.1 then flagRes.1 else
  -- probes against the implementation's final list
  let final := dumps.getLast?.getD []
  let probes := (recs.filter (·.startsWith "G ")).getLast?.getD "G "
  checkProbes { aggs := final } ((probes.drop 2).toString)

/-- C07 statements evaluated on the implementation's own decisions -/
def c07Monitor (out : String) : Bool × String :=
  (out.splitOn " ;; ").foldl (fun (acc : Bool × String) rec =>
    if !acc.1 then acc else
    match rec.splitOn " " with
    | "R" :: _qid :: kind :: _w :: _m :: _rep :: stake :: minS :: vok :: res :: _ =>
      if res != "ok" then acc else
      let st := parseInt? stake
      let good := (kind == "spot" || kind == "deposit") && vok == "true" &&
        (match st with | some v => decide ((parseInt? minS).getD 0 ≤ v) | none => false)
      if good then acc else (false, s!"report admitted against the rules: {rec.take 140}")
    | _ => acc) (true, "")

/-- C07 on the implementation's own collections after every block: a round that holds reports is either still open
(present in `Query`, marked as having reports, expiring later) or has produced exactly one aggregate; no stored report belongs
to a round that is neither — every accepted report ends in exactly one aggregate. -/
def c07RoundMonitor (out : String) : Bool × String := Id.run do
  let mut qs : List Query := []
  let mut as : List Oracle.Agg := []
  let mut prevQs : List Query := []
  let mut prevAs : List Oracle.Agg := []
  let mut h := 0
  let mut cur : Option (String × Nat) := none      -- current cycle-list query and sequence number after the previous block
  let mut replaced := false                         -- the cycle list was replaced by governance in this block
  let mut qsAtC : List Query := []                  -- the Query collection after the previous block (as of its C record)
  for rec in out.splitOn " ;; " do
    match rec.splitOn " " with
    | "E" :: hS :: _ => h := (parseNat? hS).getD h
    | "U" :: _ => replaced := true
    | ["C", cq, seqS, _] =>
      -- the cycle list moves on only when its current query has no open window (whoever opened it: rotation or a tip); the current
      -- round of a query is its entry with the highest id.  The block after a governance replacement of the list is not judged (the
      -- sequencer may point beyond the new list and is wrapped there).
      let seq := (parseNat? seqS).getD 0
      match cur with
      | some (pq, pseq) =>
        if !replaced && seq != pseq then
          let mine := qsAtC.filter (fun q => q.qid == pq)
          match mine.foldl (fun (acc : Option Query) q => match acc with | none => some q | some m => if q.id > m.id then some q else some m) none with
          | some q => if q.exp > h then return (false, s!"the cycle list moved on from {pq} at h={h} although its current round {q.id} is open until {q.exp}")
          | none => pure ()
      | none => pure ()
      cur := some (cq, seq)
      qsAtC := qs
      replaced := false
    | "Q" :: rest => qs := (commaList (" ".intercalate rest)).filterMap parseQuery
    | "A" :: rest => as := (commaList (" ".intercalate rest)).filterMap parseAggRec
    | "P" :: rest =>
      -- a tip stays with its query until an aggregate of that query pays it: a tipped entry of the previous block is still
      -- there (same query, at least the same amount) unless an aggregate of that query appeared in this block
      for q in prevQs do
        if q.amount > 0 then
          let kept := qs.any (fun q' => q'.qid == q.qid && q'.amount ≥ q.amount)
          let paid := as.any (fun a => a.qid == q.qid && !(prevAs.any (fun p => p.qid == a.qid && p.ts == a.ts)))
          if !(kept || paid) then return (false, s!"tip {q.amount} of query {q.qid} (round {q.id}) vanished after h={h} without an aggregate")
      prevQs := qs
      prevAs := as
      for q in qs do
        if q.hasRev && q.exp ≤ h then return (false, s!"round {q.qid}:{q.id} holds reports and expired at {q.exp} but is still open after h={h}")
      for e in commaList (" ".intercalate rest) do
        match e.splitOn ":" with
        | [qid, midS, _n] =>
          let mid := (parseNat? midS).getD 0
          let nAgg := (as.filter (fun a => a.qid == qid && a.metaId == mid)).length
          let open_ := qs.any (fun q => q.qid == qid && q.id == mid && q.hasRev)
          if nAgg > 1 then return (false, s!"round {qid}:{mid} produced {nAgg} aggregates")
          if nAgg == 1 && open_ then return (false, s!"round {qid}:{mid} aggregated but still open after h={h}")
          if nAgg == 0 && !open_ then return (false, s!"reports of round {qid}:{mid} belong to no open round and no aggregate after h={h}")
        | _ => pure ()
    | _ => pure ()
  return (true, "")

def runOracle (_inp : List String) (out : String) : Option Res :=
  let sc := scanOracle out
  let (pok, pnote) := if sc.ok then checkProbes sc.s sc.probes else (true, "")
  -- monitor (C07/C08 statements on the implementation's own dumps) is evaluated by `oracleMonitor`
  some { agree := sc.ok && pok && !sc.halted, monitor := true, nontrivial := decide (sc.aggsSeen ≥ 2 ∧ sc.txOk ≥ 5), model := "",
         note := if sc.note != "" then sc.note else pnote }

def runOracle7 (inp : List String) (out : String) : Option Res := do
  let r ← runOracle inp out
  let (ok1, note1) := c07Monitor out
  let (ok2, note2) := c07RoundMonitor out
  let (ok, note) := if ok1 then (ok2, note2) else (ok1, note1)
  pure { r with monitor := ok, note := if r.note != "" then r.note else note }

def runOracle8 (inp : List String) (out : String) : Option Res := do
  let r ← runOracle inp out
  let (ok, note) := c08Monitor out
  pure { r with monitor := ok, note := if r.note != "" then r.note else note }

end Driver
