import LayerModel.Chain.Slash
import Driver.RepStake
namespace Driver
open Layer Layer.Reporter Layer.Slash

structure ERec where
  id : Nat
  status : Nat
  cat : Nat
  slash : Int
  feeTotal : Int
  reporter : String
  power : Int
  height : Int
  isOpen : Bool
  escTotal : Option Int
  escrow : List (String × String × Int)
  qid : String
  round : Nat
  start : Int := 0

def parseE (s : String) : Option ERec :=
  match colon s with
  | [id, st, cat, sl, ft, rep, pw, h, op, et, eo, q, rd, stt] => do
    let eol := (if eo.isEmpty then [] else eo.splitOn "+").filterMap (fun o => match o.splitOn "." with
      | [d, v, a] => (parseInt? a).map (fun x => (d, v, x)) | _ => none)
    pure ⟨← parseNat? id, ← parseNat? st, ← parseNat? cat, ← parseInt? sl, ← parseInt? ft, rep, ← parseInt? pw, ← parseInt? h, op == "true",
          if et == "-" then none else parseInt? et, eol, q, ← parseNat? rd, ← parseInt? stt⟩
  | _ => none

structure Snap where
  s : S := ⟨[], [], [], [], ⟨0, 0, 0, 0⟩⟩
  ubd : List (String × String × Int) := []
  pools : List (String × String) := []
  disputes : List ERec := []
  now : Int := 0
  aggs : List (String × Int × String × Bool × Int) := []   -- aggregates: query, micro-report height, its reporter, flagged, timestamp

structure SlScan where
  ok : Bool := true
  mon : Bool := true
  note : String := ""
  halted : Bool := false
  prev : Option Snap := none
  cur : Snap := {}
  xs : List XRec := []
  reports : List (MRec × Int × String) := []    -- report, height, ref name
  newM : List MRec := []
  nFunded : Nat := 0
  nFlag : Nat := 0
  nChase : Nat := 0
  nRejFake : Nat := 0
  nExpired : Nat := 0
  nApp : Nat := 0
  known : Bool := false            -- a monitor failure inside the trigger of the recorded finding dispute-report-unverified
  knownNote : String := ""
  tainted : List Nat := []         -- disputes created from an altered / invented report

def sknown (sc : SlScan) (m : String) : SlScan := { sc with known := true, knownNote := if sc.knownNote.isEmpty then m else sc.knownNote }

def sfail (sc : SlScan) (m : String) : SlScan := { sc with mon := false, note := if sc.note.isEmpty then m else sc.note }
def sdiff (sc : SlScan) (m : String) : SlScan := { sc with ok := false, note := if sc.note.isEmpty then m else sc.note }

def catOf : Nat → Option Cat
  | 1 => some .warning | 2 => some .minor | 3 => some .major | _ => none

/-- tokens a delegator holds in the staking module: delegations (at the validators' exchange rates) plus unbonding balances -/
def stakeOf (sn : Snap) (a : String) : Int :=
  ((sn.s.dels.filter (·.delegator == a)).map (fun d => match sn.s.vals.find? (·.name == d.validator) with
    | some v => if v.shares > 0 then (d.shares * v.tokens) / v.shares else 0 | none => 0)).sum +
  ((sn.ubd.filter (·.1 == a)).map (·.2.2)).sum

def poolInt (sn : Snap) (k : String) : Int := (((sn.pools.find? (·.1 == k)).map (·.2)).bind parseInt?).getD 0

def finishSlashBlock (sc : SlScan) : SlScan := Id.run do
  let mut sc := sc
  let cur := sc.cur
  -- C05-style ledger check on every dump: pools hold what validators and unbonding entries record
  let vt := ((sc.cur.pools.find? (·.1 == "valtokens")).map (·.2)).getD "0/0"
  let (bt, nbt) := match vt.splitOn "/" with | [a, b] => ((parseInt? a).getD 0, (parseInt? b).getD 0) | _ => (0, 0)
  if poolInt cur "bonded" < bt then sc := sfail sc s!"bonded pool {poolInt cur "bonded"} below bonded validators' tokens {bt}"
  if poolInt cur "notbonded" < nbt + poolInt cur "ubd" then sc := sfail sc s!"not-bonded pool {poolInt cur "notbonded"} below {nbt} + unbonding {poolInt cur "ubd"}"
  match sc.prev with
  | none => pure ()
  | some prev =>
    for x in sc.xs do
      -- following the backers' tokens never breaks down: no dispute transaction ends in a recovered panic
      if (x.kind == "disp" || x.kind == "addfee") && ((x.get "why").splitOn "runtime_error").length > 1 then
        sc := sfail sc s!"dispute transaction of {x.signer} panicked: {x.get "why"}"
      -- a dispute is accepted only for a report really submitted with the stated value and power
      if x.kind == "disp" && x.ok && x.get "mut" != "-" then
        sc := sknown sc s!"dispute accepted for an altered/invented report ({x.get "mut"}) by {x.signer}"
        -- the dispute(s) this block created are consequences of that acceptance
        let fresh := (cur.disputes.filter (fun d => !(prev.disputes.any (·.id == d.id)))).map (·.id)
        sc := { sc with tainted := sc.tainted ++ fresh }
      if x.kind == "disp" && !x.ok && x.get "mut" != "-" then sc := { sc with nRejFake := sc.nRejFake + 1 }
    for d in cur.disputes.filter (fun d => !(sc.tainted.contains d.id)) do
      let before := prev.disputes.find? (·.id == d.id)
      -- a first-round dispute entering its voting phase: the moment of slashing (later rounds of the same dispute do not slash again)
      let fundedNow := d.round == 1 && d.status == 1 && (match before with | some b => b.status == 0 | none => true)
      if d.round > 1 && before.isNone then
        -- a new round: nobody's stake moves because of it
        match sc.reports.find? (fun (m, h, _) => m.reporter == d.reporter && h == d.height && m.qid == d.qid) with
        | some (m, _, _) =>
          let bond := sc.xs.any (fun x => x.get "bond" == "1")
          if !bond then
            for b in (m.origins.map (·.1)).eraseDups do
              if stakeOf cur b < stakeOf prev b && !(sc.xs.any (fun x => x.signer == b)) then sc := sfail sc s!"round {d.round} of a dispute (id {d.id}) reduced the stake of {b} again"
        | none => pure ()
      -- escrow exists only for funded disputes and never changes afterwards (slashing at most once)
      match before with
      | some b => if b.status == 1 && d.status == 1 && (b.escTotal != d.escTotal || b.escrow != d.escrow) then sc := sfail sc s!"escrow record of dispute {d.id} changed during voting"
      | none => pure ()
      if d.status == 0 && d.escTotal.isSome then sc := sfail sc s!"stake escrowed for dispute {d.id} before it was funded"
      -- expiry without slashing
      match before with
      | some b => if b.status == 0 && d.status == 4 then
          sc := { sc with nExpired := sc.nExpired + 1 }
          if d.escTotal.isSome then sc := sfail sc s!"expired dispute {d.id} has escrowed stake"
      | none => pure ()
      -- a first-round dispute whose fee is not complete one day after its proposal has expired: it is neither still collecting
      -- after this block nor funded later
      if d.round == 1 && d.status == 0 && cur.now > d.start + 86400000 then
        sc := sfail sc s!"dispute {d.id} still collects its fee at t={cur.now}, more than a day after its proposal at {d.start}"
      if fundedNow && d.round == 1 && cur.now > d.start + 86400000 then
        sc := sfail sc s!"dispute {d.id} was funded (and slashed) at t={cur.now}, more than a day after its proposal at {d.start}"
      if fundedNow then
        sc := { sc with nFunded := sc.nFunded + 1 }
        -- the aggregate the disputed report determined (same query, that reporter's micro report at that height) is flagged from now on
        for a in prev.aggs do
          if a.1 == d.qid && a.2.1 == d.height && a.2.2.1 == d.reporter then
            sc := { sc with nFlag := sc.nFlag + 1 }
            match cur.aggs.find? (fun b => b.1 == a.1 && b.2.2.2.2 == a.2.2.2.2) with
            | some b => if !b.2.2.2.1 then sc := sfail sc s!"dispute {d.id} funded: the aggregate of query {d.qid} determined by {d.reporter}'s report at height {d.height} is not flagged"
            | none => sc := sfail sc s!"dispute {d.id} funded: the aggregate of query {d.qid} at height {d.height} disappeared"
        match catOf d.cat with
        | none => sc := sfail sc s!"dispute {d.id} has no category"
        | some cat =>
          -- amount: the category's share of the report's power (whole tokens)
          let amt := slashAmount d.power cat
          if d.slash != amt then sc := sdiff sc s!"slash amount of dispute {d.id}: implementation {d.slash}, model {amt}"
          let pctOk := d.slash * 1000000 == d.power * 1000000 * pct6 cat
          if !pctOk then sc := sfail sc s!"slash amount {d.slash} of dispute {d.id} is not the category's share of {d.power} tokens"
          -- the report's backers at report time
          match sc.reports.find? (fun (m, h, _) => m.reporter == d.reporter && h == d.height && m.qid == d.qid) with
          | none => sc := sfail sc s!"funded dispute {d.id} concerns no stored report of {d.reporter} at height {d.height}"
          | some (m, _, _) =>
            if m.power != d.power then sc := sfail sc s!"dispute {d.id} carries power {d.power}, the report had {m.power}"
            let backers := (m.origins.map (·.1)).eraseDups
            let total := (m.origins.map (·.2.2)).sum
            -- what each backer lost in this block; fee payers from bond also lose stake: only blocks without bond payment are evaluated
            let bond := sc.xs.any (fun x => x.get "bond" == "1")
            let losses := backers.map (fun b => (b, stakeOf prev b - stakeOf cur b))
            let totalLoss := (losses.map (·.2)).sum
            -- a delegation is valued at ⌊shares · tokens / validator shares⌋: at a validator whose exchange rate is not one the values
            -- before and after are cut separately, so the measured loss of a delegation can be one unit off what was taken from it;
            -- what left the ledger (validator tokens + unbonding balances) is compared exactly
            let rateOne := fun (sn : Snap) => sn.s.vals.all (fun v => v.tokens * Dec.prec == v.shares)
            let exact := rateOne prev && rateOne cur
            let slackAll : Int := if exact then 0 else (m.origins.length : Int) + (d.escrow.length : Int)
            let ledger := fun (sn : Snap) => (sn.s.vals.map (·.tokens)).sum + (sn.ubd.map (·.2.2)).sum
            if !bond then
              if totalLoss > d.slash + slackAll || totalLoss + slackAll < d.slash then sc := sfail sc s!"backers of dispute {d.id} lost {totalLoss} in total, slash amount {d.slash} ({losses})"
              -- (in a block in which no other dispute's escrow was taken or given back)
              let othersQuiet := cur.disputes.all (fun o => o.id == d.id || (match prev.disputes.find? (·.id == o.id) with
                | some p => p.escTotal == o.escTotal && p.escrow == o.escrow | none => o.escTotal.isNone))
              if othersQuiet && sc.xs.all (fun x => !x.ok || x.kind == "disp" || x.kind == "addfee") && ledger prev - ledger cur != d.slash then
                sc := sfail sc s!"funding of dispute {d.id}: validators' tokens and unbonding balances dropped by {ledger prev - ledger cur}, slash amount {d.slash}"
              for (b, loss) in losses do
                let contrib := ((m.origins.filter (·.1 == b)).map (·.2.2)).sum
                let n : Int := (m.origins.length : Int)
                -- |loss·total − contrib·amt| ≤ tolerance·total
                let dev := loss * total - contrib * d.slash
                let tol := (((m.origins.filter (·.1 == b)).length : Int)) * (if exact then 1 else 2) * total
                if dev > tol || dev < -tol then
                  let lastB := (m.origins.getLast?.map (·.1)) == some b
                  if lastB && dev ≤ n * total && dev ≥ -(n * total) then pure ()   -- the last origin absorbs the others' rounding
                  else sc := sfail sc s!"backer {b} of dispute {d.id} lost {loss}; contribution {contrib} of {total}, slash {d.slash} (all: {losses})"
              if (m.origins.any (fun o => !(cur.s.dels.any (fun dl => dl.delegator == o.1 && dl.validator == o.2.1)) || (prev.ubd.any (fun u => u.1 == o.1)))) then
                sc := { sc with nChase := sc.nChase + 1 }
            -- the model's apportioning against the recorded escrow entries (when no redelegated/unbonding tokens had to be chased
            -- the record has one entry per origin, in order)
            if d.escrow.map (fun e => (e.1, e.2.1)) == m.origins.map (fun o => (o.1, o.2.1)) then
              let mine := apportion (m.origins.map (·.2.2)) total d.slash
              if mine != d.escrow.map (·.2.2) then sc := sdiff sc s!"apportioning of dispute {d.id}: implementation {d.escrow.map (·.2.2)}, model {mine}"
              else sc := { sc with nApp := sc.nApp + 1 }
            -- recorded per backer: sums to the amount
            match d.escTotal with
            | some et =>
              if et != d.slash then sc := sfail sc s!"escrow record of dispute {d.id} totals {et}, slash {d.slash}"
              if (d.escrow.map (·.2.2)).sum != et then sc := sfail sc s!"escrow origins of dispute {d.id} do not sum to the recorded total"
              if !bond then
                for (b, loss) in losses do
                  let recd := ((d.escrow.filter (·.1 == b)).map (·.2.2)).sum
                  let slackB : Int := if exact then 0 else ((d.escrow.filter (·.1 == b)).length : Int) + ((m.origins.filter (·.1 == b)).length : Int)
                  if recd > loss + slackB || recd + slackB < loss then sc := sfail sc s!"escrow record credits {b} with {recd}, it lost {loss} (dispute {d.id})"
            | none => sc := sfail sc s!"funded dispute {d.id} has no escrow record"
            -- dispute module received the stake
            -- jail
            match findRep cur.s d.reporter, jailSeconds cat with
            | some rep, some secs =>
              if !rep.jailed then sc := sfail sc s!"reporter {d.reporter} not jailed by the {repr cat} dispute {d.id}"
              else if rep.jailedUntil != cur.now + secs * 1000 then sc := sfail sc s!"reporter {d.reporter} jailed until {rep.jailedUntil}, expected {cur.now + secs * 1000}"
            | _, _ => pure ()
    -- no stake leaves a backer outside funded disputes / own transactions: covered by C19's frame monitor
  let h := cur.now
  let reports := sc.reports ++ sc.newM.map (fun m => (m, 0, ""))
  return { sc with prev := some cur, xs := [], newM := [], reports := reports, cur := { cur with now := h } }

def scanSlash (out : String) : SlScan := Id.run do
  let mut sc : SlScan := {}
  let mut pendingBlock := false
  for rec in out.splitOn " ;; " do
    if sc.halted then continue
    if rec.startsWith "HALT" || rec.startsWith "harnesspanic" then sc := { sc with halted := true, note := rec }
    else if rec.startsWith "X " then
      if pendingBlock then sc := finishSlashBlock sc; pendingBlock := false
      match parseX (rec.drop 2).toString with
      | some x => sc := { sc with xs := sc.xs ++ [x] }
      | none => sc := sdiff sc s!"unparsable {rec}"
    else if rec.startsWith "N " then
      if pendingBlock then sc := finishSlashBlock sc; pendingBlock := false
      let fs := fieldsOf rec
      let g := fun k => ((getF fs k).bind parseInt?).getD 0
      sc := { sc with cur := { sc.cur with now := g "t", s := { sc.cur.s with params := ⟨(g "cap").toNat, g "mintrb", (g "maxval").toNat, g "unb"⟩ } } }
    else if rec.startsWith "V " then sc := { sc with cur := { sc.cur with s := { sc.cur.s with vals := parseSVals2 (rec.drop 2).toString } } }
    else if rec.startsWith "D " then sc := { sc with cur := { sc.cur with s := { sc.cur.s with dels := parseSDels (rec.drop 2).toString } } }
    else if rec.startsWith "S " then sc := { sc with cur := { sc.cur with s := { sc.cur.s with sels := parseSSels (rec.drop 2).toString } } }
    else if rec.startsWith "R " then sc := { sc with cur := { sc.cur with s := { sc.cur.s with reps := parseSReps (rec.drop 2).toString } } }
    else if rec.startsWith "U " then
      sc := { sc with cur := { sc.cur with ubd := (commaList (rec.drop 2).toString).filterMap (fun e => match colon e with
        | [d, v, b] => (parseInt? b).map (fun x => (d, v, x)) | _ => none) } }
    else if rec.startsWith "P " then sc := { sc with cur := { sc.cur with pools := fieldsOf rec } }
    else if rec.startsWith "A " then
      sc := { sc with cur := { sc.cur with aggs := (commaList (rec.drop 2).toString).filterMap (fun e => match colon e with
        | [q, mh, rp, fl, ts] => do pure (q, ← parseInt? mh, rp, fl == "true", ← parseInt? ts) | _ => none) } }
    else if rec.startsWith "E" then
      sc := { sc with cur := { sc.cur with disputes := (commaList (rec.drop 2).toString).filterMap parseE } }
      pendingBlock := true
    else if rec.startsWith "M " then
      -- M reporter:power:meta:qid:total:origins:height:ref
      match colon (rec.drop 2).toString with
      | [r, p, m, q, t, os, h, ref] =>
        match parseM s!"{r}:{p}:{m}:{q}:{t}:{os}" with
        | some mr => sc := { sc with reports := sc.reports ++ [(mr, (parseInt? h).getD 0, ref)] }
        | none => sc := sdiff sc s!"unparsable {rec}"
      | _ => sc := sdiff sc s!"unparsable {rec}"
    else pure ()
  if pendingBlock then sc := finishSlashBlock sc
  return sc

def runSlash (_inp : List String) (out : String) : Option Res :=
  let sc := scanSlash out
  -- a failure that lies entirely inside the recorded finding's trigger is reported as that finding
  let onlyKnown := sc.mon && sc.known
  some { agree := sc.ok && !sc.halted, monitor := sc.mon && !sc.known, nontrivial := decide (sc.nFunded ≥ 1),
         model := s!"funded={sc.nFunded} flagged={sc.nFlag} chased={sc.nChase} fakeRejected={sc.nRejFake} expired={sc.nExpired} apportionChecked={sc.nApp}",
         note := if sc.note != "" then sc.note else sc.knownNote,
         finding := if onlyKnown then "dispute-report-unverified" else "" }

end Driver
