import Driver.Oracle
import Driver.Chain
namespace Driver
open Layer

/-- C09 on whole blocks: when several eligible aggregates are produced in one block, the time-based reward pool is shared by all
their reports in proportion to power (one allocation over all of them), the pool is emptied, and nothing else is credited. -/
def runTbr (_inp : List String) (out : String) : Option Res := Id.run do
  let mut ok := true
  let mut note := ""
  let mut prevCredits : List (String × Int) := []
  let mut prevAggs : List Oracle.Agg := []
  let mut reports : List (String × Int × String × String) := []   -- reporter, power, meta, qid
  let mut credits : List (String × Int) := []
  let mut tbr : Int := 0
  let mut nShared := 0
  let mut halted := false
  let mut haveT := false
  for rec in out.splitOn " ;; " do
    if rec.startsWith "HALT" || rec.startsWith "harnesspanic" then halted := true; note := rec
    else if rec.startsWith "M " then
      match (rec.drop 2).toString.splitOn ":" with
      -- a reporter's later report in the same round replaces the earlier one
      | [r, p, m, q] => reports := (reports.filter (fun (r', _, m', q') => !(r' == r && m' == m && q' == q))) ++ [(r, (parseInt? p).getD 0, m, q)]
      | _ => pure ()
    else if rec.startsWith "T " then
      let fs := fieldsOf rec
      tbr := ((getF fs "tbr").bind parseInt?).getD 0
      credits := (commaList ((getF fs "credits").getD "")).filterMap (fun e => match e.splitOn ":" with
        | [n, v] => (parseInt? v).map (fun x => (n, x)) | _ => none)
      haveT := true
    else if rec.startsWith "A" && haveT then
      let as := (commaList (" ".intercalate ((rec.splitOn " ").drop 1))).filterMap parseAggRec
      let news := as.filter (fun a => !(prevAggs.any (fun p => p.qid == a.qid && p.ts == a.ts)))
      let delta := fun (n : String) => (((credits.find? (·.1 == n)).map (·.2)).getD 0) - (((prevCredits.find? (·.1 == n)).map (·.2)).getD 0)
      let names := ((credits.map (·.1)) ++ (prevCredits.map (·.1))).eraseDups
      let total := (names.map delta).sum
      if !news.isEmpty && total > 0 then
        -- the reports behind the new aggregates
        let rs := reports.filter (fun (_, _, m, q) => news.any (fun a => a.qid == q && toString a.metaId == m))
        let sumP := (rs.map (·.2.1)).sum
        if news.length ≥ 2 then nShared := nShared + 1
        if tbr > 1 then ok := false; note := if note.isEmpty then s!"time-based reward pool holds {tbr} after paying {news.length} aggregates" else note
        for n in names do
          let p := ((rs.filter (·.1 == n)).map (·.2.1)).sum
          let dev := delta n * sumP - total * p
          let tol := sumP * 1000000000000000000 * ((rs.length : Int) + 1)
          if dev > tol || dev < -tol then
            ok := false
            note := if note.isEmpty then s!"{n} was credited {delta n / 1000000000000000000} of {total / 1000000000000000000} with power {p} of {sumP} over {news.length} aggregates" else note
      else if total < 0 then ok := false; note := if note.isEmpty then "credits decreased without a withdrawal" else note
      prevCredits := credits
      prevAggs := as
      haveT := false
  return some { agree := !halted, monitor := ok, nontrivial := decide (nShared ≥ 1), model := s!"shared_blocks={nShared}", note := note }

end Driver
