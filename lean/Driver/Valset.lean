import LayerModel.Chain.BridgeValset
import LayerModel.Base.Abi
import LayerModel.Base.Keccak
import Driver.Chain
namespace Driver
open Layer Layer.Valset

def parseSet (s : String) : Option Valset.Set :=
  if s == "-" || s.isEmpty then some [] else
  mapM? (fun e => match e.splitOn "@" with
    | [a, p] => (parseNat? p).map (fun n => (⟨a, n⟩ : BVal))
    | _ => none) (s.splitOn "/")

structure ObsCk where
  k : Ckpt
  setHash : String
  checkpoint : String
  tsIdx : Nat

def parseCk (s : String) : Option ObsCk :=
  match s.splitOn ":" with
  | [ts, idx, thr, slots, set, vh, cp, ti] => do
    pure { k := { ts := ← parseNat? ts, idx := ← parseNat? idx, set := ← parseSet set, threshold := ← parseNat? thr, slots := ← parseNat? slots },
           setHash := vh, checkpoint := cp, tsIdx := ← parseNat? ti }
  | _ => none

def parseSVals (s : String) : Option (List SVal) :=
  mapM? (fun e => match e.splitOn ":" with
    | [op, tk, evm, st] => (parseNat? tk).map (fun n => (⟨op, n, if evm == "-" then none else some evm, st == "b"⟩ : SVal))
    | _ => none) (commaList s)

/-- the real hashes: keccak256(abi.encode(set)), keccak256(abi.encode("checkpoint", threshold, ts, setHash)) -/
def realSetHash (s : Valset.Set) : Option String := do
  let vs ← mapM? (fun (v : BVal) => (Bytes.ofHex? v.addr).map (fun b => (b, v.power))) s
  pure (Bytes.toHex (Keccak.keccak256 (Abi.goValsetBytes vs)))

def realCheckpoint (thr ts : Nat) (setHash : String) : Option String := do
  let h ← Bytes.ofHex? setHash
  pure (Bytes.toHex (Keccak.keccak256 (Abi.goCheckpointPre thr ts h)))

def concreteH : Hash := { set := fun s => ";".intercalate (s.map (fun v => s!"{v.addr}@{v.power}")), cp := fun thr ts h => s!"{thr}|{ts}|{h}" }

def parseMarks (s : String) : List (String × List (Option Bool)) :=
  (commaList s).filterMap (fun e => match e.splitOn "=" with
    | [ts, m] => some (ts, m.toList.map (fun c => if c == 'n' then none else some (c == 'v')))
    | _ => none)

def sortedBy (s : Valset.Set) : Bool :=
  (s.zip s.tail).all (fun p => vLe p.1 p.2)

structure VScan where
  st : Option St := none
  ok : Bool := true
  mon : Bool := true
  halted : Bool := false
  blocks : Nat := 0
  newCk : Nat := 0       -- checkpoints created after the first
  shiftCk : Nat := 0     -- … of which by a power shift (not staleness)
  accepted : Nat := 0    -- contract steps accepted with > 2/3 signed
  hashed : Nat := 0
  vals : List SVal := []
  t : Nat := 0
  obs : List ObsCk := []
  note : String := ""

def vfail (sc : VScan) (msg : String) : VScan := { sc with mon := false, note := if sc.note.isEmpty then msg else sc.note }
def vdiff (sc : VScan) (msg : String) : VScan := { sc with ok := false, note := if sc.note.isEmpty then msg else sc.note }

/-- monitors on one observed checkpoint list (the statement of C16 on the implementation's data) -/
def ckMonitors (sc : VScan) (obs : List ObsCk) (saved : Valset.Set) (latest : String) (known : Nat) : VScan := Id.run do
  let mut sc := sc
  let ks := obs.map (·.k)
  -- indexes contiguous from 0, timestamps strictly increasing, ts->idx map agrees, latest = last index
  if ks.map (·.idx) != List.range ks.length then sc := vfail sc "indexes not contiguous"
  if !((ks.zip ks.tail).all (fun p => decide (p.1.ts < p.2.ts))) then sc := vfail sc "timestamps not strictly increasing"
  if !(obs.all (fun o => o.tsIdx == o.k.idx)) then sc := vfail sc "timestamp->index map disagrees"
  if !ks.isEmpty && latest != toString (ks.length - 1) then sc := vfail sc "latest index is not the last checkpoint"
  match ks.getLast? with
  | some l => if l.set != saved then sc := vfail sc "saved set is not the last checkpoint's set"
  | none => pure ()
  -- per checkpoint: sorted, no zero power, threshold, slots = previous set's size
  let mut prev : Option Ckpt := none
  for o in obs do
    let k := o.k
    if !sortedBy k.set then sc := vfail sc s!"set of checkpoint {k.idx} not ordered"
    if k.set.any (fun v => v.power == 0) || k.set.isEmpty then sc := vfail sc s!"zero power member or empty set in checkpoint {k.idx}"
    if k.threshold != totalPower k.set * 2 / 3 then sc := vfail sc s!"threshold of checkpoint {k.idx} is not 2/3 of its set"
    let want := match prev with | some p => p.set.length | none => k.set.length
    if k.slots != want then sc := vfail sc s!"slots of checkpoint {k.idx}: {k.slots}, previous set has {want}"
    if k.idx ≥ known then
      -- stored hashes consistent with set/threshold/timestamp (real keccak + ABI model)
      match realSetHash k.set with
      | some h =>
        if h != o.setHash then sc := vfail sc s!"valset hash of checkpoint {k.idx} inconsistent"
        match realCheckpoint k.threshold k.ts o.setHash with
        | some c => if c != o.checkpoint then sc := vfail sc s!"checkpoint hash {k.idx} inconsistent"
        | none => sc := vfail sc "bad hash hex"
        sc := { sc with hashed := sc.hashed + 1 }
      | none => sc := vfail sc "bad address hex"
    prev := some k
  return sc

/-- signature slots vs the contract's update rule -/
def sigMonitors (sc : VScan) (obs : List ObsCk) (marks : List (String × List (Option Bool))) (final : Bool) : VScan := Id.run do
  let mut sc := sc
  let ks := obs.map (·.k)
  for (p, k) in ks.zip ks.tail do
    match marks.find? (·.1 == toString k.ts) with
    | none => sc := vfail sc s!"no signature record for checkpoint {k.idx}"
    | some (_, sg) =>
      if sg.length != p.set.length then sc := vfail sc s!"signature slots of checkpoint {k.idx} do not match the previous set"
      if sg.any (· == some false) then sc := vfail sc s!"a stored signature of checkpoint {k.idx} does not verify for its slot's member"
      let signed := ((p.set.zip sg).filter (fun x => x.2 == some true)).map (·.1.power) |>.sum
      -- the property quantifies over sets with total power of at least 2 (a total of 1 gives threshold 0, which the contract refuses)
      if 3 * signed > 2 * totalPower p.set && totalPower k.set ≥ 2 then
        let r := updateValidatorSet concreteH (cstateOf concreteH p) (concreteH.set k.set) k.threshold k.ts p.set sg
        if r != some (cstateOf concreteH k) then sc := vfail sc s!"contract rejects step to checkpoint {k.idx} although > 2/3 signed"
        else if final then sc := { sc with accepted := sc.accepted + 1 }
  return sc

/-! the statement of C16 written independently of the model's end blocker (exact rationals, no PowerDiff formula) -/
def specMembers (vals : List SVal) : List BVal :=
  vals.filterMap (fun v => match v.evm with
    | some a => if v.bonded && v.tokens ≥ 1000000 then some ⟨a, v.tokens / 1000000⟩ else none
    | none => none)

def specPower (s : Valset.Set) (a : String) : Int := match s.find? (·.addr == a) with | some v => v.power | none => 0

/-- Σ|Δpower| · 20 ≥ total power of the saved set  (a shift of at least 5 %) -/
def specShift (last cur : Valset.Set) : Bool :=
  let addrs := ((last ++ cur).map (·.addr)).eraseDups
  let d := (addrs.map (fun a => (specPower last a - specPower cur a).natAbs)).sum
  decide (d * 20 ≥ totalPower last) && totalPower last > 0

def sameMembers (a b : Valset.Set) : Bool := a.length == b.length && a.all (fun x => b.contains x) && b.all (fun x => a.contains x)

def createMonitor (sc : VScan) (prev : St) (obs : St) (t : Nat) : VScan := Id.run do
  let mut sc := sc
  let created := obs.ckpts.length > prev.ckpts.length
  let members := specMembers sc.vals
  if created then
    match obs.ckpts.getLast? with
    | some k => if !sameMembers k.set members then sc := vfail sc s!"set of checkpoint {k.idx} is not the registered validators with non-zero power"
    | none => pure ()
    if obs.ckpts.length != prev.ckpts.length + 1 || obs.ckpts.take prev.ckpts.length != prev.ckpts then
      sc := vfail sc "earlier checkpoints altered"
  else if obs != prev then sc := vfail sc "bridge state changed without a new checkpoint"
  match prev.saved, prev.ckpts.getLast? with
  | some last, some lk =>
    let age := t - lk.ts
    let shift := specShift last members
    let twoWeeks := 14 * 24 * 3600 * 1000
    -- staleness is measured by the code with a 1 s look-ahead: ages in (2w - 1 s, 2w] are tolerated either way
    -- no bonded validator has a registered EVM address (all of them joined the bonded set a block or two ago): there is no set to
    -- checkpoint (total power 0, outside C16's quantifier); the end blocker skips the block (C02 fix cae414c)
    if members.isEmpty && !created then pure ()
    else if (shift || age > twoWeeks) && !created then sc := vfail sc s!"no checkpoint at t={t} although shift={shift} age={age}"
    if (!shift && age + 1000 ≤ twoWeeks) && created then sc := vfail sc s!"checkpoint at t={t} although shift < 5 % and age={age}"
  | _, _ => if !created then sc := vfail sc "no checkpoint although none was saved"
  return sc

def scanValset (out : String) : VScan := Id.run do
  let recs := out.splitOn " ;; "
  let mut sc : VScan := {}
  let nB := (recs.filter (·.startsWith "B ")).length
  let mut seenB := 0
  for rec in recs do
    if rec.startsWith "HALT" || rec.startsWith "harnesspanic" then sc := { sc with halted := true, note := rec }
    else if rec.startsWith "V " then
      match parseSVals (rec.drop 2).toString with
      | some v => sc := { sc with vals := v }
      | none => sc := vdiff sc "unparsable V"
    else if rec.startsWith "B " then
      seenB := seenB + 1
      let fs := fieldsOf rec
      let t := ((getF fs "t").bind parseNat?).getD 0
      let saved := ((getF fs "saved").bind parseSet)
      let obs? := mapM? parseCk (commaList ((getF fs "ckpts").getD ""))
      match saved, obs? with
      | some saved, some obs =>
        let known := sc.obs.length
        sc := ckMonitors sc obs saved ((getF fs "latest").getD "-") known
        -- the set the end blocker must have computed from the staking validators
        let ost : St := { saved := if (getF fs "saved") == some "-" then none else some saved, ckpts := obs.map (·.k) }
        match sc.st with
        | none => sc := { sc with st := some ost }
        | some st =>
          sc := createMonitor sc st ost t
          match endBlock st sc.vals t with
          | none => sc := vdiff sc s!"model: end blocker fails at t={t}"
          | some st' =>
            if st' != ost then sc := vdiff sc s!"state after block t={t} differs: model {st'.ckpts.length} checkpoints, observed {ost.ckpts.length}; model last {repr st'.ckpts.getLast?} saved {repr st'.saved}; observed last {repr ost.ckpts.getLast?} saved {repr ost.saved}; cur {repr (currentSet sc.vals)}"
            if st'.ckpts.length > st.ckpts.length then
              let shifted := match st.saved, currentSet sc.vals with
                | some l, some c => decide (powerDiff l c ≥ 50000)
                | _, _ => false
              sc := { sc with newCk := sc.newCk + 1, shiftCk := sc.shiftCk + (if shifted then 1 else 0) }
            -- exactness of the current set wrt. the staking validators: every saved set is currentSet at its creation
            sc := { sc with st := some ost }
        sc := { sc with obs := obs, t := t, blocks := sc.blocks + 1 }
      | _, _ => sc := vdiff sc "unparsable B"
    else if rec.startsWith "S" then
      sc := sigMonitors sc sc.obs (parseMarks (rec.drop 2).toString) (seenB == nB)
    else pure ()
  return sc

def runValsetChain (_inp : List String) (out : String) : Option Res :=
  let sc := scanValset out
  some { agree := sc.ok && !sc.halted, monitor := sc.mon, nontrivial := sc.shiftCk ≥ 1 && sc.accepted ≥ 1,
         model := s!"blocks={sc.blocks} new={sc.newCk} shift={sc.shiftCk} accepted={sc.accepted} hashed={sc.hashed}", note := sc.note }

end Driver
