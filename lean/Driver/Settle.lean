import LayerModel.Chain.Settle
import Driver.Slash
namespace Driver
open Layer Layer.Settle

structure DRec where
  id : Nat
  status : Nat
  result : Nat
  executed : Bool
  slash : Int
  burn : Int
  fee : Int
  feeTotal : Int
  voterReward : Int
  round : Nat
  isOpen : Bool
  pending : Bool
  prev : List Nat
  block : Nat

def parseD (s : String) : Option DRec :=
  match colon s with
  | [id, st, res, ex, sl, bu, fe, ft, vr, rd, op, pe, pv, _end, blk] => do
    pure ⟨← parseNat? id, ← parseNat? st, ← parseNat? res, ex == "true", ← parseInt? sl, ← parseInt? bu, ← parseInt? fe, ← parseInt? ft, ← parseInt? vr,
          ← parseNat? rd, op == "true", pe == "true", (pv.splitOn "+").filterMap parseNat?, ← parseNat? blk⟩
  | _ => none

structure FRec where
  id : Nat
  payer : String
  amount : Int
  fromBond : Bool
  deriving BEq

structure TRec where
  id : Nat
  voter : String
  vote : Nat
  repPower : Int
  holderPower : Int
  claimed : Bool
  tips : Int
  grp : String := "-"
  gstake : Int := 0

structure CRec where
  id : Nat
  users : Int
  reps : Int
  holders : Int

def sum3 (s : String) : Int := ((s.splitOn "/").filterMap parseInt?).sum

structure SSnap where
  disputeBal : Int := 0
  supply : Int := 0
  dust : Int := 0
  ds : List DRec := []
  fs : List FRec := []
  ts : List TRec := []
  cs : List CRec := []
  hold : List (String × Int × Int) := []     -- name, liquid, staked
  xs : List XRec := []
  ks : List (Nat × Int) := []                -- fee paid from stake: first-round dispute id, total recorded as taken
  korig : List (Nat × List (String × String × Int)) := []   -- … and its per-backer entries (delegator, validator, amount) in stored order
  vals : List Reporter.Val := []
  dels : List Reporter.Del := []
  sels : List Reporter.Sel := []
  selOrder : List String := []               -- selectors in store order
  delOrder : List (String × String) := []    -- delegations (delegator, validator) in store order

structure StScan where
  ok : Bool := true
  mon : Bool := true
  note : String := ""
  halted : Bool := false
  snaps : List SSnap := []      -- newest first
  cur : SSnap := {}

def holdOf (sn : SSnap) (a : String) : Int := ((sn.hold.find? (·.1 == a)).map (fun h => h.2.1 + h.2.2)).getD 0
def liquidOf (sn : SSnap) (a : String) : Int := ((sn.hold.find? (·.1 == a)).map (·.2.1)).getD 0

structure StRes where
  ok : Bool := true
  mon : Bool := true
  note : String := ""
  nExec : Nat := 0
  nRefund : Nat := 0
  nReward : Nat := 0
  nRounds : Nat := 0
  rewardPaid : List (Nat × Int) := []
  burnedNow : Int := 0
  returnedNow : Int := 0
  execNow : Nat := 0
  known : Bool := false
  knownNote : String := ""
  dusty : List Nat := []        -- disputes (first-round ids) ever seen inside the trigger of from-bond-fee-dust

/-- trigger of the recorded finding `from-bond-fee-dust`: the disputes (first-round ids) whose from-stake payers are recorded with more
    than FeefromReporterStake took from their backers (each selector's share of the fee is truncated on its own) -/
def dustShort (sn : SSnap) : List Nat :=
  (sn.ks.filter (fun k => ((sn.fs.filter (fun f => f.id == k.1 && f.fromBond)).map (·.amount)).sum > k.2)).map (·.1)

def tknown (r : StRes) (m : String) : StRes := { r with known := true, knownNote := if r.knownNote.isEmpty then m else r.knownNote }
def tfail (r : StRes) (m : String) : StRes := { r with mon := false, note := if r.note.isEmpty then m else r.note }
def tdiff (r : StRes) (m : String) : StRes := { r with ok := false, note := if r.note.isEmpty then m else r.note }

/-- checks over one block: `a` before, `b` after -/
def settleStep (r : StRes) (a b : SSnap) : StRes := Id.run do
  let mut r := r
  -- whole loya of accumulated remainders are burned at once: the dust counter stays below one loya (10^6 units)
  if b.dust ≥ 1000000 || b.dust < 0 then r := tfail r s!"dust counter is {b.dust} (one loya or more) after a block"
  r := { r with dusty := (r.dusty ++ dustShort a ++ dustShort b).eraseDups }
  for x in b.xs do
    if x.get "why" == "insufficient" && (x.kind == "wfr" || x.kind == "claim") then
      -- recorded finding: the claim is on a dispute whose from-stake fee was escrowed short of the recorded amount
      let id := ((x.get "id").toNat?).getD 0
      let first := ((a.ds.find? (·.id == id)).map (fun d => d.prev.foldl min id)).getD id
      -- (the dispute account is one pool: the loya missing from a dusty dispute can surface at the last claim of any dispute)
      let _ := first
      if !r.dusty.isEmpty then r := tknown r s!"{x.kind} of {x.signer} on dispute {id} rejected for lack of funds: the from-stake fee of dispute(s) {r.dusty} was escrowed short of the recorded amount"
      else r := tfail r "a claim was rejected for lack of funds"
  -- execution
  for d in b.ds do
    match a.ds.find? (·.id == d.id) with
    | none => if d.round > 1 then r := { r with nRounds := r.nRounds + 1 }
    | some p =>
      if p.executed && !d.executed then r := tfail r s!"dispute {d.id} lost its executed mark"
      if !p.executed && d.executed then
        r := { r with nExec := r.nExec + 1 }
        if true then
          match outcomeOf d.result with
          | none => r := tfail r s!"dispute {d.id} executed with result {d.result}"
          | some o =>
            let anyVoter := (b.cs.filter (·.id == d.id)).any (fun c => c.users + c.reps + c.holders > 0) || (b.ts.any (·.id == d.id))
            -- votes of every round of the dispute count
            let anyVoter := anyVoter || (b.cs.filter (fun c => d.prev.contains c.id)).any (fun c => c.users + c.reps + c.holders > 0) || (b.ts.any (fun t => d.prev.contains t.id))
            let roundFees := p.feeTotal - p.slash
            let m := execute p.slash p.burn anyVoter o roundFees
            if p.burn - roundFees != burnAmount p.slash then r := tdiff r s!"burn amount of dispute {d.id}: implementation {p.burn} with round fees {roundFees}, model {burnAmount p.slash}"
            if d.voterReward != m.voterReward then r := tdiff r s!"voter reward of dispute {d.id}: implementation {d.voterReward}, model {m.voterReward}"
            r := { r with burnedNow := r.burnedNow + m.burned, returnedNow := r.returnedNow + m.toReporter, execNow := r.execNow + 1 }
  -- burned at execution = supply drop of the block (no other burn in a block without tip/withdraw transactions); the dispute
  -- module hands out exactly burn + what goes back to the reporter's side (summed over the disputes executed in this block)
  if r.execNow > 0 then
    let otherBurn := b.xs.any (fun x => x.kind == "tip" || x.kind == "wd" || x.kind == "wfr")
    if !otherBurn && a.supply - b.supply != r.burnedNow then r := tfail r s!"execution of {r.execNow} dispute(s) burned {a.supply - b.supply}, expected {r.burnedNow}"
    let quiet := b.xs.all (fun x => !x.ok || !(x.kind == "wfr" || x.kind == "claim" || x.kind == "disp" || x.kind == "addfee"))
    if quiet then
      let out := a.disputeBal - b.disputeBal
      if out > r.burnedNow + r.returnedNow || out < r.burnedNow + r.returnedNow - 64 then
        r := tfail r s!"execution of {r.execNow} dispute(s) moved {out} out of escrow, expected {r.burnedNow} burned + {r.returnedNow} returned"
    r := { r with burnedNow := 0, returnedNow := 0, execNow := 0 }
  -- refunds
  for x in b.xs do
    if x.kind == "wfr" then
      let id := ((x.get "id").toNat?).getD 0
      let payer := x.get "payer"
      let recBefore := a.fs.find? (fun f => f.id == id && f.payer == payer)
      -- the payer is recorded under the first round; the outcome and the amounts are those of the dispute's last round
      let chain := a.ds.filter (fun d => d.prev.contains id)
      let latest? := chain.foldl (fun (acc : Option DRec) d => match acc with | none => some d | some m => if d.id > m.id then some d else some m) none
      match latest?, recBefore with
      | some d, some f =>
        if x.ok then
          r := { r with nRefund := r.nRefund + 1 }
          if b.fs.any (fun g => g.id == id && g.payer == payer) then r := tfail r s!"payer record of {payer} (dispute {id}) survives its refund"
          let got := holdOf b payer - holdOf a payer
          let txFee : Int := if x.signer == payer then liquidFee else 0
          if d.status == 4 then pure ()   -- failed (expired) dispute: see DESIGN.md
          else match outcomeOf d.result with
            | some .against => r := tfail r s!"fee refund paid for a dispute decided against ({id})"
            | some o =>
              if !d.executed then r := tfail r s!"refund of dispute {id} paid before its last round ({d.id}) was executed"
              -- fees of further rounds are burned / go to the voters; the first round's payers share slash − 5 %
              let roundFees := d.feeTotal - d.slash
              let firstFees := d.slash
              let pot := d.slash - (d.burn - roundFees)
              let m1 := (refund f.amount pot firstFees).1
              let m2 := if o == .support then (bondShare f.amount d.slash firstFees).1 else 0
              -- an account that already holds stake also receives its accrued staking rewards whenever its delegation
              -- changes (distribution hook): for those only the staked part is compared exactly
              let stakedBefore := ((a.hold.find? (·.1 == payer)).map (·.2.2)).getD 0
              -- a fee paid from stake came from the payer's whole group (the payer and its selectors) and goes back to those
              -- backers: the staked amounts of all accounts are compared (nothing else changes stake in a refund block)
              let stakeAll := fun (sn : SSnap) => (sn.hold.map (·.2.2)).sum
              let stakeGot := if f.fromBond then stakeAll b - stakeAll a else (((b.hold.find? (·.1 == payer)).map (·.2.2)).getD 0) - stakedBefore
              let liquidGot := liquidOf b payer - liquidOf a payer + txFee
              let expStake := (if f.fromBond then m1 else 0) + m2
              let expLiquid := (if f.fromBond then 0 else m1)
              if stakedBefore > 0 then
                -- a refund to stake is split over the tracked origins and truncated per entry: up to one loya per entry stays in the pool (C05)
                if stakeGot > expStake || stakeGot + 8 < expStake || liquidGot < expLiquid then r := tdiff r s!"refund of {payer} for dispute {id}: stake changed by {stakeGot} (model {expStake}), liquid by {liquidGot} (model at least {expLiquid})"
              else if got + txFee != m1 + m2 then r := tdiff r s!"refund of {payer} for dispute {id}: holdings changed by {got + txFee}, model {m1} + {m2}"
              -- pro rata: within two loya of fee/firstFees of the pots
              let exact2 := f.amount * (pot + (if o == .support then d.slash else 0))
              let paid := if stakedBefore > 0 then stakeGot + expLiquid else got + txFee
              let dev := paid * firstFees - exact2
              if dev > 0 || dev < -(10 * firstFees) then r := tfail r s!"refund of {payer} for dispute {id} is {paid}, not the pro-rata part of its fee {f.amount} of {firstFees}"
            | none => r := tfail r s!"refund paid before the vote of dispute {id} was executed"
      | _, none => if x.ok then r := tfail r s!"refund paid to {payer} for dispute {id} without a payer record (second claim?)"
      | none, _ => if x.ok then r := tfail r s!"refund paid for unknown dispute {id}"
    if x.kind == "claim" && x.ok then
      let id := ((x.get "id").toNat?).getD 0
      r := { r with nReward := r.nReward + 1 }
      match a.ds.find? (·.id == id) with
      | none => r := tfail r s!"reward paid for unknown dispute {id}"
      | some d =>
        if !d.executed then r := tfail r s!"reward of dispute {id} paid before execution"
        let mine := a.ts.filter (fun t => d.prev.contains t.id && t.voter == x.signer)
        if mine.any (fun t => t.id == id && t.claimed) then r := tfail r s!"{x.signer} claimed the reward of dispute {id} twice"
        let got := liquidOf b x.signer - liquidOf a x.signer + liquidFee
        let glob := fun (f : CRec → Int) => ((a.cs.filter (fun c => d.prev.contains c.id)).map f).sum
        let au := (mine.map (·.tips)).sum; let ar := (mine.map (·.repPower)).sum; let ah := (mine.map (·.holderPower)).sum
        match reward d.voterReward au ar ah (glob (·.users)) (glob (·.reps)) (glob (·.holders)) with
        | some w => if got != w then r := tfail r s!"reward of {x.signer} for dispute {id}: received {got}, pro-rata share {w} (user {au}/{glob (·.users)}, reporter {ar}/{glob (·.reps)}, holder {ah}/{glob (·.holders)}, pot {d.voterReward})"
        | none => r := tfail r s!"reward paid although no group voted (dispute {id})"
        let paid := ((r.rewardPaid.filter (·.1 == id)).map (·.2)).sum + got
        if paid > d.voterReward then r := tfail r s!"rewards of dispute {id} add up to {paid}, pot {d.voterReward}"
        r := { r with rewardPaid := (id, got) :: r.rewardPaid }
  return r
where liquidFee : Int := 5000

def scanSettle (out : String) : StScan := Id.run do
  let mut sc : StScan := {}
  let mut pendingBlock := false
  for rec in out.splitOn " ;; " do
    if sc.halted then continue
    if rec.startsWith "HALT" || rec.startsWith "harnesspanic" then sc := { sc with halted := true, note := rec }
    else if rec.startsWith "X " then
      if pendingBlock then sc := { sc with snaps := sc.cur :: sc.snaps, cur := {} }; pendingBlock := false
      match parseX (rec.drop 2).toString with
      | some x => sc := { sc with cur := { sc.cur with xs := sc.cur.xs ++ [x] } }
      | none => pure ()
    else if rec.startsWith "N " then
      if pendingBlock then sc := { sc with snaps := sc.cur :: sc.snaps, cur := {} }; pendingBlock := false
    else if rec.startsWith "B " then
      let fs := fieldsOf rec
      let g := fun k => ((getF fs k).bind parseInt?).getD 0
      sc := { sc with cur := { sc.cur with disputeBal := g "dispute", supply := g "supply", dust := g "dust" } }
    else if rec.startsWith "E" then sc := { sc with cur := { sc.cur with ds := (commaList (rec.drop 2).toString).filterMap parseD } }
    else if rec.startsWith "F" then
      sc := { sc with cur := { sc.cur with fs := (commaList (rec.drop 2).toString).filterMap (fun e => match colon e with
        | [id, p, a, fb] => do pure ⟨← parseNat? id, p, ← parseInt? a, fb == "true"⟩ | _ => none) } }
    else if rec.startsWith "T" then
      sc := { sc with cur := { sc.cur with ts := (commaList (rec.drop 2).toString).filterMap (fun e => match colon e with
        | [id, v, vo, rp, hp, cl, tp, g, gs] => do pure ⟨← parseNat? id, v, ← parseNat? vo, ← parseInt? rp, ← parseInt? hp, cl == "true", ← parseInt? tp, g, ← parseInt? gs⟩
        | [id, v, vo, rp, hp, cl, tp] => do pure ⟨← parseNat? id, v, ← parseNat? vo, ← parseInt? rp, ← parseInt? hp, cl == "true", ← parseInt? tp, "-", 0⟩ | _ => none) } }
    else if rec.startsWith "C" then
      sc := { sc with cur := { sc.cur with cs := (commaList (rec.drop 2).toString).filterMap (fun e => match colon e with
        | [id, u, rp, h, _t] => (parseNat? id).map (fun i => ⟨i, sum3 u, sum3 rp, sum3 h⟩) | _ => none) } }
    else if rec.startsWith "K " then
      sc := { sc with cur := { sc.cur with ks := (commaList (rec.drop 2).toString).filterMap (fun e => match colon e with
        | id :: tot :: _ => do pure (← parseNat? id, ← parseInt? tot) | _ => none) } }
      sc := { sc with cur := { sc.cur with korig := (commaList (rec.drop 2).toString).filterMap (fun e => match colon e with
        | [id, _, os] => do pure (← parseNat? id, (if os.isEmpty then [] else os.splitOn "+").filterMap (fun o => match o.splitOn "." with
            | [d, v, a] => do pure (d, v, ← parseInt? a) | _ => none))
        | _ => none) } }
    else if rec.startsWith "V " then sc := { sc with cur := { sc.cur with vals := parseSVals2 (rec.drop 2).toString } }
    else if rec.startsWith "D " then sc := { sc with cur := { sc.cur with dels := parseSDels (rec.drop 2).toString } }
    else if rec.startsWith "S " then sc := { sc with cur := { sc.cur with sels := parseSSels (rec.drop 2).toString } }
    else if rec.startsWith "O " then
      match (rec.drop 2).toString.splitOn "/" with
      | [ss, ds] => sc := { sc with cur := { sc.cur with selOrder := commaList ss,
                                                         delOrder := (commaList ds).filterMap (fun e => match colon e with | [d, v] => some (d, v) | _ => none) } }
      | _ => pure ()
    else if rec.startsWith "H " then
      sc := { sc with cur := { sc.cur with hold := ((rec.drop 2).toString.splitOn " ").filterMap (fun e => match e.splitOn "=" with
        | [n, v] => (match v.splitOn "/" with | [l, s] => do pure (n, ← parseInt? l, ← parseInt? s) | _ => none) | _ => none) } }
      pendingBlock := true
    else pure ()
  if pendingBlock then sc := { sc with snaps := sc.cur :: sc.snaps }
  return sc

def runSettle (_inp : List String) (out : String) : Option Res :=
  let sc := scanSettle out
  let snaps := sc.snaps.reverse
  let r := (snaps.zip snaps.tail).foldl (fun r p => settleStep r p.1 p.2) ({} : StRes)
  -- after all parties have claimed: at most dust remains in escrow
  let r := match snaps.getLast? with
    | some last =>
      let allDone := last.ds.all (fun d => d.executed || d.status == 4 || !d.isOpen)
      let parties : Int := (last.fs.length + last.ts.length : Nat)
      let latestOf := fun (id : Nat) => (last.ds.filter (fun (d : DRec) => d.prev.contains id)).foldl (fun (acc : Option DRec) d => match acc with
        | none => some d | some m => if d.id > m.id then some d else some m) none
      -- a payer whose dispute ended (last round executed) with support or invalid must have been able to claim
      let stuck : List FRec := last.fs.filter (fun (f : FRec) => match latestOf f.id with
        | some d => d.executed && (outcomeOf d.result == some Outcome.support || outcomeOf d.result == some Outcome.invalid)
        | none => false)
      if !stuck.isEmpty && stuck.all (fun f => r.dusty.contains f.id) then
        tknown r s!"payer {(stuck.map FRec.payer)} could not claim: from-stake fee escrowed short of the recorded amount (records {(stuck.map FRec.id)} left)"
      else if !stuck.isEmpty then tfail r s!"payer {(stuck.map FRec.payer)} could not claim the refund of an executed dispute (records {(stuck.map FRec.id)} left)"
      else if allDone && !last.ds.isEmpty && last.ds.all (fun d => d.status != 4) && last.disputeBal > parties + 64 then
        -- a claim already classified under from-bond-fee-dust leaves its amount in escrow
        (if r.known then tknown else tfail) r s!"{last.disputeBal} loya remain in dispute escrow after all parties claimed ({last.fs.length} payer records left)"
      else r
    | none => r
  some { agree := r.ok && !sc.halted, monitor := r.mon && !r.known, nontrivial := decide (r.nExec ≥ 1 ∧ r.nRefund + r.nReward ≥ 1),
         model := s!"executed={r.nExec} refunds={r.nRefund} rewards={r.nReward} rounds={r.nRounds}",
         note := if r.note != "" then r.note else if r.knownNote != "" then r.knownNote else sc.note,
         finding := if r.mon && r.known then "from-bond-fee-dust" else "" }

end Driver
