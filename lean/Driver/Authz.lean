import LayerModel.Chain.Authz
import Driver.Chain
namespace Driver
open Layer Layer.Authz

structure Hold where
  name : String
  liquid : Int
  del : Int
  tips : Int
  sel : String
  bonded : Int

def parseHold (s : String) : Option Hold :=
  match s.splitOn "=" with
  | [n, v] => (match v.splitOn "/" with
    | [l, d, t, sl, b] => do pure ⟨n, ← parseInt? l, ← parseInt? d, ← parseInt? t, sl, ← parseInt? b⟩
    | _ => none)
  | _ => none

structure XRec where
  kind : String
  signer : String
  ok : Bool
  extra : List (String × String)

def parseX (s : String) : Option XRec :=
  match s.splitOn ":" with
  | kind :: signer :: res :: rest =>
    some ⟨kind, signer, res == "ok", rest.filterMap (fun kv => match kv.splitOn "=" with | [k, v] => some (k, v) | _ => none)⟩
  | _ => none

def XRec.get (x : XRec) (k : String) : String := ((x.extra.find? (·.1 == k)).map (·.2)).getD ""

structure AScan where
  ok : Bool := true           -- model agreement
  mon : Bool := true
  note : String := ""
  halted : Bool := false
  prevG : List (String × String) := []
  prevH : List Hold := []
  xs : List XRec := []
  passed : Nat := 0
  model : Option Gov := none   -- team and spec types tracked by the model
  nPriv : Nat := 0
  nFrame : Nat := 0
  nGov : Nat := 0
  nTeamOk : Nat := 0
  pendG : String := ""

def afail (sc : AScan) (m : String) : AScan := { sc with mon := false, note := if sc.note.isEmpty then m else sc.note }
def adiff (sc : AScan) (m : String) : AScan := { sc with ok := false, note := if sc.note.isEmpty then m else sc.note }

def specTypes (g : List (String × String)) : List (String × String) :=
  let s := ((g.find? (·.1 == "specs")).map (·.2)).getD ""
  (if s.isEmpty then [] else s.splitOn "/").filterMap (fun e => match e.splitOn "." with | [t, d] => some (t, d) | _ => none)

def gval (g : List (String × String)) (k : String) : String := ((g.find? (·.1 == k)).map (·.2)).getD ""

/-- accounts whose holdings a transaction may reduce: its signer, and the listed exceptions -/
def allowedFor (prevH : List Hold) (x : XRec) : List String :=
  let group := fun (r : String) => r :: (prevH.filter (fun h => h.sel == r)).map (·.name)
  [x.signer] ++
  -- a funded dispute: the disputed reporter, its selectors, and the backers of the disputed report (stake snapshot at report time)
  (if (x.kind == "disp" || x.kind == "addfee") && x.ok && x.get "funded" == "true" then group (x.get "rep") ++ (x.get "backers").splitOn "+" else []) ++
  (if (x.kind == "disp" || x.kind == "addfee") && x.ok && x.get "bond" == "true" then group x.signer else [])

def processBlock (sc : AScan) (g : List (String × String)) (hs : List Hold) : AScan := Id.run do
  let mut sc := sc
  let xs := sc.xs
  -- model: privileged / team / registration messages
  match sc.model with
  | none => sc := { sc with model := some { params := [], cyclelist := [], specs := specTypes g, mintStarted := false, snapshotLimit := 0, team := gval g "team" } }
  | some m0 =>
    let mut m := m0
    for x in xs do
      let msg? : Option Msg :=
        if x.kind.startsWith "direct." then
          let auth := if x.get "auth" == "gov" then "gov" else x.signer
          some (match (x.kind.drop 7).toString with
            | "mintinit" => .mintInit auth | "cyclelist" => .updateCyclelist auth ["q"] | "snaplimit" => .updateSnapshotLimit auth 7
            | "spec" => .updateDataSpec auth "spotprice" "s" | k => .updateParams k auth "v")
        else if x.kind == "team" then some (.updateTeam x.signer (x.get "new"))
        else if x.kind == "regspec" then some (.registerSpec x.signer (x.get "type") "s")
        else none
      match msg? with
      | none => pure ()
      | some msg =>
        let (m', exec) := step "gov" m x.signer msg
        if exec != x.ok then sc := adiff sc s!"{x.kind} by {x.signer}: implementation {if x.ok then "executed" else "rejected"}, model {if exec then "executes" else "rejects"}"
        m := m'
        if x.kind.startsWith "direct." then sc := { sc with nPriv := sc.nPriv + 1 }
        if x.kind == "team" && x.ok then sc := { sc with nTeamOk := sc.nTeamOk + 1 }
    -- governance-executed changes are outside the model's view: re-synchronise the tracked components when a proposal passed
    if sc.passed > 0 then m := { m with specs := specTypes g }
    if m.team != gval g "team" then sc := adiff sc s!"team address: implementation {gval g "team"}, model {m.team}"
    if m.specs.map (·.1) != (specTypes g).map (·.1) && sc.passed == 0 then
      -- order-insensitive comparison (the store iterates by key)
      let a := (m.specs.map (·.1)).mergeSort (· ≤ ·); let b := ((specTypes g).map (·.1)).mergeSort (· ≤ ·)
      if a != b then sc := adiff sc s!"registered spec types: implementation {b}, model {a}"
    sc := { sc with model := some { m with specs := specTypes g } }
  -- monitors on the implementation's own observations
  if !sc.prevG.isEmpty then
    -- (1) privileged messages signed by ordinary accounts are never executed
    for x in xs do
      if x.kind.startsWith "direct." && x.ok then sc := afail sc s!"privileged message {x.kind} executed for {x.signer}"
    -- (2) governed state changes only through governance; team only by the team; specs never replaced
    let teamOk := xs.any (fun x => x.kind == "team" && x.ok && x.signer == gval sc.prevG "team")
    for (k, v) in g do
      let old := gval sc.prevG k
      if k == "team" then
        if v != old && !teamOk then sc := afail sc s!"team address changed from {old} to {v} without a request of the current team"
      else if k == "specs" then
        let oldS := specTypes sc.prevG
        let newS := specTypes g
        if sc.passed == 0 then
          if !(oldS.all (fun e => newS.contains e)) then sc := afail sc "a registered data spec was replaced or removed without governance"
          let added := newS.filter (fun e => !(oldS.any (·.1 == e.1)))
          if !(added.all (fun e => xs.any (fun x => x.kind == "regspec" && x.ok && x.get "type" == e.1))) then sc := afail sc "a data spec appeared without a registration"
      else if k == "mins" then pure ()
      else if v != old && sc.passed == 0 then sc := afail sc s!"governed item {k} changed from {old} to {v} in a block without an executed governance proposal"
    -- (3) frame: holdings of everybody but the signer(s) (and the listed exceptions) are not reduced
    let allowed := xs.flatMap (allowedFor sc.prevH)
    for h in hs do
      match sc.prevH.find? (·.name == h.name) with
      | none => pure ()
      | some p =>
        if !allowed.contains h.name then
          if h.liquid < p.liquid then sc := afail sc s!"liquid balance of {h.name} reduced ({p.liquid} -> {h.liquid}) by {xs.map (fun x => x.kind ++ ":" ++ x.signer)}"
          if h.del < p.del then sc := afail sc s!"delegated stake of {h.name} reduced ({p.del} -> {h.del}) by {xs.map (fun x => x.kind ++ ":" ++ x.signer)}"
          if h.tips < p.tips then sc := afail sc s!"reward credit of {h.name} reduced ({p.tips} -> {h.tips}) by {xs.map (fun x => x.kind ++ ":" ++ x.signer)}"
          if h.sel != p.sel then
            -- the one exception: a selector below a full reporter's minimum is removed by anybody
            let cap := ((gval sc.prevG "cap").toNat?).getD 0
            let cnt := (sc.prevH.filter (fun q => q.sel == p.sel)).length
            let minOf := (((gval sc.prevG "mins").splitOn "/").filterMap (fun e => match e.splitOn "." with | [r, m] => if r == p.sel then parseInt? m else none | _ => none)).headD 0
            let rm := xs.any (fun x => x.kind == "rmsel" && x.ok && x.get "target" == h.name)
            if !(rm && h.sel == "-" && cnt ≥ cap && p.bonded < minOf) then
              sc := afail sc s!"reporter selection of {h.name} changed ({p.sel} -> {h.sel}) by {xs.map (fun x => x.kind ++ ":" ++ x.signer)} (selectors {cnt}, cap {cap})"
    sc := { sc with nFrame := sc.nFrame + (xs.filter (fun x => x.ok && !(x.kind.startsWith "gov"))).length, nGov := sc.nGov + sc.passed }
  return { sc with prevG := g, prevH := hs, xs := [], passed := 0 }

def scanAuthz (out : String) : AScan :=
  (out.splitOn " ;; ").foldl (fun (sc : AScan) rec =>
    if sc.halted then sc else
    if rec.startsWith "HALT" || rec.startsWith "harnesspanic" then { sc with halted := true, note := rec }
    else if rec.startsWith "X " then
      match parseX (rec.drop 2).toString with
      | some x => { sc with xs := sc.xs ++ [x] }
      | none => adiff sc s!"unparsable {rec}"
    else if rec.startsWith "P " then { sc with passed := ((rec.drop 2).toString.toNat?).getD 0 }
    else if rec.startsWith "G " then { sc with pendG := (rec.drop 2).toString }
    else if rec.startsWith "H " then
      let g := fieldsOf sc.pendG
      let hs := ((rec.drop 2).toString.splitOn " ").filterMap parseHold
      processBlock sc g hs
    else sc) {}

def runAuthz (_inp : List String) (out : String) : Option Res :=
  let sc := scanAuthz out
  some { agree := sc.ok && !sc.halted, monitor := sc.mon, nontrivial := decide (sc.nPriv ≥ 2 ∧ sc.nFrame ≥ 10),
         model := s!"priv={sc.nPriv} frame={sc.nFrame} gov={sc.nGov} team={sc.nTeamOk}", note := sc.note }

end Driver
