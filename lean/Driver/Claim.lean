import LayerModel.Chain.BridgeClaim
import Driver.Util
namespace Driver
open Layer.BridgeClaim

/-- `GetValidatorSetTimestampBefore(target)` + params lookup: the threshold of the greatest checkpoint timestamp
strictly below `target` (a timestamp of 0 counts as "none") -/
def thresholdBefore (cps : List (Nat × Nat)) (target : Nat) : Option Nat :=
  let older := cps.filter (fun c => decide (c.1 < target))
  let best := older.foldl (fun (b : Option (Nat × Nat)) c => match b with
    | none => some c
    | some x => if c.1 ≥ x.1 then some c else some x) none
  match best with
  | some (t, thr) => if t == 0 then none else some thr
  | none => none

def errName : Err → String
  | .noAggregate => "noAggregate" | .flagged => "flagged" | .alreadyClaimed => "alreadyClaimed" | .noCheckpoint => "noCheckpoint"
  | .insufficientPower => "insufficientPower" | .tooYoung => "tooYoung" | .invalidValue => "invalidValue" | .panic => "panic"

def runClaim (inp : List String) (out : String) : Option Res := do
  match inp with
  | [idS, clS, aggS, cpsS, nowS, decS, _val] =>
    let id ← parseNat? idS
    let agg : Option AggInfo := match aggS.splitOn ":" with
      | [fl, ts, pw] => some ⟨fl == "true", (parseNat? ts).getD 0, (parseNat? pw).getD 0⟩
      | _ => none
    -- later entries with the same timestamp overwrite earlier ones (store semantics)
    let cpsRaw := (commaList cpsS).filterMap (fun c => match c.splitOn ":" with
      | [t, thr] => some ((parseNat? t).getD 0, (parseNat? thr).getD 0) | _ => none)
    let cps := cpsRaw.foldl (fun acc c => (acc.filter (fun x => x.1 != c.1)) ++ [c]) []
    let dec : Option Decoded := match decS.splitOn ":" with
      | ["ok", rok, a, t] => some ⟨rok == "true", (parseNat? a).getD 0, (parseNat? t).getD 0⟩
      | _ => none
    let x : ClaimIn := { depositId := id, agg := agg, threshold := agg.bind (fun a => thresholdBefore cps a.tsMs),
                         nowNs := ← parseInt? nowS, decoded := dec }
    let claimed := if clS == "1" then [id] else []
    let r := claim claimed x
    let m := match r with
      | .ok (_, p) => s!"ok:{p.minted}:{p.toClaimer}:{p.toRecipient}"
      | .error e => if e == .panic then "panic" else s!"err:{errName e}"
    let outN := if out.startsWith "panic" then "panic" else out
    -- monitor: the statement of C14 on the implementation's outcome
    let mon := match out.splitOn ":" with
      | ["ok", mi, tc, tr] =>
        (match agg, dec with
         | some a, some d =>
           let minted := (parseNat? mi).getD 0; let toC := (parseNat? tc).getD 0; let toR := (parseNat? tr).getD 0
           !a.flagged && clS != "1" && d.recipientOk &&
           (match thresholdBefore cps a.tsMs with | some thr => decide (thr ≤ a.power) | none => false) &&
           decide (twelveHoursNs ≤ x.nowNs - (a.tsMs : Int) * 1000000) &&
           minted == d.amount / 1000000000000 && toC == d.tip / 1000000000000 && toC + toR == minted
         | _, _ => false)
      | _ => true
    pure { agree := m == outN, monitor := mon, nontrivial := outN.startsWith "ok", model := m,
           finding := "" }
  | _ => none

end Driver
