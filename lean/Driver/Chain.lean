import LayerModel.Chain.Supply
import Driver.Util
import Driver.ProposalDiff
namespace Driver
open Layer.Supply

/-- "k=v" fields of one record -/
def fieldsOf (rec : String) : List (String × String) :=
  (rec.splitOn " ").filterMap (fun tok => match tok.splitOn "=" with
    | k :: rest => if rest.isEmpty then none else some (k, "=".intercalate rest)
    | [] => none)

def getF (fs : List (String × String)) (k : String) : Option String := (fs.find? (·.1 == k)).map (·.2)

def parseEv (s : String) : Option (Sum Int Ev) :=   -- inl = block time
  match s.splitOn ":" with
  | ["t", n] => (parseInt? n).map Sum.inl
  | ["minit"] => some (.inr .minit)
  | ["tip", a] => (parseInt? a).map (fun x => .inr (.tip x))
  | ["wd", a] => (parseInt? a).map (fun x => .inr (.wd x))
  | ["claim", a] => (parseInt? a).map (fun x => .inr (.claim x))
  | ["exec", a] => (parseInt? a).map (fun x => .inr (.exec x))
  | ["dust", a] => (parseInt? a).map (fun x => .inr (.dust x))
  | _ => none

structure SupplyScan where
  st : Option St := none
  ok : Bool := true
  halted : Bool := false
  rejected : Bool := false
  invOk : Bool := true
  bridgeZero : Bool := true
  blocks : Nat := 0
  minted : Nat := 0
  lastT : Int := 0
  note : String := ""

/-- replays the documented events through the supply model and compares with the observed supply per block -/
def scanSupply (out : String) : SupplyScan :=
  (out.splitOn " ;; ").foldl (fun (sc : SupplyScan) rec =>
    if rec.startsWith "G " then sc
    else if rec.startsWith "B " then
      let fs := fieldsOf rec
      match getF fs "proc" with
      | some _ => { sc with rejected := true }
      | none =>
      match getF fs "supply", getF fs "ev" with
      | some supS, some evS =>
        let items := (commaList evS).filterMap parseEv
        let t := (items.filterMap (fun x => match x with | .inl t => some t | _ => none)).headD 0
        let evs := items.filterMap (fun x => match x with | .inr e => some e | _ => none)
        let obs := (parseInt? supS).getD 0
        let inv := getF fs "inv" == some "ok"
        let bz := getF fs "bridge" == some "0"
        match sc.st with
        | none => { sc with st := some { supply := obs, mint := {} }, lastT := t, blocks := sc.blocks + 1, invOk := sc.invOk && inv, bridgeZero := sc.bridgeZero && bz }
        | some st =>
          let (st', minted) := block st t evs
          let good := st'.supply == obs
          { sc with st := some { st' with supply := obs }, lastT := t, ok := sc.ok && good, blocks := sc.blocks + 1,
                    minted := sc.minted + (if minted > 0 then 1 else 0), invOk := sc.invOk && inv, bridgeZero := sc.bridgeZero && bz,
                    note := if good || sc.note != "" then sc.note else s!"h={(getF fs "h").getD "?"} predicted={st'.supply} observed={obs}" }
      | _, _ => { sc with halted := true, note := if sc.note == "" then rec.take 120 |>.toString else sc.note }
    else if rec.startsWith "SKIP " then
      -- n unobserved empty blocks of dt ms each: the model mints block by block (truncation per block)
      let fs := fieldsOf rec
      let n := ((getF fs "n").bind parseNat?).getD 0
      let dt := ((getF fs "dt").bind parseInt?).getD 0
      match sc.st with
      | none => sc
      | some st =>
        let t0 := sc.lastT
        let (st', tEnd) := (List.range n).foldl (fun (acc : St × Int) _ =>
          let t := acc.2 + dt * 1000000
          ((block acc.1 t []).1, t)) (st, t0)
        { sc with st := some st', lastT := tEnd, blocks := sc.blocks + n }
    else if rec.startsWith "harnesspanic" then { sc with halted := true, note := rec.take 120 |>.toString }
    else sc) {}

/-- C03: supply follows the documented events exactly; Σ balances = supply (bank invariant) -/
def runSupply (_inp : List String) (out : String) : Option Res :=
  let sc := scanSupply out
  some { agree := sc.ok, monitor := sc.ok && sc.invOk, nontrivial := decide (sc.minted ≥ 1 ∧ sc.blocks ≥ 10), model := "", note := sc.note }

/-- C02: no block of the history failed (FinalizeBlock error / panic) and no honest proposal was rejected -/
def runNoHalt (_inp : List String) (out : String) : Option Res :=
  let sc := scanSupply out
  some { agree := true, monitor := !sc.halted && !sc.rejected, nontrivial := decide (sc.blocks ≥ 10), model := "", note := sc.note }

/-- C04: per block — oracle account = Σ unpaid tips of open queries; tips escrow (loya) covers Σ selector credits
(raw 10^-18 units, slack far below one loya for rounding); bridge account empty -/
def runEscrow (_inp : List String) (out : String) : Option Res :=
  let recs := (out.splitOn " ;; ").filter (fun r => r.startsWith "B ")
  let (ok, paid, note, blocks) := recs.foldl (fun (acc : Bool × Nat × String × Nat) rec =>
    let (ok, paid, note, blocks) := acc
    let fs := fieldsOf rec
    match getF fs "oracle", getF fs "qsum", getF fs "tips", getF fs "tipsum", getF fs "bridge" with
    | some o, some q, some t, some ts, some b =>
      let oracleOk := o == q
      let tI := (parseInt? t).getD 0
      let tsI := (parseInt? ts).getD 0
      let escrowOk := decide (tsI ≤ tI * 1000000000000000000 + 1000000)
      let bridgeOk := b == "0"
      let good := oracleOk && escrowOk && bridgeOk
      (ok && good, paid + (if tsI > 0 then 1 else 0),
       if good || note != "" then note else s!"h={(getF fs "h").getD "?"} oracle={o} qsum={q} tips={t} tipsum={ts} bridge={b}", blocks + 1)
    | _, _, _, _, _ => (ok, paid, note, blocks)) (true, 0, "", 0)
  some { agree := true, monitor := ok, nontrivial := decide (paid ≥ 1 ∧ blocks ≥ 10), model := "", note := note }

/-- C14 end to end: per claim transaction (alone in its block) — accepted: recipients receive minted − tips, the claimer
the tips (minus the 5000 loya fee); rejected: nobody receives anything; over the history no deposit id is accepted
twice; the supply follows the documented events (claims included) and no block fails -/
def runDeposit (_inp : List String) (out : String) : Option Res :=
  let sc := scanSupply out
  let recs := (out.splitOn " ;; ").filter (fun r => r.startsWith "D ")
  let (ok, okIds, note) := recs.foldl (fun (acc : Bool × List String × String) rec =>
    let (ok, okIds, note) := acc
    let fs := fieldsOf rec
    let res := (getF fs "res").getD ""
    let ids := commaList ((getF fs "ids").getD "")
    let claimer := (parseInt? ((getF fs "claimer").getD "0")).getD 0
    let rcp := (parseInt? ((getF fs "recipients").getD "0")).getD 0
    let (minted, tips) := match ((getF fs "expect").getD "0:0").splitOn ":" with
      | [a, b] => ((parseInt? a).getD 0, (parseInt? b).getD 0) | _ => (0, 0)
    let single := (getF fs "single") == some "true"
    if res == "ok" then
      let dup := ids.any (fun i => okIds.contains i) || ids.eraseDups.length != ids.length
      let amountsOk := !single || (rcp == minted - tips && claimer == tips - 5000)
      (ok && !dup && amountsOk, okIds ++ ids, if !dup && amountsOk || note != "" then note else s!"claim: {rec}")
    else
      let quiet := !single || (rcp == 0 && claimer == -5000)
      (ok && quiet, okIds, if quiet || note != "" then note else s!"rejected claim moved funds: {rec}")) (true, [], "")
  -- no report on a bridge-withdrawal query is ever accepted (those aggregates are written by the bridge module alone)
  let wr := (out.splitOn " ;; ").filter (fun r => r.startsWith "WR " && (getF (fieldsOf r) "res") == some "ok")
  some { agree := sc.ok, monitor := ok && sc.ok && sc.invOk && !sc.halted && !sc.rejected && wr.isEmpty, nontrivial := !okIds.isEmpty, model := "",
         note := if note != "" then note else if !wr.isEmpty then s!"a report on a bridge-withdrawal query was accepted: {wr.headD ""}" else sc.note }

/-- C17 on the implementation's own observations:
(a) every honest proposal (built by the real PrepareProposal from the commit, untampered) is accepted and executes;
(b) every tampered proposal whose bridge data differs is rejected; (c) no handler panics;
(d) an operator's EVM address, once registered, never changes and is the address of its own key;
(e) every stored validator-set signature was sent by the validator owning that slot (same checkpoint, same bytes);
(f) every stored oracle attestation sits in the slot of the validator that sent it (slot = its position in the validator
    set of the checkpoint the snapshot was taken under; same snapshot, same bytes), and (g) every attestation a commit vote
    carried for a known snapshot by a member of that set is in state after the next block. -/
def runProposal (_inp : List String) (out : String) : Option Res :=
  let recs := out.splitOn " ;; "
  -- the validators' bridge keys (the table is dumped again whenever a validator is created; a key never changes)
  let keys : List (String × String) := ((recs.filter (·.startsWith "K ")).flatMap (fun k => commaList (k.drop 2).toString)).filterMap
    (fun kv => match kv.splitOn "=" with | [o, a] => some (o, a) | _ => none)
  let init : Bool × String × List (String × String) × List String × List String × Nat × Nat × List String × List String × Nat × Nat :=
    (true, "", [], [], [], 0, 0, [], [], 0, 0)
  let (ok, note, _, _, _, nTamper, nHostile, _, _, _, nAtt) := recs.foldl (fun acc rec =>
    let (ok, note, evm, sigsSeen, sentAll, nT, nH, attSeen, asentPrev, hPrev, nAtt) := acc
    if !ok then acc else
    let fs := fieldsOf rec
    if rec.startsWith "P " then
      let prep := (getF fs "prep").getD ""
      let proc := (getF fs "proc").getD ""
      let err := (getF fs "err").getD ""
      let tamper := (getF fs "tamper").getD "-"
      let changed := (getF fs "changed") == some "1"
      let exts := (getF fs "exts").getD ""
      let panicky := (prep.splitOn "panic").length > 1 || (proc.splitOn "panic").length > 1 || (err.splitOn "panic").length > 1
      let good := !panicky && (if tamper == "-" then prep == "ok" && proc == "ACCEPT" && err == "" else (!changed || proc == "REJECT"))
      (good, if good then note else s!"proposal: {rec.take 200}", evm, sigsSeen, sentAll, nT + (if tamper != "-" && changed then 1 else 0), nH + (if exts != "" then 1 else 0), attSeen, asentPrev, hPrev, nAtt)
    else if rec.startsWith "X " then
      let evmNow := (commaList ((getF fs "evm").getD "")).filterMap (fun kv => match kv.splitOn "=" with | [o, a] => some (o, a) | _ => none)
      -- (d)
      let stable := evm.all (fun (o, a) => evmNow.any (fun (o', a') => o == o' && a == a'))
      let own := evmNow.all (fun (o, a) => keys.any (fun (o', a') => o == o' && a == a'))
      -- (e)
      let sigsNow := commaList ((getF fs "sigs").getD "")
      let prevs := (commaList ((getF fs "prevs").getD "")).filterMap (fun p => match p.splitOn ":" with
        | [ts, _idx, addrs] => some (ts, addrs.splitOn "/") | _ => none)
      let newSigs := sigsNow.filter (fun x => !sigsSeen.contains x)
      let slotOk := newSigs.all (fun x => match x.splitOn "=" with
        | [slot, sig] => (match slot.splitOn ":" with
          | [ts, idx] =>
            let addr := ((prevs.find? (·.1 == ts)).bind (fun p => p.2[(parseNat? idx).getD 0]?)).getD ""
            -- some validator whose registered address is `addr` sent exactly (ts, sig)
            sentAll.any (fun snt => match snt.splitOn ":" with
              | [op, ts', sig'] => ts' == ts && sig' == sig && evmNow.any (fun (o, a) => o == op && a == addr)
              | _ => false)
          | _ => false)
        | _ => false)
      let sentNow := commaList ((getF fs "sent").getD "")
      -- (f), (g)
      let hNow := ((getF fs "h").bind parseNat?).getD 0
      let attsNow := commaList ((getF fs "atts").getD "")
      let aprev := (commaList ((getF fs "aprev").getD "")).filterMap (fun p => match p.splitOn ":" with
        | [sn, _n, addrs] => some (sn, addrs.splitOn "/") | _ => none)
      let asentNow := commaList ((getF fs "asent").getD "")
      let newAtts := attsNow.filter (fun x => !attSeen.contains x)
      let attOk := newAtts.all (fun x => match x.splitOn "=" with
        | [slot, sig] => (match slot.splitOn ":" with
          | [sn, idx] =>
            let addr := ((aprev.find? (·.1 == sn)).bind (fun p => p.2[(parseNat? idx).getD 0]?)).getD "?"
            asentPrev.any (fun snt => match snt.splitOn ":" with
              | [op, sn', sig'] => sn' == sn && sig' == sig && evmNow.any (fun (o, a) => o == op && a == addr)
              | _ => false)
          | _ => false)
        | _ => false)
      let complete := hNow != hPrev + 1 || asentPrev.all (fun snt => match snt.splitOn ":" with
        | [op, sn, sig] =>
          (match aprev.find? (·.1 == sn), evm.find? (·.1 == op) with
           | some p, some (_, a) =>
             (match p.2.findIdx? (· == a) with
              | some i => attsNow.contains s!"{sn}:{i}={sig}" || attsNow.any (fun x => x.startsWith s!"{sn}:{i}=")
              | none => true)
           | _, _ => true)
        | _ => true)
      let good := stable && own && slotOk && attOk && complete
      (good, if good then note else s!"pre-block state (stable={stable} own={own} slots={slotOk} attslots={attOk} attcomplete={complete}): {rec.take 160}", evmNow, sigsNow, sentAll ++ sentNow, nT, nH,
       attsNow, asentNow, hNow, nAtt + newAtts.length)
    else acc) init
  -- the derivation of the model (`Proposal.prepare`) against the real PrepareProposal, block by block
  let diffs := (recs.filter (·.startsWith "D ")).filterMap proposalDiff
  let nD := (recs.filter (·.startsWith "D ")).length
  some { agree := diffs.isEmpty, monitor := ok, nontrivial := decide (nTamper ≥ 1 ∨ nHostile ≥ 2), model := s!"atts={nAtt} derived={nD}",
         note := if note != "" then note else diffs.headD "" }

end Driver
