import LayerModel.Lemmas.Ante
import Driver.Util
namespace Driver
open Layer.Ante

def parseMsg (s : String) : Option Msg :=
  if s == "o" then some .other
  else match s.splitOn ":" with
    | [k, a] => do
        let n ← parseInt? a
        if k == "u" then some (.undel n)
        else if k == "c" || k == "d" || k == "r" || k == "x" then some (.inc n) else none
    | _ => none

def allPos : List Msg → Bool
  | [] => true
  | .inc a :: ms => decide (0 < a) && allPos ms
  | .undel a :: ms => decide (0 < a) && allPos ms
  | .other :: ms => allPos ms

/-- monitor = statement of `C18_admit_implies_bounds` evaluated on the implementation's decision -/
def anteMonitor (base bonded : Int) (msgs : List Msg) (admitted : Bool) : Bool :=
  if admitted && allPos msgs then
    (!hasInc msgs || decide (bonded + sumInc msgs ≤ upper base)) &&
    (!hasUndel msgs || decide (bonded - sumUndel msgs ≥ lower base))
  else true

def runAnte (inp : List String) (out : String) : Option Res := do
  match inp with
  | [tr, b, ms] =>
    let bonded ← parseInt? b
    let msgs ← mapM? parseMsg (commaList ms)
    let tracker ← (if tr == "-" then some none else (parseInt? tr).map some)
    let m := handle tracker bonded msgs
    let mstr := if m then "admit" else "reject"
    let mon := match tracker with
      | none => true
      | some base => anteMonitor base bonded msgs (out == "admit")
    let staking := msgs.filter (fun x => x != Msg.other)
    pure { agree := mstr == out, monitor := mon, nontrivial := decide (staking.length ≥ 2) && tracker.isSome, model := mstr }
  | _ => none

def runTrack (inp : List String) (out : String) : Option Res := do
  match inp with
  | [a, e, bl] =>
    let amt ← parseInt? a
    let exp ← parseInt? e
    let blocks ← mapM? (fun s => match s.splitOn ":" with
      | [t, b] => do let t ← parseInt? t; let b ← parseInt? b; pure (t, b)
      | _ => none) (commaList bl)
    let (_, outs, changes) := blocks.foldl (fun (acc : Tracker × List String × Nat) tb =>
      let (tr, os, ch) := acc
      let tr' := track tr tb.1 tb.2
      (tr', os ++ [s!"{tr'.amount}:{tr'.expiry}"], if tr' != tr then ch + 1 else ch)) ({ amount := amt, expiry := exp }, [], 0)
    let mstr := joinComma outs
    -- monitor: the implementation's tracker changes only at t ≥ expiry, to (bonded, t+12h)
    let implStates := (commaList out).map (fun s => match s.splitOn ":" with
      | [x, y] => (parseInt? x, parseInt? y) | _ => (none, none))
    let rec mon (prev : Int × Int) : List (Int × Int) → List (Option Int × Option Int) → Bool
      | [], [] => true
      | (t, b) :: bs, (some x, some y) :: is =>
        (if t < prev.2 then (x, y) == prev else x == b && y == t + twelveHours) && mon (x, y) bs is
      | _, _ => false
    pure { agree := mstr == out, monitor := mon (amt, exp) blocks implStates, nontrivial := changes ≥ 1, model := mstr }
  | _ => none

end Driver
