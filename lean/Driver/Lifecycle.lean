import LayerModel.Chain.Lifecycle
import Driver.Settle
namespace Driver
open Layer Layer.Lifecycle

/-- C12 (life cycle, vote bookkeeping) on the implementation's dumps of the settlement histories -/
def runLifecycle (_inp : List String) (out : String) : Option Res := Id.run do
  let sc := scanSettle out
  let snaps := sc.snaps.reverse
  let mut ok := true
  let mut agree := true
  let mut note := ""
  let mut nTrans := 0
  let mut nVotes := 0
  let mut nRounds := 0
  let mut voted : List (Nat × String) := []
  for (a, b) in snaps.zip snaps.tail do
    let fail := fun (m : String) (note : String) => if note.isEmpty then m else note
    -- status transitions
    for d in b.ds do
      match a.ds.find? (·.id == d.id) with
      | some p =>
        if p.status != d.status then
          nTrans := nTrans + 1
          match statusOf p.status, statusOf d.status with
          | some x, some y =>
            -- two transitions may fall into one block (vote reaching quorum and executing): allow a path of length two
            let direct := next x y
            let viaOne := [Status.prevote, .voting, .resolved, .unresolved, .failed].any (fun m => next x m && next m y)
            if !(direct || viaOne) then ok := false; note := fail s!"dispute {d.id} moved from {repr x} to {repr y}" note
          | _, _ => ok := false; note := fail s!"dispute {d.id} has an unknown status" note
        if p.round != d.round then ok := false; note := fail s!"dispute {d.id} changed its round" note
      | none =>
        -- a new dispute: first round in prevote/voting, or a further round (voting at once, fee = model's round fee)
        if d.round > 1 then
          nRounds := nRounds + 1
          if d.status != 1 then ok := false; note := fail s!"round {d.round} (dispute {d.id}) did not start in the voting phase" note
          match d.prev.dropLast.getLast? with
          | some pid =>
            match a.ds.find? (·.id == pid), b.ds.find? (·.id == pid) with
            | some pa, some pb =>
              if pa.status != 3 then ok := false; note := fail s!"round {d.round} opened on dispute {pid}, which was not unresolved" note
              if pb.isOpen then ok := false; note := fail s!"dispute {pid} still open after round {d.round} started" note
              -- fee of the new round: 5 % · 2^(round−1) of the slash amount, capped; it is added to fee total and burn amount
              let fee := roundFee pa.slash pa.round
              if d.feeTotal - pa.feeTotal != fee then agree := false; note := fail s!"round {d.round} of dispute {pid}: fee {d.feeTotal - pa.feeTotal}, model {fee}" note
            | _, _ => ok := false; note := fail s!"round {d.round} (dispute {d.id}) has no predecessor {pid}" note
          | none => ok := false; note := fail s!"round {d.round} (dispute {d.id}) lists no previous round" note
        else if !(d.status == 0 || d.status == 1) then ok := false; note := fail s!"new dispute {d.id} starts in status {d.status}" note
    -- votes: once per address and round, only while voting is open
    for x in b.xs do
      if x.kind == "vote" && x.ok then
        nVotes := nVotes + 1
        let id := ((x.get "id").toNat?).getD 0
        if voted.contains (id, x.signer) then ok := false; note := fail s!"{x.signer} voted twice on dispute {id}" note
        voted := (id, x.signer) :: voted
        match a.ds.find? (·.id == id) with
        | some d => if d.status != 1 then ok := false; note := fail s!"vote on dispute {id} accepted in status {d.status}" note
        | none => ok := false; note := fail s!"vote on unknown dispute {id} accepted" note
    -- group counters = sums of the recorded votes (user power = tips at the dispute's block)
    for c in b.cs do
      -- ClaimReward also writes a (powerless) voter record as its "claimed" mark for the last round: those are not votes
      let ts := b.ts.filter (fun t => t.id == c.id && (t.holderPower > 0 || t.repPower > 0 || !t.claimed))
      let su := (ts.map (·.tips)).sum; let sr := (ts.map (·.repPower)).sum; let sh := (ts.map (·.holderPower)).sum
      if c.users != su then ok := false; note := fail s!"user counter of dispute {c.id} is {c.users}, the voters' tips sum to {su}" note
      if c.reps != sr then ok := false; note := fail s!"reporter counter of dispute {c.id} is {c.reps}, the voters' reporter powers sum to {sr}" note
      if c.holders != sh then ok := false; note := fail s!"holder counter of dispute {c.id} is {c.holders}, the voters' holder powers sum to {sh}" note
      if (ts.map (·.voter)).eraseDups.length != ts.length then ok := false; note := fail s!"two voter records of one address for dispute {c.id}" note
      -- no reporting stake counts twice: the reporter powers recorded for one reporter's group (the reporter and its selectors)
      -- add up to that reporter's stake at the dispute's block when the reporter voted, and to no more otherwise
      for g in ((ts.map (·.grp)).filter (· != "-")).eraseDups do
        let grpVotes := ts.filter (·.grp == g)
        let sumP := (grpVotes.map (·.repPower)).sum
        let gst := (grpVotes.map (·.gstake)).foldl max 0
        let repVoted := grpVotes.any (·.voter == g)
        if sumP > gst then ok := false; note := fail s!"reporter powers of {g}'s group add up to {sumP} in dispute {c.id}, its stake at the dispute's block was {gst}" note
        if repVoted && sumP != gst && grpVotes.all (fun t => t.repPower ≥ 0) then ok := false; note := fail s!"reporter {g} voted in dispute {c.id}: group powers {sumP}, stake at the dispute's block {gst}" note
  return some { agree := agree && !sc.halted, monitor := ok, nontrivial := decide (nTrans ≥ 2 ∧ nVotes ≥ 1),
                model := s!"transitions={nTrans} votes={nVotes} rounds={nRounds}", note := if note != "" then note else sc.note }

end Driver
