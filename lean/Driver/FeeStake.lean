import LayerModel.Chain.FeeStake
import Driver.Settle
namespace Driver
open Layer Layer.FeeStake

/-- result of comparing the fee-from-stake payments of one history with the model -/
structure FsRes where
  ok : Bool := true
  mon : Bool := true
  note : String := ""
  compared : Nat := 0
  skipped : Nat := 0      -- payments in states the model does not cover (a validator with an exchange rate other than one)
  multi : Nat := 0        -- compared payments that touched more than one delegation of some selector
  appended : Nat := 0     -- compared payments on top of an earlier record of the same dispute

/-- the paying reporter's group in the state before the block, in the order the keeper walks it; `none` when a bonded validator of
    the group has an exchange rate other than one -/
def groupOf (a : SSnap) (payer : String) : Option (List Selector) :=
  let members := a.selOrder.filter (fun s => a.sels.any (fun x => x.selector == s && x.reporter == payer))
  members.mapM (fun s => do
    let ds ← (a.delOrder.filter (·.1 == s)).mapM (fun (dv : String × String) => do
      let v ← a.vals.find? (·.name == dv.2)
      let d ← a.dels.find? (fun d => d.delegator == s && d.validator == dv.2)
      if !v.bonded then pure none
      else if v.tokens * Dec.prec != v.shares || d.shares % Dec.prec != 0 then none
      else pure (some (⟨dv.2, d.shares / Dec.prec⟩ : Deleg)))
    pure ⟨s, ds.filterMap id⟩)

def feeStakeStep (r : FsRes) (a b : SSnap) : FsRes := Id.run do
  let mut r := r
  for k in b.korig do
    let oldTotal := ((a.ks.find? (·.1 == k.1)).map (·.2)).getD 0
    let newTotal := ((b.ks.find? (·.1 == k.1)).map (·.2)).getD 0
    let old := ((a.korig.find? (·.1 == k.1)).map (·.2)).getD []
    -- the record and its total
    let recSum := (k.2.map (·.2.2)).sum
    if recSum != newTotal then r := { r with mon := false, note := if r.note.isEmpty then s!"fee paid from stake for dispute {k.1}: the per-backer record sums to {recSum}, recorded total {newTotal}" else r.note }
    if newTotal != oldTotal || k.2.length != old.length then
      -- who paid: the from-stake payer record of this dispute that grew in this block
      let grew := b.fs.filter (fun f => f.id == k.1 && f.fromBond &&
        f.amount > (((a.fs.find? (fun g => g.id == k.1 && g.payer == f.payer)).map (·.amount)).getD 0))
      match grew with
      | [f] =>
        let fee := f.amount - (((a.fs.find? (fun g => g.id == k.1 && g.payer == f.payer)).map (·.amount)).getD 0)
        match groupOf a f.payer with
        | none => r := { r with skipped := r.skipped + 1 }
        | some sels =>
          match feeFromStake sels fee with
          | none => r := { r with ok := false, note := if r.note.isEmpty then s!"{f.payer} paid {fee} from stake for dispute {k.1}; the model refuses (group holds {totalTokens sels})" else r.note }
          | some os =>
            let want := os.map (fun o => (o.del, o.val, o.recorded)) ++ old
            r := { r with compared := r.compared + 1,
                          multi := r.multi + (if sels.any (fun s => (os.filter (·.del == s.addr)).length > 1) then 1 else 0),
                          appended := r.appended + (if old.isEmpty then 0 else 1) }
            if want != k.2 then
              r := { r with ok := false, note := if r.note.isEmpty then s!"fee {fee} paid from stake by {f.payer} for dispute {k.1}: record {k.2}, model {want}" else r.note }
            -- what left the bonded pool is what the record says (C05) …
            if newTotal - oldTotal != moved os then
              r := { r with ok := false, note := if r.note.isEmpty then s!"fee {fee} paid from stake by {f.payer}: recorded total grew by {newTotal - oldTotal}, model moves {moved os}" else r.note }
      | _ => r := { r with skipped := r.skipped + 1 }
  return r

/-- family `feestake` (C05): every fee paid from stake in generated dispute histories equals the model's `feeFromStake` on the state
    before the block — the entries appended to the per-backer record (delegator, validator, amount, in order) and the amount moved. -/
def runFeeStake (_inp : List String) (out : String) : Option Res :=
  let sc := scanSettle out
  let snaps := sc.snaps.reverse
  let r := (snaps.zip snaps.tail).foldl (fun r p => feeStakeStep r p.1 p.2) ({} : FsRes)
  some { agree := r.ok && !sc.halted, monitor := r.mon, nontrivial := decide (r.compared ≥ 1),
         model := s!"compared={r.compared} multi={r.multi} appended={r.appended} skipped={r.skipped}", note := if r.note != "" then r.note else sc.note }

end Driver
