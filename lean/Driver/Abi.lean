import LayerModel.Base.Abi
import LayerModel.Base.Keccak
import Driver.Util
import LayerModel.Gen.Formulas
namespace Driver
open Layer Layer.Abi Layer.Bytes

def hx (s : String) : Option Bytes := Bytes.ofHex? s
def kec (b : Bytes) : String := Bytes.toHex (Keccak.keccak256 b)

def parseVals (s : String) : Option (List (Bytes × Nat)) :=
  mapM? (fun (v : String) => match v.splitOn ":" with
    | [a, p] => do pure ((← hx a), (← parseNat? p))
    | _ => none) (commaList s)

/-- the contract side: `keccak256(abi.encode(Validator[] set))` -/
def solValsetBytes (vs : List (Bytes × Nat)) : Bytes := enc [.vals vs]

def runValset (inp : List String) (out : String) : Option Res := do
  match inp with
  | [vsS] =>
    let vs ← parseVals vsS
    let g := goValsetBytes vs
    let m := s!"{Bytes.toHex g}:{kec g}"
    let s := solValsetBytes vs
    let spec := s!"{Bytes.toHex s}:{kec s}"
    pure { agree := m == out, monitor := spec == out, nontrivial := decide (vs.length ≥ 2), model := "" }
  | _ => none

/-- the contract side: `_domainSeparateValidatorSetHash` -/
def solCheckpointPre (threshold ts : Nat) (valsetHash : Bytes) : Bytes :=
  enc [.word ((hx "636865636b706f696e7400000000000000000000000000000000000000000000").getD []),
       .word (u256 threshold), .word (u256 ts), .word valsetHash]

def runCheckpoint (inp : List String) (out : String) : Option Res := do
  match inp with
  | [th, ts, h] =>
    let th ← parseNat? th; let ts ← parseNat? ts; let h ← hx h
    let m := kec (goCheckpointPre th ts h)
    -- the contract takes a bytes32: the comparison is meaningful for 32-byte hashes (what the chain stores)
    let mon := if h.length == 32 then kec (solCheckpointPre th ts h) == out else true
    pure { agree := m == out, monitor := mon, nontrivial := h.length == 32, model := m }
  | _ => none

/-- family `vparams`: the stored checkpoint parameters of the real `SetBridgeValidatorParams` — threshold by the regenerated formula
    (monitor: exactly ⌊2·total/3⌋), validator-set hash and checkpoint by the keeper's / the contract's pre-images -/
def runVparams (inp : List String) (out : String) : Option Res := do
  match inp with
  | [vsS, tsS] =>
    let vs ← parseVals vsS
    let ts ← parseNat? tsS
    let total : Int := ((vs.map (fun v => (v.2 : Int))).sum)
    let thrM := (Layer.Gen.powerThreshold total).toNat
    let thrS := ((2 * total) / 3).toNat
    let hM := Keccak.keccak256 (goValsetBytes vs)
    let hS := Keccak.keccak256 (solValsetBytes vs)
    let m := s!"{thrM}:{ts}:{Bytes.toHex hM}:{kec (goCheckpointPre thrM ts hM)}"
    let spec := s!"{thrS}:{ts}:{Bytes.toHex hS}:{kec (solCheckpointPre thrS ts hS)}"
    pure { agree := m == out, monitor := spec == out, nontrivial := decide (total % 3 ≠ 0), model := m,
           note := if spec == out then "" else s!"total power {total}: stored parameters {out}, two thirds rounded down give {spec}" }
  | _ => none

/-- family `evmaddr`: the address `EVMAddressFromSignatures` derives from a validator's two initial signatures is the address of
    the key that made them (whatever recovery ids the two signatures need), and two signatures of different keys give no address -/
def runEvmAddr (_inp : List String) (out : String) : Option Res :=
  match out.splitOn ":" with
  | [got, want, kind, ra, rb] =>
    let good := if kind == "same" then got == want else got == "err"
    some { agree := true, monitor := good, nontrivial := kind == "same" && ra != rb, model := "",
           note := if good then "" else s!"signatures of {if kind == "same" then "one key" else "two keys"} (recovery ids {ra}/{rb}): derived {got}, the signer's address is {want}" }
  | _ => some { agree := false, monitor := true, nontrivial := false, model := "", note := s!"unparsable {out}" }

/-- the contract side: the digest of `verifyOracleData` -/
def solAttestPre (queryId value : Bytes) (ts power prev next : Nat) (checkpoint : Bytes) (attestTs : Nat) : Bytes :=
  enc [.word ((hx "74656c6c6f7243757272656e744174746573746174696f6e0000000000000000").getD []), .word queryId, .dyn value,
       .word (u256 ts), .word (u256 power), .word (u256 prev), .word (u256 next), .word checkpoint, .word (u256 attestTs)]

def runAttest (inp : List String) (out : String) : Option Res := do
  match inp with
  | [q, v, ts, pw, pv, nx, cp, ats] =>
    let q ← hx q; let cp ← hx cp
    let ts ← parseNat? ts; let pw ← parseNat? pw; let pv ← parseNat? pv; let nx ← parseNat? nx; let ats ← parseNat? ats
    match hx v with
    | none => pure { agree := out == "err", monitor := true, nontrivial := false, model := "err" }
    | some vb =>
      let m := kec (goAttestPre q vb ts pw pv nx cp ats)
      let wf := q.length == 32 && cp.length == 32
      let mon := if wf then kec (solAttestPre q vb ts pw pv nx cp ats) == out else true
      pure { agree := m == out, monitor := mon, nontrivial := wf && decide (vb.length % 32 ≠ 0), model := m }
  | _ => none

/-- the contract side: `keccak256(abi.encode("TRBBridge", abi.encode(bool, id)))` -/
def solQueryData (toLayer : Bool) (id : Nat) : Bytes :=
  enc [.dyn (ofString "TRBBridge"), .dyn (enc [.word (u256 (if toLayer then 1 else 0)), .word (u256 id)])]

def runQid (inp : List String) (out : String) : Option Res := do
  match inp with
  | [k, id] =>
    let id ← parseNat? id
    let m := kec (goQueryData (k == "d") id)
    pure { agree := m == out, monitor := kec (solQueryData (k == "d") id) == out, nontrivial := true, model := m }
  | _ => none

/-- decoder for (address, string, uint256, uint256): what `abi.decode` in `withdrawFromLayer` yields -/
def beNat (b : Bytes) : Nat := b.foldl (fun acc x => acc * 256 + x.toNat) 0

def decWithdraw (v : Bytes) : Option (Bytes × Bytes × Nat × Nat) :=
  if v.length < 128 then none else
  let w0 := v.take 32
  let off := beNat ((v.drop 32).take 32)
  let amt := beNat ((v.drop 64).take 32)
  let tip := beNat ((v.drop 96).take 32)
  if v.length < off + 32 then none else
  let len := beNat ((v.drop off).take 32)
  if v.length < off + 32 + len then none else
  some (w0.drop 12, (v.drop (off + 32)).take len, amt, tip)

def runWvalue (inp : List String) (out : String) : Option Res := do
  match inp with
  | [amt, _sender, rcp] =>
    let amt ← parseNat? amt; let rcp ← hx rcp
    match out.splitOn ":" with
    | [vhex, bech] =>
      let m := Bytes.toHex (goWithdrawValue rcp bech amt)
      -- C14 round trip: decoding the published value gives (recipient, bech32 sender, amount, 0)
      let v ← hx vhex
      let mon := decWithdraw v == some (toAddress rcp, ofString bech, amt, 0)
      pure { agree := m == vhex, monitor := mon, nontrivial := true, model := m }
    | _ => pure { agree := false, monitor := false, nontrivial := false, model := "" }
  | _ => none

def runSigconv (_inp : List String) (out : String) : Option Res :=
  -- exactly one of the two recovery ids recovers the signer's address from sha256(digest)
  some { agree := true, monitor := out == "true:false:1" || out == "false:true:1", nontrivial := true, model := "" }

end Driver
